"""Helpers for extension checks (X01...): their harness packages live in /verif/extra/harness (own workspace)."""
import os, shutil, subprocess, time
import vlib

XH = os.path.join(vlib.VERIF, "extra", "harness")


def cargo_build(pkg, bins=None, timeout=3600, features=None):
    lock = os.path.join(XH, "Cargo.lock")
    if not os.path.exists(lock):
        shutil.copy("/repo/Cargo.lock", lock)
    cmd = ["cargo", "build", "--offline", "-q", "-p", pkg]
    for b in (bins or []):
        cmd += ["--bin", b]
    if features:
        cmd += ["--features", ",".join(features)]
    e = dict(os.environ)
    e["CARGO_NET_OFFLINE"] = "true"
    e.setdefault("CARGO_BUILD_JOBS", "8")
    t0 = time.time()
    p = subprocess.run(cmd, cwd=XH, env=e, stdout=subprocess.PIPE, stderr=subprocess.STDOUT, text=True, timeout=timeout)
    if p.returncode != 0:
        raise vlib.ToolError("extension harness build failed (%s):\n%s" % (" ".join(cmd), p.stdout[-6000:]))
    return time.time() - t0


def bin_path(name):
    return os.path.join(XH, "target", "debug", name)


def run_bin(name, args=None, **kw):
    """Like vlib.run_bin but for binaries of the extension workspace."""
    old = vlib.bin_path
    vlib.bin_path = bin_path
    try:
        return vlib.run_bin(name, args, **kw)
    finally:
        vlib.bin_path = old
