#!/usr/bin/env python3
"""keepseed.py <seed-id> <property> <outdir> <needs> <detected-by> <confirm-log> -- copy a confirmed seeded change into /verif/seeded/<id>/"""
import json, os, shutil, sys
sid, prop, out, needs, detected, conflog = sys.argv[1:7]
dst = os.path.join("/verif/seeded", sid)
os.makedirs(dst, exist_ok=True)
for f in os.listdir(out):
    if f.endswith((".rs", ".diff", ".md")):
        shutil.copy(os.path.join(out, f), dst)
meta = {"id": sid, "property": prop, "needs_to_manifest": needs,
        "confirmed_by_lead": open(conflog).read().strip().splitlines() if os.path.exists(conflog) else [],
        "checks_run": detected}
json.dump(meta, open(os.path.join(dst, "meta.json"), "w"), indent=1)
print("kept", dst)
