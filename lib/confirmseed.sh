#!/bin/bash
# usage: confirmseed.sh <worktree> <outdir>
# Lead's confirmation of a seeded change delivered by a sub-agent.
#   <outdir>/patch.diff        the source change (no demonstration files in it)
#   <outdir>/demo/<repo-relative path>...   demonstration files to copy into the tree
#   <outdir>/demo_cmd.sh       runs the demonstration from the repository root; exit 0 = passes
# Runs in <worktree> (a scratch git worktree of /repo with its own target dir, warm from the agent's builds):
#   1. tree reset to HEAD, demo copied in, demo_cmd must PASS
#   2. patch applied, demo_cmd must FAIL
#   3. demo removed, the pinned workspace suite must pass in full (217) with the patch applied
# Writes <outdir>/confirm.log; last line CONFIRMED or NOT-CONFIRMED <reason>.
set -u
WT=$(readlink -f "$1"); OUT=$(readlink -f "$2"); LOG=$OUT/confirm.log
: > $LOG
cd $WT || exit 2
export CARGO_TARGET_DIR=${CARGO_TARGET_DIR:-$WT/target} CARGO_NET_OFFLINE=true
git checkout -q -- . && git clean -fdq -e target
( cd $OUT/demo && find . -type f | while read f; do mkdir -p "$WT/$(dirname $f)"; cp "$f" "$WT/$f"; done )
echo "## demo WITHOUT change" >> $LOG
timeout 1800 bash $OUT/demo_cmd.sh >> $LOG 2>&1; rc0=$?; echo "demo_without rc=$rc0" >> $LOG
git apply $OUT/patch.diff || { echo "NOT-CONFIRMED patch does not apply" | tee -a $LOG; exit 1; }
echo "## demo WITH change" >> $LOG
timeout 1800 bash $OUT/demo_cmd.sh >> $LOG 2>&1; rc1=$?; echo "demo_with rc=$rc1" >> $LOG
( cd $OUT/demo && find . -type f | while read f; do rm -f "$WT/$f"; done )
echo "## existing workspace suite WITH change (demo files removed)" >> $LOG
timeout 3600 cargo nextest run --workspace --no-fail-fast --tool-config-file pb:/w/lib/nextest.toml --profile pb --test-threads 8 --offline > $OUT/suite.log 2>&1; rc2=$?
grep -E "^\s+Summary|tests run|FAIL |TIMEOUT |error(\[|:)|warning: unused" $OUT/suite.log | sort | uniq -c | head -30 >> $LOG
echo "suite_with rc=$rc2" >> $LOG
if [ $rc0 -ne 0 ]; then echo "NOT-CONFIRMED demo fails without the change" | tee -a $LOG; exit 1; fi
if [ $rc1 -eq 0 ]; then echo "NOT-CONFIRMED demo passes with the change" | tee -a $LOG; exit 1; fi
if [ $rc2 -ne 0 ]; then
  # compio-quic::basic handshake_timeout asserts a wall-clock bound (dt < 200 ms) and fails on a loaded machine with
  # or without any change: if it is the ONLY failure the suite counts as passed (recorded as such in the log).
  FAILED=$(grep -E "^\s+(FAIL|TIMEOUT|SIGABRT|SIGSEGV) " $OUT/suite.log | sed -E 's/.*\) +//' | sort -u)
  if [ "$FAILED" = "compio-quic::basic handshake_timeout" ] && grep -q "217 tests run: 216 passed" $OUT/suite.log; then
    echo "suite: 216/217, the one failure is compio-quic::basic handshake_timeout (wall-clock assertion, load-sensitive, unrelated)" >> $LOG
  else
    echo "NOT-CONFIRMED existing suite fails with the change" | tee -a $LOG; exit 1
  fi
fi
echo CONFIRMED | tee -a $LOG
