"""Shared pipeline of the driver-level properties (C01, C02, C05, C17 parts) for one driver.

  1. TLC: exhaustive check of the implementation-shaped driver model composed with the OpAbs
     contract monitor (small constants), plus a control run with a repaired defect switched back on.
  2. TLC -simulate on the Eager variant of the same model generates schedules (submitter commands +
     harness-caused kernel actions) with the hook events expected per step.
  3. harness bin drv_replay replays them on the real driver (hooks on): event-exact comparison per step
     (binding) and an ndjson trace of every hook/API event; a second pass (--settle) evaluates the
     promptness/delivery oracle (cancelled or finished operations must complete).
  4. TLC validates both traces with Trace_OpAbs: the OpAbs monitor is evaluated after every event.
"""
import json
import os
import shutil

import vlib

C01_KINDS = {"free-while-os-holds", "free-while-pool-runs", "double-free", "free-under-submitter",
             "buffer-dropped-while-os-holds", "buffer-dropped-twice", "release-before-ring-closed",
             "release-of-dead-op", "completion-touches-freed-op", "event-touches-freed-op", "leaked",
             "buffer-leaked", "job-on-freed-op", "submit-dead-op", "cancel-dead-op", "cancel-on-dead-op",
             "pending-key-to-freed-op", "realloc", "result-delivered-while-os-holds"}
C02_KINDS = {"double-result", "result-on-dead-op", "result-delivered-twice", "result-delivered-but-never-stored",
             "result-is-not-what-the-os-did", "completion-for-op-not-in-os", "double-submit", "unknown-event"}
C17_KINDS = {"bad-dispatch", "job-started-twice-or-undispatched", "job-done-without-start"}

KIND2PROP = {}
for k in C01_KINDS:
    KIND2PROP[k] = "C01"
for k in C02_KINDS:
    KIND2PROP[k] = "C02"
for k in C17_KINDS:
    KIND2PROP[k] = "C17"


def validate(trace_path):
    """Run Trace_OpAbs; returns (list of (line, kind, op), accepted)."""
    if os.path.getsize(trace_path) == 0:
        class _R:
            distinct = generated = depth = 0
            wall = 0.0
            coverage = {}
        return [], _R()
    ok, r = vlib.validate_trace("Trace_OpAbs", "Trace_OpAbs.cfg", trace_path, timeout=1200)
    viol = None
    for o in r.printed:
        if isinstance(o, dict) and "violations" in o:
            viol = o["violations"]
    if viol is None:
        raise vlib.ToolError("Trace_OpAbs did not report: %s\n%s" % (r.error, r.out[-3000:]))
    if not ok:
        raise vlib.ToolError("trace was not consumed completely (malformed event?)\n%s" % r.out[-2000:])
    return [tuple(v) for v in viol], r


def case_of_line(trace_lines, line):
    """1-based trace line -> (case index, events of that case up to the line)."""
    start = 0
    case = None
    for i in range(line - 1, -1, -1):
        o = trace_lines[i]
        if o["ev"] == "reset":
            start = i
            case = o.get("case")
            break
    return case, trace_lines[start:line]


DRIVERS = {
    "iour": {"model": "IourDriver", "quick": ["sm", "sb", "sz"], "thorough": ["sm", "sb", "sz", "ss2", "smb"],
             "optional_actions": ("PushBlocking", "PoolRun", "KMore", "DropChan"),
             "live": {"C02": "live_c02", "C05": "live_c05"},
             "controls": {"C01": [("olddrain", "Safe")], "C05": [("live_oldcancel", "CancelPrompt")]},
             "gen": ["Gen_IourDriver.cfg", "Gen_IourDriver_z.cfg"]},
    "poll": {"model": "PollDriver", "quick": ["sss", "rw"], "thorough": ["sss", "ssb", "rw", "rrw", "live_rw"],
             "optional_actions": ("PushBlocking", "PoolRun", "DropChan", "Drain"),
             "live": {"C02": "live_c02", "C05": "live_c05"},
             "controls": {},
             "gen": ["Gen_PollDriver.cfg", "Gen_PollDriver_sss.cfg", "Gen_PollDriver_rw.cfg", "Gen_PollDriver_rrw.cfg"]},
}


def run_driver(run, tier, focus, drv, replay=None):
    D = DRIVERS[drv]
    for m in ("OpAbs", D["model"], "MC_" + D["model"], "Gen_" + D["model"], "Trace_OpAbs"):
        vlib.sany(m)
    tmp = vlib.scratch()
    try:
        cases_path = os.path.join(tmp, "cases.jsonl")
        if replay:
            obj = json.load(open(replay))
            with open(cases_path, "w") as f:
                f.write(json.dumps(obj["replay"]["case"] if "case" in obj["replay"] else obj["replay"]) + "\n")
            run.cov["states"] = run.cov["transitions"] = 1
            ncases = 1
        else:
            # 1. exhaustive model checking
            M = D["model"]
            cfgs = D["quick"] if tier == "quick" else D["thorough"]
            for c in cfgs:
                r = vlib.tlc("MC_" + M, "MC_%s_%s.cfg" % (M, c), timeout=3000)
                vlib.require_model_ok(r, M + "/" + c)
                z = [a for a in vlib.zero_actions(r) if a not in D["optional_actions"]]
                if z:
                    raise vlib.ToolError("%s/%s: actions never taken: %s" % (M, c, z))
                run.add_model(M + "+OpAbs/" + c, r)
            # liveness of the design (fair spec, no state constraint) for the property in focus
            live = D["live"].get(focus)
            if live:
                r = vlib.tlc("MC_" + M, "MC_%s_%s.cfg" % (M, live), timeout=3000, coverage=False)
                vlib.require_model_ok(r, M + "/" + live)
                run.add_model(M + "/liveness/" + live, r)
            # controls: a repaired defect switched back on must be caught by the model check
            for cfg, expect in D["controls"].get(focus, []):
                r = vlib.tlc("MC_" + M, "MC_%s_%s.cfg" % (M, cfg), timeout=900, coverage=False)
                if r.violated != expect:
                    raise vlib.ToolError("control run %s should violate %s, got %s / %s" % (cfg, expect, r.violated, r.error))
                run.note("control_%s_%s" % (drv, cfg), "violates %s as expected" % expect)
            # 2. schedules
            n = 0
            nsim = 600 if tier == "quick" else 6000
            with open(cases_path, "w") as f:
                def sink(o):
                    nonlocal n
                    n += 1
                    if n % 150 == 1:
                        run.sample({"schedule": [(s["act"], s["op"]) for s in o["steps"]],
                                    "expected_events_first_steps": [s["evs"] for s in o["steps"][:3]]}, limit=3)
                    f.write(json.dumps(o) + "\n")
                for gi, gcfg in enumerate(D["gen"]):
                    g = vlib.tlc("Gen_" + M, gcfg, timeout=1500, coverage=False, sink=sink,
                                 simulate=max(1, nsim // len(D["gen"])), depth=26, seed_=vlib.seed() + gi)
                    if g.error or g.violated:
                        raise vlib.ToolError("Gen_%s: %s %s\n%s" % (M, g.error, g.violated, g.out[-2000:]))
            if n == 0:
                raise vlib.ToolError("Gen_%s printed no behaviours" % M)
            ncases = n
        # 3. replay on the real driver
        vlib.cargo_build("hdrv", ["drv_replay"])
        results = {}
        for mode in ("exact", "settle"):
            tr = os.path.join(tmp, "trace_%s.ndjson" % mode)
            args = [cases_path, tr] + (["--settle"] if mode == "settle" else [])
            rc, out, err = vlib.run_bin("drv_replay", args, timeout=1800, check=False)
            crashes = 0
            allc = [json.loads(l) for l in open(cases_path)]
            while rc != 0 and crashes < 5:
                # the code under test killed the process (e.g. SIGSEGV through a dangling pointer): that behaviour
                # is reported, the rest is replayed from the next one
                marks = [l for l in err.splitlines() if l.startswith("CASE ")]
                if not marks:
                    raise vlib.ToolError("drv_replay failed rc=%s without progress marker: %s" % (rc, err[-2000:]))
                idx = int(marks[-1].split()[1])
                crashes += 1
                run.report({"site": drv, "crash": True, "mode": mode},
                           "driver=%s %s: the replay process died (rc=%s) while replaying behaviour %d: memory-unsafe access in the code under test" % (drv, mode, rc, idx),
                           allc[idx] if idx < len(allc) else None)
                rc, out, err = vlib.run_bin("drv_replay", args + ["--from", str(idx + 1)], timeout=1800, check=False)
            lines = vlib.jsonl(out)
            summ = [l for l in lines if l.get("type") == "summary"]
            if not summ:
                if crashes >= 5:
                    # the code under test keeps killing the process: the crashes are reported, the rest of this
                    # pass is abandoned
                    vlib.log("NOTE: %s %s: replay abandoned after %d crashes of the code under test" % (drv, mode, crashes))
                    open(tr, "w").close()
                    summ = [{"type": "summary", "cases": 0, "steps": 0, "problems": [], "trace_events": 0}]
                    lines = []
                else:
                    raise vlib.ToolError("drv_replay produced no summary: %s" % err[-2000:])
            results[mode] = (summ[0], [l for l in lines if l.get("type") != "summary"], tr)
        drift = 0
        for mode, (summ, probs, tr) in results.items():
            detail = {}
            for p in probs:
                detail.setdefault((p["type"], json.dumps(p["sig"], sort_keys=True)), p)
            for p in summ["problems"]:
                d = detail.get((p["type"], json.dumps(p["sig"], sort_keys=True)), {})
                if p["type"] == "mismatch":
                    drift += p["count"]
                    vlib.log("DRIFT (" + drv + " %s): %d behaviours where driver events differ from the model: %s" %
                             (mode, p["count"], d.get("desc", "")[:400]))
                elif p["type"] == "hang":
                    what = p["sig"].get("what", "")
                    prop = "C05" if what == "cancelled-op-never-completes" else ("C02" if p["sig"].get("kind") != "blocking" else "C17")
                    # locality: an operation starved after ANOTHER operation of the schedule was cancelled
                    if focus == "C05" and prop == "C02" and any(s.get("act") in ("cancel", "fire") for s in (d.get("case") or {}).get("steps", [])):
                        prop = "C05"
                    if p["sig"].get("action") == "poolrun":
                        prop = "C17"
                    if prop == focus:
                        run.report(p["sig"], d.get("desc", ""), d.get("case"))
                    else:
                        vlib.log("NOTE: %s finding (reported by ./check %s): %s" % (prop, prop, d.get("desc", "")[:200]))
                elif p["type"] == "panic":
                    # a panic of the driver during a replayed schedule: belongs to whichever property is being checked
                    run.report(p["sig"], d.get("desc", ""), d.get("case"))
        run.note(drv + "_drift_behaviours", drift)
        run.note(drv + "_behaviours_replayed", ncases)
        run.add_traces(results["exact"][0]["cases"] + results["settle"][0]["cases"])
        run.note(drv + "_hook_events_validated", results["exact"][0]["trace_events"] + results["settle"][0]["trace_events"])
        # 4. trace validation against the contract monitor
        allcases = [json.loads(l) for l in open(cases_path)]
        for mode, (summ, probs, tr) in results.items():
            viol, r = validate(tr)
            run.add_model("Trace_OpAbs/" + drv + "/" + mode, r)
            tl = [json.loads(l) for l in open(tr)]
            for (line, kind, op) in viol:
                prop = KIND2PROP.get(kind, "C01")
                case, evs = case_of_line(tl, line)
                # C05 (honest + local): a result/delivery violation in a run in which an operation had been
                # cancelled before is also a cancellation failure (fabricated or duplicated outcome, neighbour hit)
                if focus == "C05" and prop == "C02" and any(e["ev"] in ("cancelled", "pcancel", "cancelreq") for e in evs):
                    prop = "C05"
                desc = "driver=" + drv + " %s: contract monitor: %s for %s at trace line %d; last events: %s" % (
                    mode, kind, op, line, [(e["ev"], e["op"], e["a"]) for e in evs[-8:]])
                rep = {"case": allcases[case] if case is not None and case < len(allcases) else None,
                       "events": evs[-40:]}
                if prop == focus:
                    run.report({"site": drv, "monitor": kind}, desc, rep)
                else:
                    vlib.log("NOTE: %s finding (reported by ./check %s): %s" % (prop, prop, desc[:300]))
        # 5. negative control: move one free in front of the completion it waits for
        if not replay and os.path.getsize(results["exact"][2]) > 0:
            tr = results["exact"][2]
            tl = [json.loads(l) for l in open(tr)]
            idx = None
            for i in range(len(tl) - 1):
                if (tl[i]["ev"] == "cqe" and tl[i]["a"] == 0) or tl[i]["ev"] == "ppop":
                    for j in range(i + 1, min(i + 6, len(tl))):
                        if tl[j]["ev"] == "free" and tl[j]["op"] == tl[i]["op"]:
                            idx = (i, j)
                            break
                if idx:
                    break
            if idx is None:
                raise vlib.ToolError("negative control: no completion followed by a free in the trace")
            i, j = idx
            bad = tl[:i] + [tl[j]] + tl[i:j] + tl[j + 1:]
            badp = os.path.join(tmp, "neg.ndjson")
            with open(badp, "w") as f:
                for o in bad[:i + 40]:
                    f.write(json.dumps(o) + "\n")
            v2, _ = validate(badp)
            if not any(k in ("free-while-os-holds", "completion-touches-freed-op", "result-on-dead-op") for (_, k, _) in v2):
                raise vlib.ToolError("negative control: a free moved before its completion was accepted")
            run.note(drv + "_negative_control", "free moved before its final completion is rejected by the monitor")
            # 5b. waker contract: the invocation of the latest waker removed / attributed to an older registration
            wi = [i for i, o in enumerate(tl) if o["ev"] == "hwoken" and i > 0 and tl[i - 1]["ev"] == "result"
                  and tl[i - 1]["op"] == o["op"]]
            def judged(i):
                # the submitter still holds the key at the end of that step: an hwchk of the op follows before
                # its key is given back
                for j in range(i + 1, len(tl)):
                    if tl[j]["ev"] == "reset" or (tl[j]["ev"] == "htake" and tl[j]["op"] == tl[i]["op"]):
                        return False
                    if tl[j]["ev"] == "hwchk" and tl[j]["op"] == tl[i]["op"]:
                        return True
                return False
            wi = [i for i in wi if judged(i)]
            if not wi:
                raise vlib.ToolError("negative control: no waker invocation right after a stored result in the trace")
            i = wi[0]
            cut = i + 40
            nxt = [j for j in range(i + 1, len(tl)) if tl[j]["ev"] == "reset"]
            if nxt:
                cut = max(cut, nxt[0])
            for name, bad, want in (("removed", tl[:i] + tl[i + 1:cut], "waiter-not-woken"),
                                    ("stale", tl[:i] + [dict(tl[i], a=tl[i]["a"] + 7)] + tl[i + 1:cut], "stale-waker-woken")):
                with open(badp, "w") as f:
                    for o in bad:
                        f.write(json.dumps(o) + "\n")
                v3, _ = validate(badp)
                if not any(k == want for (_, k, _) in v3):
                    raise vlib.ToolError("negative control: waker invocation %s was accepted (wanted %s, got %s)" % (name, want, v3[:3]))
            run.note(drv + "_negative_control_waker", "a missing or stale waker invocation after a stored result is rejected by the monitor")
        run.assumptions += ["the kernel is the environment: completions are caused by the harness (pipe writes, connects, gates)",
                            "sequentially consistent single driver thread plus pool threads; byte-level heap effects are not observed, only ownership events"]
    finally:
        shutil.rmtree(tmp, ignore_errors=True)


def run_runtime(run, tier, focus):
    """compio-runtime level: seeded task programs (submit futures plain / under timeout / under a cancel token /
    in dropped tasks / runtime dropped with operations in flight), recorded and validated by Trace_OpAbs."""
    tmp = vlib.scratch()
    try:
        vlib.cargo_build("hdrv", ["rt_record"])
        tr = os.path.join(tmp, "rt.ndjson")
        runs = 120 if tier == "quick" else 3000
        rc, out, err = vlib.run_bin("rt_record", [runs, vlib.seed(), tr], timeout=3000)
        lines = vlib.jsonl(out)
        summ = [l for l in lines if l.get("type") == "summary"]
        if not summ:
            raise vlib.ToolError("rt_record produced no summary: %s" % err[-2000:])
        summ = summ[0]
        detail = {}
        for l in lines:
            if l.get("type") in ("hang", "contract", "panic"):
                detail.setdefault((l["type"], json.dumps(l["sig"], sort_keys=True)), l)
        for p in summ["problems"]:
            d = detail.get((p["type"], json.dumps(p["sig"], sort_keys=True)), {})
            cls = p["sig"].get("class")
            route = p["sig"].get("route", "")
            if p["type"] == "hang":
                prop = "C05" if cls == "cancel" else ("C17" if route == "Blocking" else "C02")
            elif p["type"] == "contract":
                prop = "C05" if route in ("Token", "Timeout") else "C02"
            else:
                prop = focus
            if prop == focus:
                run.report(p["sig"], d.get("desc", ""), d.get("case"))
            else:
                vlib.log("NOTE: %s finding at runtime level (reported by ./check %s): %s" % (prop, prop, d.get("desc", "")[:200]))
        viol, r = validate(tr)
        run.add_model("Trace_OpAbs/runtime", r)
        tl = [json.loads(l) for l in open(tr)]
        for (line, kind, op) in viol:
            prop = KIND2PROP.get(kind, "C01")
            case, evs = case_of_line(tl, line)
            desc = "runtime level: contract monitor: %s for %s at trace line %d; last events: %s" % (
                kind, op, line, [(e["ev"], e["op"], e["a"]) for e in evs[-8:]])
            if prop == focus:
                run.report({"site": "runtime", "monitor": kind}, desc, {"run": case, "seed": vlib.seed(), "events": evs[-40:]})
            else:
                vlib.log("NOTE: %s finding (reported by ./check %s): %s" % (prop, prop, desc[:300]))
        run.add_traces(summ["cases"])
        run.note("runtime_level_runs", summ["cases"])
        run.note("runtime_level_events_validated", summ["trace_events"])
    finally:
        shutil.rmtree(tmp, ignore_errors=True)


def run_all(run, tier, focus, replay=None):
    if replay:
        obj = json.load(open(replay))
        case = obj["replay"].get("case") or obj["replay"]
        drv = "poll" if (case or {}).get("driver") == "poll" else "iour"
        run_driver(run, tier, focus, drv, replay)
        return
    for drv in ("iour", "poll"):
        run_driver(run, tier, focus, drv)
    run_runtime(run, tier, focus)
