"""Shared pipeline of the driver-level properties (C01, C02, C05, C17 parts) for one driver.

  1. TLC: exhaustive check of the implementation-shaped driver model composed with the OpAbs
     contract monitor (small constants), plus a control run with a repaired defect switched back on.
  2. TLC -simulate on the Eager variant of the same model generates schedules (submitter commands +
     harness-caused kernel actions) with the hook events expected per step.
  3. harness bin drv_replay replays them on the real driver (hooks on): event-exact comparison per step
     (binding) and an ndjson trace of every hook/API event; a second pass (--settle) evaluates the
     promptness/delivery oracle (cancelled or finished operations must complete).
  4. TLC validates both traces with Trace_OpAbs: the OpAbs monitor is evaluated after every event.
"""
import json
import os
import shutil

import vlib

C01_KINDS = {"free-while-os-holds", "free-while-pool-runs", "double-free", "free-under-submitter",
             "buffer-dropped-while-os-holds", "buffer-dropped-twice", "release-before-ring-closed",
             "release-of-dead-op", "completion-touches-freed-op", "event-touches-freed-op", "leaked",
             "buffer-leaked", "job-on-freed-op", "submit-dead-op", "cancel-dead-op", "cancel-on-dead-op",
             "pending-key-to-freed-op", "realloc", "result-delivered-while-os-holds"}
C02_KINDS = {"double-result", "result-on-dead-op", "result-delivered-twice", "result-delivered-but-never-stored",
             "result-is-not-what-the-os-did", "completion-for-op-not-in-os", "double-submit", "unknown-event"}
C17_KINDS = {"bad-dispatch", "job-started-twice-or-undispatched", "job-done-without-start"}

KIND2PROP = {}
for k in C01_KINDS:
    KIND2PROP[k] = "C01"
for k in C02_KINDS:
    KIND2PROP[k] = "C02"
for k in C17_KINDS:
    KIND2PROP[k] = "C17"


def validate(trace_path):
    """Run Trace_OpAbs; returns (list of (line, kind, op), accepted)."""
    ok, r = vlib.validate_trace("Trace_OpAbs", "Trace_OpAbs.cfg", trace_path, timeout=1200)
    viol = None
    for o in r.printed:
        if isinstance(o, dict) and "violations" in o:
            viol = o["violations"]
    if viol is None:
        raise vlib.ToolError("Trace_OpAbs did not report: %s\n%s" % (r.error, r.out[-3000:]))
    if not ok:
        raise vlib.ToolError("trace was not consumed completely (malformed event?)\n%s" % r.out[-2000:])
    return [tuple(v) for v in viol], r


def case_of_line(trace_lines, line):
    """1-based trace line -> (case index, events of that case up to the line)."""
    start = 0
    case = None
    for i in range(line - 1, -1, -1):
        o = trace_lines[i]
        if o["ev"] == "reset":
            start = i
            case = o.get("case")
            break
    return case, trace_lines[start:line]


def run_iour(run, tier, focus, replay=None):
    for m in ("OpAbs", "IourDriver", "MC_IourDriver", "Gen_IourDriver", "Trace_OpAbs"):
        vlib.sany(m)
    tmp = vlib.scratch()
    try:
        cases_path = os.path.join(tmp, "cases.jsonl")
        if replay:
            obj = json.load(open(replay))
            with open(cases_path, "w") as f:
                f.write(json.dumps(obj["replay"]["case"] if "case" in obj["replay"] else obj["replay"]) + "\n")
            run.cov["states"] = run.cov["transitions"] = 1
            ncases = 1
        else:
            # 1. exhaustive model checking
            cfgs = ["sm", "sb"] if tier == "quick" else ["sm", "sb", "ss2", "smb"]
            for c in cfgs:
                r = vlib.tlc("MC_IourDriver", "MC_IourDriver_%s.cfg" % c, timeout=3000)
                vlib.require_model_ok(r, "IourDriver/" + c)
                z = [a for a in vlib.zero_actions(r) if a not in ("PushBlocking", "PoolRun", "KMore", "DropChan") or c == "smb"]
                if z:
                    raise vlib.ToolError("IourDriver/%s: actions never taken: %s" % (c, z))
                run.add_model("IourDriver+OpAbs/" + c, r)
            # control: the repaired Driver::drop defect, switched back on, must violate the monitor
            r = vlib.tlc("MC_IourDriver", "MC_IourDriver_olddrain.cfg", timeout=600, coverage=False)
            if r.violated != "Safe":
                raise vlib.ToolError("control run (old Driver::drop) should violate Safe, got %s / %s" % (r.violated, r.error))
            run.note("control_old_drop_violates_monitor", True)
            # 2. schedules
            n = 0
            nsim = 350 if tier == "quick" else 4000
            with open(cases_path, "w") as f:
                def sink(o):
                    nonlocal n
                    n += 1
                    if n % 150 == 1:
                        run.sample({"schedule": [(s["act"], s["op"]) for s in o["steps"]],
                                    "expected_events_first_steps": [s["evs"] for s in o["steps"][:3]]}, limit=3)
                    f.write(json.dumps(o) + "\n")
                g = vlib.tlc("Gen_IourDriver", "Gen_IourDriver.cfg", timeout=1500, coverage=False, sink=sink,
                             simulate=nsim, depth=26)
            if g.error or g.violated or n == 0:
                raise vlib.ToolError("Gen_IourDriver: %s %s n=%d\n%s" % (g.error, g.violated, n, g.out[-2000:]))
            ncases = n
        # 3. replay on the real driver
        vlib.cargo_build("hdrv", ["drv_replay"])
        results = {}
        for mode in ("exact", "settle"):
            tr = os.path.join(tmp, "trace_%s.ndjson" % mode)
            args = [cases_path, tr] + (["--settle"] if mode == "settle" else [])
            rc, out, err = vlib.run_bin("drv_replay", args, timeout=1800)
            lines = vlib.jsonl(out)
            summ = [l for l in lines if l.get("type") == "summary"]
            if not summ:
                raise vlib.ToolError("drv_replay produced no summary: %s" % err[-2000:])
            results[mode] = (summ[0], [l for l in lines if l.get("type") != "summary"], tr)
        drift = 0
        for mode, (summ, probs, tr) in results.items():
            detail = {}
            for p in probs:
                detail.setdefault((p["type"], json.dumps(p["sig"], sort_keys=True)), p)
            for p in summ["problems"]:
                d = detail.get((p["type"], json.dumps(p["sig"], sort_keys=True)), {})
                if p["type"] == "mismatch":
                    drift += p["count"]
                    vlib.log("DRIFT (iour %s): %d behaviours where driver events differ from the model: %s" %
                             (mode, p["count"], d.get("desc", "")[:400]))
                elif p["type"] == "hang":
                    what = p["sig"].get("what", "")
                    prop = "C05" if what == "cancelled-op-never-completes" else ("C02" if p["sig"].get("kind") != "blocking" else "C17")
                    if p["sig"].get("action") == "poolrun":
                        prop = "C17"
                    if prop == focus:
                        run.report(p["sig"], d.get("desc", ""), d.get("case"))
                    else:
                        vlib.log("NOTE: %s finding (reported by ./check %s): %s" % (prop, prop, d.get("desc", "")[:200]))
                elif p["type"] == "panic":
                    # a panic of the driver during a replayed schedule: belongs to whichever property is being checked
                    run.report(p["sig"], d.get("desc", ""), d.get("case"))
        run.note("drift_behaviours", drift)
        run.note("behaviours_replayed", ncases)
        run.add_traces(results["exact"][0]["cases"] + results["settle"][0]["cases"])
        run.note("hook_events_validated", results["exact"][0]["trace_events"] + results["settle"][0]["trace_events"])
        # 4. trace validation against the contract monitor
        allcases = [json.loads(l) for l in open(cases_path)]
        for mode, (summ, probs, tr) in results.items():
            viol, r = validate(tr)
            run.add_model("Trace_OpAbs/" + mode, r)
            tl = [json.loads(l) for l in open(tr)]
            for (line, kind, op) in viol:
                prop = KIND2PROP.get(kind, "C01")
                case, evs = case_of_line(tl, line)
                desc = "driver=io_uring %s: contract monitor: %s for %s at trace line %d; last events: %s" % (
                    mode, kind, op, line, [(e["ev"], e["op"], e["a"]) for e in evs[-8:]])
                rep = {"case": allcases[case] if case is not None and case < len(allcases) else None,
                       "events": evs[-40:]}
                if prop == focus:
                    run.report({"site": "iour", "monitor": kind}, desc, rep)
                else:
                    vlib.log("NOTE: %s finding (reported by ./check %s): %s" % (prop, prop, desc[:300]))
        # 5. negative control: move one free in front of the completion it waits for
        if not replay:
            tr = results["exact"][2]
            tl = [json.loads(l) for l in open(tr)]
            idx = None
            for i in range(len(tl) - 1):
                if tl[i]["ev"] == "cqe" and tl[i]["a"] == 0:
                    for j in range(i + 1, min(i + 6, len(tl))):
                        if tl[j]["ev"] == "free" and tl[j]["op"] == tl[i]["op"]:
                            idx = (i, j)
                            break
                if idx:
                    break
            if idx is None:
                raise vlib.ToolError("negative control: no completion followed by a free in the trace")
            i, j = idx
            bad = tl[:i] + [tl[j]] + tl[i:j] + tl[j + 1:]
            badp = os.path.join(tmp, "neg.ndjson")
            with open(badp, "w") as f:
                for o in bad[:i + 40]:
                    f.write(json.dumps(o) + "\n")
            v2, _ = validate(badp)
            if not any(k in ("free-while-os-holds", "completion-touches-freed-op") for (_, k, _) in v2):
                raise vlib.ToolError("negative control: a free moved before its completion was accepted")
            run.note("negative_control", "free moved before its final completion is rejected by the monitor")
        run.assumptions += ["the kernel is the environment: completions are caused by the harness (pipe writes, connects, gates)",
                            "sequentially consistent single driver thread plus pool threads; byte-level heap effects are not observed, only ownership events"]
    finally:
        shutil.rmtree(tmp, ignore_errors=True)


def run_all(run, tier, focus, replay=None):
    run_iour(run, tier, focus, replay)
