#!/usr/bin/env python3
"""keepround.py <round-dir> <results.json> -- store the confirmed deliveries of a seeding round under /verif/seeded/.
results.json: {"C10": {"1": {"id": "C10-3", "needs": "...", "checks": "..."}, ...}, ...}
Only deliveries whose confirm.log ends with CONFIRMED (or whose entry carries "confirm_note") are stored."""
import json, os, shutil, sys
rd, res = sys.argv[1], json.load(open(sys.argv[2]))
for prop, items in res.items():
    for n, it in items.items():
        src = os.path.join(rd, prop, "out", n)
        clog = os.path.join(src, "confirm.log")
        lines = open(clog).read().splitlines() if os.path.exists(clog) else []
        ok = bool(lines) and lines[-1].strip() == "CONFIRMED"
        if not ok and "confirm_note" not in it:
            print("skip (not confirmed)", prop, n); continue
        dst = os.path.join("/verif/seeded", it["id"]); os.makedirs(dst, exist_ok=True)
        for f in ("patch.diff", "README.md", "demo_cmd.sh"):
            if os.path.exists(os.path.join(src, f)):
                shutil.copy(os.path.join(src, f), dst)
        for root, _, files in os.walk(os.path.join(src, "demo")):
            for f in files:
                shutil.copy(os.path.join(root, f), os.path.join(dst, f))
                rel = os.path.relpath(os.path.join(root, f), os.path.join(src, "demo"))
                it.setdefault("demo_files", []).append(rel)
        keep = [l for l in lines if l.startswith(("demo_", "suite", "##", "CONFIRMED", "NOT-")) or "tests run" in l or "test result" in l]
        meta = {"id": it["id"], "property": prop, "round": 3, "needs_to_manifest": it["needs"],
                "demo_files": it.get("demo_files", []),
                "confirmed_by_lead": keep + ([it["confirm_note"]] if "confirm_note" in it else []),
                "checks_run": it["checks"]}
        json.dump(meta, open(os.path.join(dst, "meta.json"), "w"), indent=1)
        print("kept", it["id"])
