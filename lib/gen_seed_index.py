#!/usr/bin/env python3
"""Write seeded/INDEX.md from seeded/*/meta.json."""
import json, os, glob
rows = []
for d in sorted(glob.glob("/verif/seeded/C*-*")):
    m = json.load(open(os.path.join(d, "meta.json")))
    rows.append(m)
out = ["# Seeded changes kept (confirmed by the lead in a scratch worktree: compiles, existing tests pass - crate level and",
       "# the full 217-test workspace suite where recorded in meta.json -, demonstration fails with the change and passes without)", "",
       "| id | property | needs to manifest | checks |", "|---|---|---|---|"]
for m in rows:
    out.append("| %s | %s | %s | %s |" % (m["id"], m["property"], m["needs_to_manifest"].replace("|", "/"), (m.get("checks_run") or m.get("detection", "")).replace("|", "/")))
open("/verif/seeded/INDEX.md", "w").write("\n".join(out) + "\n")
print(len(rows), "seeds")
