"""C07 - managed buffer pool: exclusive ownership and conservation (compio-driver buffer_pool, managed ops,
compio-runtime stream adapter).

1. TLC checks the implementation-shaped model BufferPool (slot table, provided list, kernel selecting only from
   the provided list, adoption in set_result / push_multishot, handles, cancel / stream drop with queued
   results, proactor drop) for the provided-buffer ring with three kinds of sources and for the fallback pool:
   exactly one owner per buffer at any time, slot = None exactly while a BufferRef owns the buffer, the kernel
   only sees buffers nobody holds, no aliasing handles, conservation at quiescence, every buffer freed exactly
   once after the pool is gone, exhaustion is an enabled error action; liveness on the fair spec: a request that
   can be answered is answered, a cancelled request is reaped. Three controls switch one mechanism off
   (reset does not re-provide / take leaves the slot filled / a dropped op keeps its queued buffers) and must
   violate the invariant.
2. Gen_BufferPool (Eager variant, TLC -simulate seeded with VERIF_SEED) generates programs with the model state
   expected before every command; harness bin replay_bufpool replays them on the real Proactor (leg drv) and on
   compio-runtime's Submit / SubmitMultiManaged (leg rt), on io_uring + buffer ring and on the polling driver +
   fallback pool, over pipes, Unix / TCP / UDP / Unix-datagram sockets and files, in exact mode (state compared
   after every command: slot table, provided list read from ring memory + kernel head, handles, op states) and
   in free mode (completions left in flight across commands). A contract oracle on the real observation runs in
   both modes.
"""
import concurrent.futures as cf
import hashlib
import json
import os
import shutil
import time

import vlib

LEVEL = "model_checking"
TITLE = "Managed buffer pool: exclusive ownership and conservation"
TEXT = ("TLC explores all interleavings of managed reads, multishot streams, kernel buffer selection, completion "
        "processing, handle drops, cancellations, stream drops and proactor drop on a model of the slot table, the "
        "provided-buffer ring / fallback free list and the adoption of selected buffers, and checks that every buffer "
        "has exactly one owner at any time, the kernel only sees unowned buffers, all buffers are back at quiescence "
        "and exhaustion is an error, never a disabled system (liveness on the fair spec). Programs generated from the "
        "same model are replayed on the real Proactor and on compio-runtime's stream adapter on both drivers; after "
        "every command the real slot table, the real ring content (ring memory and kernel head) or free list and the "
        "handles are compared with the model, and an independent oracle checks disjointness and content stability of "
        "all live handles, that no held buffer is visible to the kernel, and that exactly N buffers are obtainable "
        "afterwards with the N+1st read reporting exhaustion as an error.")
NOTE = ("Bounds: model N in {1,2,4} buffers (request 3 is rounded to 4 by the code), 2-3 operation slots, <= 3 "
        "readable chunks per source, programs of 16 (quick) / 24 (thorough) commands, buffer length 4 and 8 bytes, "
        "one reader per source. Sources: pipe, Unix stream, TCP, UDP, Unix datagram, regular file (single reads). "
        "RecvFrom/RecvMsg multishot variants (header inside the buffer, >= 144 byte buffers) are not driven. "
        "Kernel behaviour built into the model was measured on this kernel (io_uring: ENOBUFS at the first issue "
        "attempt with an empty ring, 0-byte read(2) keeps its buffer, recv recycles it, datagram multishot retries "
        "at once); a different kernel shows up as DRIFT, not as a violation. Direct calls of the public "
        "BufferPool::take/reset are out of scope (used only as the oracle's control). Trusted: Debug output of "
        "BufferPool for the slot table, IORING_REGISTER_PBUF_STATUS for the kernel's ring head, hook events only to "
        "wait for completions.")
TECHNIQUE = "TLA+ model (TLC exhaustive + liveness) + spec-to-impl program replay on both drivers with contract oracle"
DESIGN_REF = "3/C07"

BIN = "replay_bufpool"
SRCS = {"pipe": ["pipe"], "stream": ["unix", "tcp"], "dgram": ["udp", "dgram"]}


def gen_cfg(tmp, kind, n, st, maxlen):
    path = os.path.join(tmp, "gen_%s_%d_%s.cfg" % (kind, n, st))
    with open(path, "w") as f:
        f.write('CONSTANTS\n  N = %d\n  Kind = "%s"\n  Ops = {"o1", "o2", "o3"}\n  FileOps = {"o3"}\n'
                '  SrcType = "%s"\n  MaxPend = 3\n  MaxH = %d\n  ResetProvides = TRUE\n  TakeEmptiesSlot = TRUE\n'
                '  DropReturnsQueued = TRUE\n  KeyRaceDev = TRUE\n  MaxLen = %d\n  AllowClose = %s\nSPECIFICATION GSpec\nINVARIANTS EmitInv\n'
                % (n, kind, st, n + 1, maxlen, "FALSE" if st == "dgram" else "TRUE"))
    return path


def generate(tmp, kind, n, st, num, maxlen, seed_off):
    cfg = gen_cfg(tmp, kind, n, st, maxlen)
    out = os.path.join(tmp, "prog_%s_%d_%s.jsonl" % (kind, n, st))
    seen = set()
    cnt = [0]
    with open(out, "w") as f:
        def sink(o):
            h = hashlib.sha1(json.dumps(o, sort_keys=True).encode()).hexdigest()
            if h in seen:
                return
            seen.add(h)
            cnt[0] += 1
            f.write(json.dumps(o) + "\n")
        g = vlib.tlc("Gen_BufferPool", cfg, timeout=1500, coverage=False, sink=sink, simulate=num,
                     depth=12 * maxlen, seed_=vlib.seed() + seed_off, jvm=["-Xmx2g"])
    if g.error or g.violated or cnt[0] == 0:
        raise vlib.ToolError("Gen_BufferPool %s/%d/%s: %s %s n=%d\n%s" % (kind, n, st, g.error, g.violated, cnt[0], g.out[-2000:]))
    return out, cnt[0]


def replay(path, leg, src, bl, free, tmp, timeout=1500):
    args = [path, "--leg", leg, "--src", src, "--bl", bl, "--scratch", tmp] + (["--free"] if free else [])
    rc, out, err = vlib.run_bin(BIN, args, timeout=timeout, check=False,
                                env={"HBP_WATCHDOG_MS": os.environ.get("HBP_WATCHDOG_MS", "20000")})
    lines = []
    for l in out.splitlines():
        try:
            o = json.loads(l)
            if isinstance(o, dict):
                lines.append(o)
        except ValueError:
            pass            # a line cut off by the death of the process
    summ = [l for l in lines if l.get("type") == "summary"]
    if not summ:
        # the process died inside the code under test (abort on heap corruption, segfault): that is data
        idx = max([l["i"] for l in lines if l.get("type") == "case"], default=None)
        if idx is None or rc == 0:
            raise vlib.ToolError("%s produced no summary (%s) rc=%s\n%s" % (BIN, " ".join(map(str, args)), rc, err[-2000:]))
        with open(path) as f:
            case = [json.loads(x) for x in f][idx]
        sig = {"what": "process-crash", "leg": leg, "kind": case.get("kind"), "mode": "free" if free else "exact"}
        crash = {"type": "panic", "sig": sig, "case": case, "step": 0,
                 "desc": "the process died (rc=%s) while replaying program %d: %s" % (rc, idx, err.strip()[-300:])}
        lines.append(crash)
        probs = {}
        for l in lines:
            if l.get("type") in ("contract", "panic", "mismatch", "hang") and "sig" in l:
                k = (l["type"], json.dumps(l["sig"], sort_keys=True))
                probs[k] = probs.get(k, 0) + 1
        summ = [{"type": "summary", "cases": idx, "steps": 0, "observations": 1, "aborted": True,
                 "problems": [{"type": t, "sig": json.loads(s_), "count": c} for (t, s_), c in probs.items()]}]
    details = {}
    for l in lines:
        if l.get("type") in ("contract", "panic", "mismatch", "hang") and "sig" in l:
            details.setdefault((l["type"], json.dumps(l["sig"], sort_keys=True)), l)
    return summ[0], details


def classify(run, summ, details, what, meta):
    drift = 0
    for p in summ["problems"]:
        d = details.get((p["type"], json.dumps(p["sig"], sort_keys=True)), {})
        if p["type"] == "mismatch":
            drift += p["count"]
            vlib.log("DRIFT (%s): %d programs where implementation and model differ but the contract holds: %s %s" %
                     (what, p["count"], p["sig"], d.get("desc", "")[:300]))
            continue
        rep = dict(meta)
        rep["case"] = d.get("case")
        desc = "%s [%s]: %s" % (p["type"], what, d.get("desc", ""))
        for _ in range(p["count"]):
            if run.report(p["sig"], desc, rep) == "violation":
                break
    return drift


def pmap(fn, items, workers):
    with cf.ThreadPoolExecutor(max_workers=workers) as ex:
        return list(ex.map(fn, items))


def model_check(run, tier):
    safety = ["ring", "ring_stream", "ring_dgram", "fallback", "ring1", "fallback1"]
    if tier == "thorough":
        safety += ["ring_thorough", "fallback_thorough"]
    live = ["ring_live", "fallback_live"]
    muts = ["mut_noreprovide", "mut_takekeepsslot", "mut_dropqueued"]

    def one(c):
        return c, vlib.tlc("BufferPool", "MC_BufferPool_%s.cfg" % c, workers=4 if c.endswith("thorough") else 2, timeout=6000,
                           coverage=(c in safety), jvm=["-Xmx3g"])
    order = sorted(safety + live + muts, key=lambda c: not c.endswith("thorough"))     # long ones first
    res = dict(pmap(one, order, 3))
    ring_only = {"KernelArm", "KernelCancel", "KernelNoBufs", "PushMultishot", "YieldQueued"}
    for c in safety + live:
        r = res[c]
        vlib.require_model_ok(r, "BufferPool/" + c)
        if c in safety:
            z = set(vlib.zero_actions(r))
            z -= {"ExhaustedAtSubmit", "KeyRefcountRace"} if "ring" in c else ring_only
            if c == "fallback1":
                z -= {"KeyRefcountRace"}            # no file operation in that configuration
            if z:
                raise vlib.ToolError("BufferPool/%s: actions never taken: %s" % (c, sorted(z)))
        run.add_model("BufferPool/" + c, r)
    for c in muts:
        r = res[c]
        if r.violated != "Safe":
            raise vlib.ToolError("control %s: the model with one mechanism switched off should violate Safe, got %s / %s" %
                                 (c, r.violated, r.error))
    run.note("model_controls_violate_invariant", muts)
    # the recorded deviation (KeyRefcountRace) is what breaks the strict invariant, and only it
    r = vlib.tlc("BufferPool", "MC_BufferPool_fallback_strict.cfg", workers=2, timeout=900, coverage=False)
    if r.violated != "SafeStrict":
        raise vlib.ToolError("strict control: the model with the recorded deviation should violate SafeStrict, got %s / %s" % (r.violated, r.error))
    r = vlib.tlc("BufferPool", "MC_BufferPool_fallback_fixed.cfg", workers=2, timeout=900, coverage=False)
    vlib.require_model_ok(r, "BufferPool/fallback_fixed (deviation switched off)")
    run.note("deviation_KeyRefcountRace", "strict invariant violated with it, holds without it")


def run(run, tier, replay_path):
    vlib.sany("BufferPool")
    vlib.sany("Gen_BufferPool")
    tmp = vlib.scratch("verif_c07_")
    try:
        if replay_path:
            obj = json.load(open(replay_path))["replay"]
            p = os.path.join(tmp, "one.jsonl")
            with open(p, "w") as f:
                f.write(json.dumps(obj["case"]) + "\n")
            vlib.cargo_build("hbp", [BIN])
            s, d = replay(p, obj.get("leg", "drv"), obj.get("src", "pipe"), obj.get("bl", 4), obj.get("free", False), tmp)
            classify(run, s, d, "replay", {k: obj.get(k) for k in ("leg", "src", "bl", "free")})
            run.add_traces(s["cases"])
            run.cov["states"] = run.cov["transitions"] = 1
            return
        t0 = time.time()
        # 1. model checking (the harness is built meanwhile)
        with cf.ThreadPoolExecutor(max_workers=1) as ex:
            build = ex.submit(vlib.cargo_build, "hbp", [BIN])
            model_check(run, tier)
            build.result()

        vlib.log("C07: model checking + build %.0fs" % (time.time() - t0))
        t0 = time.time()
        # 2. programs
        quick = tier == "quick"
        num = 20 if quick else 200
        maxlen = 16 if quick else 24
        combos = [("ring", 1, "pipe"), ("ring", 2, "pipe"), ("ring", 4, "pipe"), ("ring", 2, "stream"), ("ring", 4, "stream"),
                  ("ring", 1, "dgram"), ("ring", 2, "dgram"),
                  ("fallback", 1, "pipe"), ("fallback", 2, "pipe"), ("fallback", 4, "pipe"), ("fallback", 2, "dgram")]
        if not quick:
            combos += [("ring", 1, "stream"), ("ring", 4, "dgram"), ("fallback", 4, "dgram"), ("fallback", 2, "stream")]
        files = pmap(lambda a: (a[1], generate(tmp, a[1][0], a[1][1], a[1][2], num, maxlen, a[0])), list(enumerate(combos)), 4)
        nprog = sum(n for _, (_, n) in files)
        run.note("programs_generated", nprog)
        run.note("programs_exhaustive", False)
        with open(files[1][1][0]) as f:
            o = json.loads(f.readline())
            run.sample({"kind": o["kind"], "n": o["n"], "program": [(s["a"], s["o"] or s["h"], s["k"], s["r"]) for s in o["steps"]],
                        "expected_before_last_command": o["steps"][-1]["x"]})

        vlib.log("C07: %d programs generated %.0fs" % (nprog, time.time() - t0))
        t0 = time.time()
        # 3. replay on the real code
        jobs = []
        for (kind, n, st), (path, cnt) in files:
            srcs = SRCS[st] if kind == "ring" or st != "pipe" else ["pipe", "unix"]
            for src in srcs:
                for leg in ("drv", "rt"):
                    jobs.append((path, kind, leg, src, 4, False))
                    jobs.append((path, kind, leg, src, 8, True))
        results = pmap(lambda j: (j, replay(j[0], j[2], j[3], j[4], j[5], tmp)), jobs, 4)
        drift = 0
        per = {}
        bysrc = {}
        steps = 0
        obs = 0
        for (path, kind, leg, src, bl, free), (s, d) in results:
            what = "%s %s %s bl=%d %s" % (kind, leg, src, bl, "free" if free else "exact")
            drift += classify(run, s, d, what, {"leg": leg, "src": src, "bl": bl, "free": free})
            run.add_traces(s["cases"])
            steps += s["steps"]
            obs += s.get("observations", 0)
            k = "%s/%s/%s" % ("io_uring+ring" if kind == "ring" else "polling+fallback", leg, "free" if free else "exact")
            per[k] = per.get(k, 0) + s["cases"]
            bysrc[src] = bysrc.get(src, 0) + s["cases"]
            if s.get("aborted"):
                vlib.log("NOTE: replay run ended early (watchdog or death of the process): %s" % what)
        if obs == 0:
            raise vlib.ToolError("no observation of the real pool state succeeded: binding lost (Debug format of BufferPool changed?)")
        run.note("programs_replayed", per)
        run.note("programs_replayed_by_source", bysrc)
        run.note("commands_replayed", steps)
        run.note("pool_observations", obs)
        run.note("drift_programs", drift)

        vlib.log("C07: %d replay runs %.0fs" % (len(jobs), time.time() - t0))
        # 4. many recycles (u16 ring tail wraps at 65536) + conservation afterwards
        soak = os.path.join(tmp, "soak.jsonl")
        k = 70000 if quick else 200000
        with open(soak, "w") as f:
            for kind in ("ring", "fallback"):
                f.write(json.dumps({"kind": kind, "n": 2, "maxh": 3, "files": [], "final": {"st": {"o1": "idle"}},
                                    "steps": [{"a": "soak", "o": "o1", "h": 0, "k": k, "r": "ok", "b": 2, "x": {}}]}) + "\n")
        s, d = replay(soak, "drv", "pipe", 4, True, tmp, timeout=2400)
        classify(run, s, d, "soak %d recycles" % k, {"leg": "drv", "src": "pipe", "bl": 4, "free": True})
        run.add_traces(s["cases"])
        run.note("soak_recycles_per_pool_kind", k)

        # 4b. schedule-shaped programs (free mode): a completion is in flight when the op is cancelled / the
        #     stream is dropped / the proactor goes away
        def st(a, o="", h=0, k=0):
            return {"a": a, "o": o, "h": h, "k": k, "r": "ok", "b": 0, "x": {}}
        shaped = os.path.join(tmp, "shaped.jsonl")
        with open(shaped, "w") as f:
            for kind in ("ring", "fallback"):
                for n in (1, 2):
                    for multi in (1, 2):
                        for tail_ in (["release"], ["cancel"], ["cancel", "release"], ["next", "release"],
                                      ["feed", "cancel", "submit", "next"]):
                            steps = [st("submit", "o1", 0, multi), st("feed", "o1", 0, 2)]
                            for a in tail_:
                                steps.append(st(a, "o1" if a != "release" else "", 1 if a == "next" else 0,
                                                2 if a == "feed" else (multi if a == "submit" else 0)))
                            f.write(json.dumps({"kind": kind, "n": n, "maxh": n + 1, "files": [],
                                                "final": {"st": {"o1": "idle"}}, "steps": steps}) + "\n")
        for leg in ("drv", "rt"):
            for src in ("pipe", "tcp"):
                s, d = replay(shaped, leg, src, 4, True, tmp)
                classify(run, s, d, "in-flight completions %s %s" % (leg, src), {"leg": leg, "src": src, "bl": 4, "free": True})
                run.add_traces(s["cases"])
        run.note("shaped_in_flight_programs", 40 * 4)

        # 4c. steered interleaving for the recorded defect C07-key-refcount-race (polling driver): a thread-pool
        #     job is held at hook blocking.done until the proactor is gone; k=0: the user's key goes first, the
        #     pool thread then drops the last reference (deterministic: the op is freed off the driver thread);
        #     k=1: both drop at the same moment (non-atomic reference count: now and then the op is never freed)
        steer = os.path.join(tmp, "steer.jsonl")
        natt = 600 if quick else 3000
        with open(steer, "w") as f:
            for i in range(20 + natt):
                f.write(json.dumps({"kind": "fallback", "n": 2, "maxh": 3, "files": ["o3"], "final": {"st": {"o3": "idle"}}, "steps": [
                    st("feed", "o3", 0, 1), st("race_release", "o3", 0, 0 if i < 20 else 1)]}) + "\n")
        s, d = replay(steer, "drv", "pipe", 4, True, tmp)
        classify(run, s, d, "steered pool-thread key drop", {"leg": "drv", "src": "pipe", "bl": 4, "free": True})
        run.add_traces(s["cases"])
        run.note("steered_key_drop", {"attempts_simultaneous_drop": natt, "ops_freed_off_the_driver_thread": s.get("foreign_thread_frees"),
                                      "leaks_observed": sum(p["count"] for p in s["problems"] if p["sig"].get("holder") == "op-dropped-off-driver-thread")})

        # 5. negative controls (pointless once violations were found: they would only mask them with a tool error)
        if run.violations:
            return
        # (a) binding: corrupt one expected slot table per program, every program must be flagged
        ring2 = [p for (c, (p, n)) in files if c == ("ring", 2, "pipe")][0]
        bad = os.path.join(tmp, "neg.jsonl")
        nneg = 0
        with open(ring2) as f, open(bad, "w") as g:
            for line in f:
                o = json.loads(line)
                x = o["steps"][2]["x"]
                if not x["alive"]:
                    continue
                x["slot"][0] = 1 - x["slot"][0]
                g.write(json.dumps(o) + "\n")
                nneg += 1
                if nneg >= 25:
                    break
        s, _ = replay(bad, "drv", "pipe", 4, False, tmp)
        nm = sum(p["count"] for p in s["problems"] if p["type"] == "mismatch")
        if nneg == 0 or nm < nneg:
            raise vlib.ToolError("negative control: corrupted expectations were accepted (%d/%d noticed)" % (nm, nneg))
        # (b) oracle: the documented misuse (direct BufferPool::take of a buffer the kernel owns, then dropped)
        mis = os.path.join(tmp, "misuse.jsonl")
        with open(mis, "w") as f:
            for kind in ("ring", "fallback"):
                f.write(json.dumps({"kind": kind, "n": 2, "maxh": 3, "files": [], "final": {"st": {"o1": "idle"}}, "steps": [
                    {"a": "misuse_take", "o": "", "h": 1, "k": 0, "r": "ok", "b": 0, "x": {}},
                    {"a": "drop", "o": "", "h": 1, "k": 0, "r": "ok", "b": 0, "x": {}},
                    {"a": "feed", "o": "o1", "h": 0, "k": 1, "r": "ok", "b": 2, "x": {}}]}) + "\n")
        s, _ = replay(mis, "drv", "pipe", 4, True, tmp)
        got = {(p["sig"].get("kind"), p["sig"].get("what")) for p in s["problems"] if p["type"] == "contract"}
        need = {(k, w) for k in ("ring", "fallback") for w in ("os-sees-held-buffer", "provided-twice", "pool-shrunk")}
        if not need <= got:
            raise vlib.ToolError("negative control: the contract oracle missed %s on a deliberately double-owned buffer" %
                                 sorted(need - got))
        run.note("negative_controls", ["flipped expected slot rejected in %d/%d programs" % (nm, nneg),
                                       "direct take of a kernel-owned buffer flagged as os-sees-held-buffer / provided-twice / pool-shrunk"])
        run.assumptions += [
            "the kernel is the environment; its buffer selection is observed through the ring memory and IORING_REGISTER_PBUF_STATUS",
            "one reader per source, data written in multiples of the buffer length (datagrams: one buffer each)",
            "programs use the managed operations only, never BufferPool::take/reset directly",
        ]
    finally:
        shutil.rmtree(tmp, ignore_errors=True)
