"""C12 - blocking-style and poll-style compat adapters are lossless FIFO pipes
(compio-io compat::SyncStream / AsyncStream, buffer.rs Buffer, waker_array.rs).

1. TLC checks the implementation-shaped model CompatStream exhaustively (read half and write half
   separately, blocking-style and poll-style, all base capacities / limits of the tier): FIFO /
   exactly-once on both halves (also after a failed flush + retry), limits, the structural
   assertions of the code, the wake-up cover invariant; liveness (every parked entry point is
   eventually woken) on the fair spec; two model-level controls (the read side as it was before
   the repair a1c242c, OldReadLimit = TRUE, must violate the read limit; a variant waking only one
   waker slot must violate the wake property).
2. Gen_CompatStream prints behaviours: a path to every reachable (model state, incoming call) pair of the
   bounded model (VIEW trick, any depth) and every call sequence of a fixed length for the blocking-style
   adapter; thorough adds longer exhaustive sequences and seeded random walks.
3. hcompat/replay_compat drives the real SyncStream / AsyncStream over a scripted inner stream with
   counting wakers, compares every observation with the model (drift) and evaluates the contract
   on the real observation independently (violations).
"""
import concurrent.futures
import json
import os
import shutil

import vlib

LEVEL = "model_checking"
TITLE = "Blocking-style and poll-style adapters are lossless FIFO pipes"
TEXT = ("TLC explores a transcription of compio-io's SyncStream/AsyncStream (Buffer begin/len/capacity with compaction, "
        "growth and shrink, eof flag, write buffer with flush progress, the boxed in-flight futures and the per-entry-point "
        "waker slots) against an inner stream that answers every call with a short transfer, Pending, an error or EOF, and "
        "checks FIFO/exactly-once on both halves (also after a failed flush and retry), the size limits, and that every "
        "parked entry point is woken when the in-flight future completes (invariant and liveness on the fair spec). "
        "A path to every reachable (state, call) pair of the bounded model plus all short call sequences are replayed on the "
        "real SyncStream and AsyncStream over a scripted inner stream with counting wakers; every step is compared with the "
        "model and judged by a contract oracle that does not use the model.")
NOTE = ("Bounds: base capacity 1..3, max_buffer_size 2..4, caller sizes 0..3, inner transfers 1..3, <= 5-7 source/accepted "
        "bytes for the exhaustive runs (quick: poll-style adapter on the configurations (1,2),(2,3),(3,4) only). Caller "
        "discipline assumed: consume only what fill_buf showed, no write/flush after a successful close, futures of the "
        "blocking-style adapter are awaited to completion (dropping a pending fill_read_buf/flush_write_buf future loses the "
        "buffer by design). The inner stream's flush always succeeds; Vec growth follows std's amortised policy (modelled; a "
        "different std would show up as drift, not as an alarm). Aliasing/UB of the extended lifetimes in async_stream.rs "
        "is not observable here.")
TECHNIQUE = "TLA+ model (TLC exhaustive + liveness) + spec-to-impl behaviour replay with contract oracle"
DESIGN_REF = "3/C12"

PKG = "hcompat"
BIN = "replay_compat"

R_ACTIONS = {"Read", "FillBuf", "Consume", "FillReadBuf", "PollRd", "RComplete"}
W_ACTIONS = {"Write", "Flush", "FlushWriteBuf", "PollWrite", "PollFlush", "PollClose", "WComplete"}
NEED_STEPS = {
    "r": {"read", "fill_buf", "consume", "fill_read_buf", "pread", "puninit", "pfill", "complete"},
    "w": {"write", "flush", "flush_write_buf", "pwrite", "pflush", "pclose", "complete"},
}
NEED_KINDS = {"r": {"ok", "wb", "pending", "err", "oom", "wake"}, "w": {"ok", "wb", "pending", "err", "zero", "wake"}}


def replay_file(path):
    rc, out, err = vlib.run_bin(BIN, [path], timeout=1500)
    lines = vlib.jsonl(out)
    summary = [l for l in lines if l.get("type") == "summary"]
    if not summary:
        raise vlib.ToolError("%s produced no summary\n%s" % (BIN, err[-2000:]))
    summary = summary[0]
    details = {}
    for l in lines:
        if l.get("type") in ("contract", "panic", "mismatch", "hang"):
            details.setdefault((l["type"], json.dumps(l["sig"], sort_keys=True)), l)
    return summary, details


def vlib_run_sabotaged(path):
    rc, out, err = vlib.run_bin(BIN, [path], timeout=600, env={"VERIF_C12_SABOTAGE": "1"})
    lines = vlib.jsonl(out)
    summary = [l for l in lines if l.get("type") == "summary"]
    if not summary:
        raise vlib.ToolError("%s (sabotaged) produced no summary\n%s" % (BIN, err[-2000:]))
    return summary[0], None


def classify(run, summary, details, what):
    """contract / panic / hang problems are property violations (unless listed as known finding);
    mismatches without a contract violation are spec drift: reported, never an alarm."""
    drift = 0
    for p in summary["problems"]:
        key = (p["type"], json.dumps(p["sig"], sort_keys=True))
        d = details.get(key, {})
        if p["type"] == "mismatch":
            drift += p["count"]
            vlib.log("DRIFT (%s): %d steps where implementation and model differ but the contract holds: %s" %
                     (what, p["count"], d.get("desc", "")[:400]))
            continue
        for _ in range(p["count"]):
            if run.report(p["sig"], d.get("desc", ""), d.get("case")) == "violation":
                break
    return drift


JVM = ["-XX:-UseParallelGC", "-XX:+UseSerialGC", "-Xmx4g"]   # many GC threads only hurt on a shared machine


def _mc(cfg, coverage=True, timeout=1700, extra=None):
    return vlib.tlc("CompatStream", cfg, workers=2, timeout=timeout, coverage=coverage, jvm=JVM, extra=extra)


def _gen_tlc(cfg, outpath, simulate=None, depth=None, seed_=None, timeout=1700):
    """Run Gen_CompatStream and stream its REPLAY lines straight into `outpath` (one JSON object per line).
    Same command line as vlib.tlc; the only difference is that the printed behaviours are not parsed in
    python (tens of MB per run) - the harness parses them and reports the statistics."""
    import re
    import subprocess
    import tempfile
    import time
    meta = tempfile.mkdtemp(prefix="tlcmeta_")
    cmd = ["timeout", str(timeout), "java", "-XX:+UseParallelGC", "-Xss64m", "-Xmx6g"] + JVM + [
        "-cp", vlib._classpath(), "tlc2.TLC", "-metadir", meta, "-cleanup", "-noGenerateSpecTE", "-config", cfg,
        "-deadlock"]
    if simulate is not None:
        cmd += ["-simulate", "num=%d" % simulate, "-depth", str(depth), "-seed",
                str(seed_ if seed_ is not None else vlib.seed()), "-workers", "1"]
    else:
        cmd += ["-workers", "2"]
    cmd += ["Gen_CompatStream.tla"]
    r = vlib.TlcResult()
    t0 = time.time()
    keep = []
    n = 0
    mk = '<<"REPLAY", "'
    try:
        with open(outpath, "w") as out:
            p = subprocess.Popen(cmd, cwd=vlib.SPEC, stdout=subprocess.PIPE, stderr=subprocess.STDOUT, text=True,
                                 errors="replace", bufsize=1 << 20)
            for line in p.stdout:
                if line.startswith(mk):
                    body = line.rstrip()
                    if not body.endswith('">>'):
                        raise vlib.ToolError("unexpected REPLAY line: %s" % body[:200])
                    out.write(body[len(mk):-3].replace('\\"', '"').replace("\\\\", "\\"))
                    out.write("\n")
                    n += 1
                elif len(keep) < 20000:
                    keep.append(line)
            p.wait()
        r.rc = p.returncode
    finally:
        shutil.rmtree(meta, ignore_errors=True)
    r.wall = time.time() - t0
    r.out = "".join(keep)
    for line in keep:
        m = vlib._RE_STATES.search(line)
        if m:
            r.generated, r.distinct = int(m.group(1)), int(m.group(2))
        m = vlib._RE_DEPTH.search(line)
        if m:
            r.depth = int(m.group(1))
        m = vlib._RE_INV.search(line)
        if m and r.violated is None:
            r.violated = m.group(1)
    if r.rc == 124:
        r.error = "timeout after %ss" % timeout
    elif r.violated is None and "Error:" in r.out and "No error has been found" not in r.out:
        m = re.search(r"Error: (.*)", r.out)
        r.error = m.group(1) if m else "unknown TLC error"
    elif r.violated is None and r.rc != 0:
        r.error = "tlc exit code %s" % r.rc
    r.printed_n = n
    return r


class Gen:
    """one generation run of Gen_CompatStream written to a scratch jsonl"""

    def __init__(self, tmp, name, cfg, simulate=None, depth=None, seed_=None):
        self.name, self.cfg, self.simulate, self.depth, self.seed = name, cfg, simulate, depth, seed_
        self.path = os.path.join(tmp, name + ".jsonl")
        self.n = 0

    def go(self):
        self.r = _gen_tlc(self.cfg, self.path, self.simulate, self.depth, self.seed)
        self.n = self.r.printed_n
        return self


def _t(run, what):
    import time
    vlib.log("  [%5.1fs] %s" % (time.time() - run.t0, what))


def run(run, tier, replay):
    tmp = vlib.scratch()
    pools = []
    try:
        if replay:
            vlib.sany("CompatStream")
            vlib.sany("Gen_CompatStream")
            obj = json.load(open(replay))
            p = os.path.join(tmp, "one.jsonl")
            with open(p, "w") as f:
                f.write(json.dumps(obj["replay"]) + "\n")
            vlib.cargo_build(PKG, [BIN])
            s, d = replay_file(p)
            classify(run, s, d, "replay")
            run.add_traces(s["cases"])
            run.cov["states"] = run.cov["transitions"] = 1
            run.sample(obj["replay"])
            return
        q = tier == "quick"
        suf = "" if q else "_thorough"
        pool = concurrent.futures.ThreadPoolExecutor(max_workers=3)
        # cargo may have to wait for the lock on the shared target directory: start it right away, on its own thread
        bpool = concurrent.futures.ThreadPoolExecutor(max_workers=1)
        pools += [pool, bpool]
        build = bpool.submit(vlib.cargo_build, PKG, [BIN])
        # ---- 1. model checking and 2. generation, in parallel (3 JVMs with 2 workers each)
        # quick: one exhaustive run per half = invariants + liveness on the fair spec;
        # thorough: invariants on larger constants and liveness on medium ones
        sany = [pool.submit(vlib.sany, m) for m in ("CompatStream", "Gen_CompatStream")]
        for f in sany:
            f.result()          # a module that does not parse fails here (exit 2) before anything else runs
        jobs = [("r", "MC_CompatStream_r%s.cfg" % suf), ("w", "MC_CompatStream_w%s.cfg" % suf)]
        if not q:
            jobs += [("live_r", "MC_CompatStream_live_r_thorough.cfg"), ("live_w", "MC_CompatStream_live_w_thorough.cfg")]
        gens = [Gen(tmp, "cover_r", "Gen_CompatStream_cover_r%s.cfg" % suf),
                Gen(tmp, "cover_w", "Gen_CompatStream_cover_w%s.cfg" % suf)]
        if q:
            gens += [Gen(tmp, "seq3_r", "Gen_CompatStream_seq3_r.cfg"),
                     Gen(tmp, "seq3_w", "Gen_CompatStream_seq3_w.cfg")]
        else:
            gens += [Gen(tmp, "seq_r", "Gen_CompatStream_seq_r.cfg"),
                     Gen(tmp, "seq_w", "Gen_CompatStream_seq_w.cfg"),
                     Gen(tmp, "seqa_r", "Gen_CompatStream_seqa_r.cfg"),
                     Gen(tmp, "seqa_w", "Gen_CompatStream_seqa_w.cfg"),
                     Gen(tmp, "sim_r", "Gen_CompatStream_sim_r.cfg", simulate=10000, depth=9),
                     Gen(tmp, "sim_w", "Gen_CompatStream_sim_w.cfg", simulate=10000, depth=9),
                     Gen(tmp, "sim2_r", "Gen_CompatStream_sim_r.cfg", simulate=10000, depth=9, seed_=vlib.seed() + 7919),
                     Gen(tmp, "sim2_w", "Gen_CompatStream_sim_w.cfg", simulate=10000, depth=9, seed_=vlib.seed() + 7919)]
        gfut = [pool.submit(g.go) for g in gens[:2]]
        mc = {name: pool.submit(_mc, cfg) for name, cfg in jobs}
        gfut += [pool.submit(g.go) for g in gens[2:]]
        ctl = pool.submit(_mc, "MC_CompatStream_controls.cfg", False, 600, ["-continue"])

        _t(run, "sany done, TLC runs submitted")
        for name, cfg in jobs:
            r = mc[name].result()
            _t(run, "model %s done (%d states, %.0fs)" % (cfg, r.distinct, r.wall))
            side = name[-1]
            live = q or name.startswith("live")
            label = "CompatStream/%s%s" % (cfg, " (FairSpec, PROPERTY Woken)" if live else "")
            vlib.require_model_ok(r, label)
            own = R_ACTIONS if side == "r" else W_ACTIONS
            z = [a for a in own if r.coverage.get(a, (0, 0))[1] == 0]
            if z or not r.coverage:
                raise vlib.ToolError("%s: vacuous, actions never taken: %s" % (label, z))
            if live and "temporal properties" not in r.out.lower():
                raise vlib.ToolError("%s: TLC did not check the temporal property" % label)
            run.add_model(label, r)
        # model-level controls (one run, -continue): with the pre-repair read side (OldReadLimit = TRUE) the read
        # limit must fail, and a variant that wakes only one waker slot must violate Woken
        r = ctl.result()
        _t(run, "controls done (%.0fs)" % r.wall)
        if "Invariant ReadLimitStrict is violated" not in r.out:
            raise vlib.ToolError("strict control: the model was expected to violate ReadLimitStrict, got %s %s\n%s"
                                 % (r.violated, r.error, r.out[-1500:]))
        if "Temporal property Woken was violated" not in r.out and "Temporal properties were violated" not in r.out:
            raise vlib.ToolError("wake control: a model that wakes only one waker slot was expected to violate Woken, "
                                 "got %s %s\n%s" % (r.violated, r.error, r.out[-1500:]))
        if "Invariant ReadFifo is violated" in r.out:
            raise vlib.ToolError("controls: ReadFifo violated")

        # ---- 3. replay
        build.result()
        _t(run, "harness built")
        total_drift = 0
        seen_steps = {"r": set(), "w": set()}
        seen_kinds = {"r": set(), "w": set()}
        for g, f in zip(gens, gfut):
            f.result()
            _t(run, "generation %s done (%d behaviours, %.0fs)" % (g.name, g.n, g.r.wall))
            if g.r.error or g.r.violated:
                raise vlib.ToolError("Gen_CompatStream/%s: %s %s\n%s" % (g.cfg, g.r.error, g.r.violated, g.r.out[-2500:]))
            if g.n == 0:
                raise vlib.ToolError("Gen_CompatStream/%s printed no behaviours" % g.cfg)
            side = g.name[-1]
            if g.name.startswith("cover"):
                # the cover run explores the whole bounded model with all invariants on
                run.add_model("Gen_CompatStream/%s (invariants + one path per state)" % g.cfg, g.r)
            s, d = replay_file(g.path)
            if s.get("partial"):
                vlib.log("replay of %s stopped by the watchdog" % g.name)
            elif s["cases"] != g.n:
                raise vlib.ToolError("%s: %d behaviours generated, %d replayed" % (g.name, g.n, s["cases"]))
            else:
                seen_steps[side] |= {k.split(":")[1] for k in s["last_steps"]}
                seen_kinds[side] |= set(s["kinds"])
                run.note(g.name + "_behaviours", g.n)
                run.note(g.name + "_max_len", s["max_len"])
                run.note(g.name + "_last_steps", s["last_steps"])
                if g.name.startswith("cover"):
                    run.sample(s["longest"], limit=4)
            total_drift += classify(run, s, d, g.name)
            _t(run, "replay %s done" % g.name)
            run.add_traces(s["cases"])
            run.note(g.name + "_steps_replayed", s["steps"])
        for side in ("r", "w"):
            miss = (NEED_STEPS[side] - seen_steps[side]) | (NEED_KINDS[side] - seen_kinds[side])
            if miss:
                raise vlib.ToolError("generated behaviours never end in: %s (%s half)" % (sorted(miss), side))

        # ---- 4. negative control: flip one expectation per behaviour and demand that the replay notices
        for g in gens[:2]:
            bad = os.path.join(tmp, g.name + "_neg.jsonl")
            stride = max(1, g.n // 60)
            picked = 0
            with open(g.path) as f, open(bad, "w") as g2:
                for i, line in enumerate(f):
                    if i % stride or picked >= 60:
                        continue
                    o = json.loads(line)
                    o["steps"][-1]["x"]["n"] += 1
                    g2.write(json.dumps(o) + "\n")
                    picked += 1
            sneg, _ = replay_file(bad)
            nm = sum(p["count"] for p in sneg["problems"] if p["type"] == "mismatch")
            if nm < picked:
                raise vlib.ToolError("negative control: corrupted expectations were accepted (%d/%d noticed)" % (nm, picked))
            # and one for the contract oracle: the scripted stream misreports one byte (the adapter is fine, the
            # observation is not); the oracle alone must object
            sneg, _ = vlib_run_sabotaged(bad)
            nc = sum(p["count"] for p in sneg["problems"] if p["type"] == "contract" and
                     p["sig"].get("clause") in ("fifo_out", "fifo_in", "loss"))
            if nc == 0:
                raise vlib.ToolError("negative control: the contract oracle accepted a falsified observation")
        _t(run, "negative controls done")
        run.note("drift_steps", total_drift)
        run.note("exhaustive", True)     # the cover runs enumerate the whole bounded model in both tiers
        run.assumptions += [
            "adapter behaviour is independent of the concrete byte values (bytes are numbered 1,2,3,...)",
            "the caller consumes only what fill_buf showed and does not write or flush after a successful close",
            "a different entry point = a different task (one waker per entry point); two tasks in the same entry point "
            "share one slot by design of futures-io",
        ]
    finally:
        for p_ in pools:
            p_.shutdown(wait=True, cancel_futures=True)     # never leave a TLC run behind, also on errors
        shutil.rmtree(tmp, ignore_errors=True)
