"""C03 - a wake-up from any thread is never lost."""
import json
import os
import shutil

import vlib
from checks import x03

LEVEL = "model_checking"
TITLE = "A wake-up from any thread is never lost"
TEXT = ("Wakeup.tla models the cross-thread wake path one action per segment between two hook sites of the real code "
        "(AwakeFlag fetch_or/reset/set, eventfd write and clear, notifier arming, Remote::schedule reserve/push/retry, "
        "drain_sync, block_on loop and an external event loop doing flush / wait on the driver fd / poll_with(0)); TLC checks "
        "that the runtime is never parked while a wake is outstanding and, under fairness, that every wake is followed by a "
        "poll of its target. TLC-generated interleavings are then replayed on a real Runtime with real waking threads by a "
        "schedule controller that parks each thread at the hook sites; every turn must arrive at the site the model predicts, "
        "and after each schedule every condition set before a wake() must be observed by a poll of its target. The clause "
        "'driven by an external event loop that waits on the driver's descriptor' is decided on compio-compat itself: "
        "CompatLoop.tla (EXTENDS Wakeup: the steps of RuntimeCompat::drive over the tokio and async-io adapters, I/O "
        "completions, timers and thread-pool completions as further wake sources) is checked the same way, its schedules "
        "are steered through the real RuntimeCompat on real tokio / async-io hosts, and a free-running leg samples the rest; "
        "a host left asleep with a woken target or a ready completion is the violation.")
NOTE = ("Bounds: 2 waking threads, targets main future and <= 2 spawned tasks, cross-thread queue capacity 1 (full-queue path "
        "exercised), both drivers, block_on and external-loop mode, task polls that overflow a 2-entry submission queue (push_raw draining the CQ inside a poll). Sequentially consistent model: reorderings allowed by the "
        "chosen atomics orderings are NOT explored (needs a memory-model checker). Races inside a single hook-free segment are "
        "not steered. Lost wake-up on real code = targets not polled within 4 s after all wakers returned. compio-compat "
        "leg: <= 2 waking threads, 1 task, <= 2 reads, 2 timers, 3 thread-pool jobs per program, tokio (current-thread, "
        "multi-thread in the free-running leg) and async-io hosts, both drivers; tokio's and async-io's reactors are "
        "environment (edge-triggered readiness cache / level-triggered wait, confirmed by zero drift); lost wake-up = "
        "execute() does not return within 20 s after everything the program waits for has happened.")
TECHNIQUE = "TLA+ models (TLC safety + liveness + controls), schedule-controller replay of TLC interleavings on real threads, seeded stress"
DESIGN_REF = "3/C03"

MC_QUICK = ["mt", "tt", "mm", "mt_poll", "ext_mt", "ext_mt_poll", "mt_ov"]
MC_THOROUGH = MC_QUICK + ["t12", "t12_poll", "ext_t12", "tt_ov"]
CONTROLS = [("ext_old", "NeverStuck"), ("t12_old", "NeverStuck")]
GEN_QUICK = [("mt", 40), ("tt", 30), ("mm", 30), ("t12", 60), ("mt_late", 40), ("mm_late", 30), ("mt_poll", 30),
             ("t12_poll", 40), ("mt_poll_late", 30), ("ext_mm", 30), ("ext_mt", 40), ("ext_mt_poll", 30), ("mt_ov", 30), ("tt_ov", 30), ("mt_ovw", 40), ("tt_ovw", 60)]


def run(run, tier, replay):
    if replay and x03.is_compat_replay(replay):
        x03.compat_leg(run, tier, replay, prefix="compat_")
        return
    _wake_leg(run, tier, replay)
    if not replay:
        # the external-event-loop clause on compio-compat itself (model configurations of CompatLoop, steered replay
        # on the real RuntimeCompat, free-running leg); shared with ./check X03
        x03.compat_leg(run, tier, None, prefix="compat_")


def _wake_leg(run, tier, replay):
    for m in ("Wakeup", "MC_Wakeup", "Gen_Wakeup"):
        vlib.sany(m)
    tmp = vlib.scratch()
    try:
        cases = os.path.join(tmp, "cases.jsonl")
        n = 0
        if replay:
            obj = json.load(open(replay))
            with open(cases, "w") as f:
                f.write(json.dumps(obj["replay"]) + "\n")
            n = 1
            run.cov["states"] = run.cov["transitions"] = 1
        else:
            for c in (MC_QUICK if tier == "quick" else MC_THOROUGH):
                r = vlib.tlc("MC_Wakeup", "MC_Wakeup_%s.cfg" % c, timeout=3000)
                vlib.require_model_ok(r, "Wakeup/" + c)
                run.add_model("Wakeup/" + c, r)
            for cfg, expect in CONTROLS:
                r = vlib.tlc("MC_Wakeup", "MC_Wakeup_%s.cfg" % cfg, timeout=900, coverage=False)
                if r.violated != expect:
                    raise vlib.ToolError("control %s should violate %s, got %s / %s" % (cfg, expect, r.violated, r.error))
                run.note("control_" + cfg, "violates %s as expected (repaired defect switched back on)" % expect)
            mult = 1 if tier == "quick" else 12
            with open(cases, "w") as f:
                for gi, (c, num) in enumerate(GEN_QUICK):
                    def sink(o):
                        nonlocal n
                        n += 1
                        if n % 120 == 1:
                            run.sample({"driver": o["driver"], "mode": o["mode"], "targets": o["targets"],
                                        "turns": [(s["role"], s["site"]) for s in o["steps"]][:40]}, limit=3)
                        f.write(json.dumps(o) + "\n")
                    g = vlib.tlc("Gen_Wakeup", "Gen_Wakeup_%s.cfg" % c, timeout=1500, coverage=False, sink=sink,
                                 simulate=num * mult, depth=110, seed_=vlib.seed() * 100 + gi)
                    if g.error or g.violated:
                        raise vlib.ToolError("Gen_Wakeup/%s: %s %s\n%s" % (c, g.error, g.violated, g.out[-2000:]))
            if n == 0:
                raise vlib.ToolError("no schedules generated")
        vlib.cargo_build("hdrv", ["wake_replay"])
        rc, out, err = vlib.run_bin("wake_replay", [cases], timeout=3000)
        lines = vlib.jsonl(out)
        summ = [l for l in lines if l.get("type") == "summary"]
        if not summ:
            raise vlib.ToolError("wake_replay: no summary\n" + err[-2000:])
        summ = summ[0]
        detail = {}
        for l in lines:
            if l.get("type") in ("hang", "mismatch", "panic"):
                detail.setdefault((l["type"], json.dumps(l["sig"], sort_keys=True)), l)
        drift = 0
        for p in summ["problems"]:
            d = detail.get((p["type"], json.dumps(p["sig"], sort_keys=True)), {})
            if p["type"] == "mismatch":
                drift += p["count"]
                vlib.log("DRIFT: %d schedules where a thread arrived at a hook site the model did not predict: %s" %
                         (p["count"], d.get("desc", "")[:300]))
            else:
                for _ in range(p["count"]):
                    if run.report(p["sig"], d.get("desc", ""), d.get("case")) == "violation":
                        break
        run.note("drift_schedules", drift)
        run.note("schedules_replayed", summ["cases"])
        run.note("turns_granted", summ["steps"])
        run.add_traces(summ["cases"])
        if not replay:
            # negative controls: (1) a schedule with a wrong site must be noticed as divergence;
            # (2) a waker that sets its condition but never calls wake() must be reported as a lost wake-up
            first = json.loads(open(cases).readline())
            bad = json.loads(json.dumps(first))
            k = min(3, len(bad["steps"]) - 1)
            bad["steps"][k]["site"] = "notify.clear" if bad["steps"][k]["site"] != "notify.clear" else "awake.set"
            negp = os.path.join(tmp, "neg.jsonl")
            with open(negp, "w") as f:
                f.write(json.dumps(bad) + "\n")
            rc, out, err = vlib.run_bin("wake_replay", [negp], timeout=300)
            s2 = [l for l in vlib.jsonl(out) if l.get("type") == "summary"][0]
            if not any(p["type"] == "mismatch" for p in s2["problems"]):
                raise vlib.ToolError("negative control 1: a schedule with a wrong hook site was accepted")
            with open(negp, "w") as f:
                f.write(json.dumps(first) + "\n")
            rc, out, err = vlib.run_bin("wake_replay", [negp], timeout=300, env={"VERIF_NEG_SKIP_WAKE": "1"})
            s3 = [l for l in vlib.jsonl(out) if l.get("type") == "summary"][0]
            if not any(p["type"] == "hang" for p in s3["problems"]):
                raise vlib.ToolError("negative control 2: a waker that never wakes was not reported as a lost wake-up")
            run.note("negative_controls", "wrong hook site -> divergence; condition set without wake() -> lost wake-up reported")
        run.assumptions += ["sequentially consistent atomics", "the kernel posts one NOTIFY completion per eventfd write while the multishot poll is armed"]
    finally:
        shutil.rmtree(tmp, ignore_errors=True)
