"""X01 - signal delivery (compio-signal, unix): extension check, not listed in MANIFEST.json.

Specification (spec/):
  HalfLock.tla    the half-lock of compio-signal/src/unix/half_lock.rs, one action per atomic operation
  Signal.tla      register / unregister / AsyncFlag poll / signal_handler on top of that lock, the slab keys,
                  sigaction dispositions; handlers run ON TOP of a thread (that thread is suspended)
  SigReentry.tla  what the handler does to the run queue of the runtime thread it interrupts
  Gen_Signal.tla  behaviour generator (one replay per coarse transition), Trace_HalfLock.tla trace spec

Binding (extra/harness/hx01):
  replay_signal       Gen_Signal behaviours on the real crate with real signals, instrumented wakers that can
                      park inside the handler (= inside the read section of the half-lock)
  replay_signal_rt    Gen_Signal (AutoPoll) behaviours on two real compio runtimes (local and remote wake path)
  record_halflock     seeded concurrent histories of the real half_lock.rs, validated by TLC (Trace_HalfLock)
  stress_signal       free-running signal storm into a busy runtime, contract oracle only
"""
import concurrent.futures
import json
import os
import re
import shutil
import subprocess
import tempfile
import time

import vlib
import xlib

LEVEL = "model_checking"
TITLE = "Signal delivery: every registered listener of a delivered signal is woken, only those, race-free"
STATEMENT = (
    "Whenever the process receives a signal for which compio_signal::unix::signal(sig) listeners are registered, "
    "every listener of that signal whose registration completed before the handler was invoked and that is not "
    "dropped meanwhile is notified by that handler invocation and its future completes with Ok(()) at its next "
    "poll, exactly once, on whichever runtime (thread) it lives and on whichever thread the kernel runs the "
    "handler; a listener of another signal is never woken or completed; a listener never completes without its "
    "signal; each registered waker is woken at most once per poll that returned Pending. Registration and drop "
    "may happen on any thread at any time, also while handlers run: a handler never reads a listener table that "
    "has been freed (half-lock: a writer does not free the old table before every handler that may hold it has "
    "left, handlers never wait), the table contains exactly the registered listeners between critical sections, "
    "while a listener is registered its signal does not have the default disposition (it would kill the process) "
    "and after the last listener of a signal is gone the default disposition is restored; every register / "
    "unregister call returns once the handlers that were inside have returned; a failed registration leaves "
    "nothing behind; delivering a signal never damages the runtime it interrupts. Quantified over every "
    "interleaving of the atomic steps of 2 registering/dropping threads and 1-2 handler invocations on any thread "
    "(including on top of a thread inside register/unregister), every layout of 1-3 listeners over 2 signals and 2 "
    "threads, every order of poll / drop / raise up to 7-8 steps, handlers parked inside the read section. "
    "Anchors: compio-signal/src/unix/mod.rs (register, unregister, signal_handler, SignalListener), "
    "compio-signal/src/unix/half_lock.rs (read, write, store, write_barrier), synchrony async_flag (flag + "
    "AtomicWaker), compio-executor task/mod.rs view / task/local.rs Local::schedule / queue.rs make_hot "
    "(the wake path taken in signal context), compio-runtime block_on."
)
TEXT = ("TLC checks the half-lock protocol (no use after free, wait-free readers, writer termination), the signal "
        "layer on top of it (delivery to every registered listener, no cross-signal wake, dispositions, table "
        "contents, liveness of calls, handlers and woken listeners) and the run-queue re-entrancy of the wake in "
        "signal context, each with control mutations that must violate. Every coarse transition of the model is "
        "replayed with real signals on the real crate (handlers parked inside the read section while other threads "
        "register and drop) and on real compio runtimes; concurrent histories of the real half_lock.rs are validated "
        "by TLC; a signal storm into a busy runtime is checked with the contract oracle.")
NOTE = ("Bounds: 2 threads + 1 signal-only thread, <= 3 listeners, 2 catchable signals + SIGKILL, <= 2-3 handler "
        "invocations, one handler per thread at a time (no nesting), behaviours <= 7 (quick) / 8 steps. Sequentially "
        "consistent atomics (the code uses SeqCst throughout). AtomicWaker (futures-util) and std Mutex are trusted "
        "as atomic. While a call is blocked in write_barrier the replay only releases handlers (a handler invoked "
        "then would race with the writer reaching its spin loop, which cannot be timed from outside); that window "
        "is covered by the exhaustive model and by the recorded half-lock histories. Windows not covered.")
TECHNIQUE = "TLA+ models (TLC exhaustive, liveness, control mutations) + behaviour replay with real signals + trace validation"
DESIGN_REF = "extension/X01"

PKG = "hx01"
BINS = ["replay_signal", "replay_signal_rt", "record_halflock", "stress_signal"]
JVM = ["-XX:+UseSerialGC", "-XX:-UseParallelGC"]
HL_CTL = {"nobarrier", "oldslot", "newslot", "loadfirst"}
SIG_CTL = {"nofilter", "firstonly", "dflalways", "nobarrier", "nodfl"}


def _t(run, what):
    vlib.log("  [%5.1fs] %s" % (time.time() - run.t0, what))


def gen_tlc(module, cfg, outpath, timeout=1700, workers=2, simulate=None, depth=None):
    """Run a generator spec and stream its REPLAY lines straight into `outpath` (one JSON object per line);
    same command line as vlib.tlc, but the behaviours are not parsed in python."""
    meta = tempfile.mkdtemp(prefix="tlcmeta_")
    cmd = ["timeout", str(timeout), "java", "-Xss64m", "-Xmx6g", "-Djava.io.tmpdir=" + meta] + JVM + [
        "-cp", vlib._classpath(), "tlc2.TLC", "-metadir", meta, "-cleanup", "-noGenerateSpecTE", "-config", cfg,
        "-deadlock"]
    if simulate is not None:
        cmd += ["-simulate", "num=%d" % simulate, "-depth", str(depth), "-seed", str(vlib.seed()), "-workers", "1"]
    else:
        cmd += ["-workers", str(workers)]
    cmd += [module + ".tla"]
    r = vlib.TlcResult()
    t0 = time.time()
    keep = []
    n = 0
    mk = '<<"REPLAY", "'
    try:
        with open(outpath, "w") as out:
            p = subprocess.Popen(cmd, cwd=vlib.SPEC, stdout=subprocess.PIPE, stderr=subprocess.STDOUT, text=True,
                                 errors="replace", bufsize=1 << 20)
            for line in p.stdout:
                if line.startswith(mk):
                    body = line.rstrip()
                    if not body.endswith('">>'):
                        raise vlib.ToolError("unexpected REPLAY line: %s" % body[:200])
                    out.write(body[len(mk):-3].replace('\\"', '"').replace("\\\\", "\\"))
                    out.write("\n")
                    n += 1
                elif len(keep) < 20000:
                    keep.append(line)
            p.wait()
        r.rc = p.returncode
    finally:
        shutil.rmtree(meta, ignore_errors=True)
    r.wall = time.time() - t0
    r.out = "".join(keep)
    for line in keep:
        m = vlib._RE_STATES.search(line)
        if m:
            r.generated, r.distinct = int(m.group(1)), int(m.group(2))
        m = vlib._RE_INV.search(line)
        if m and r.violated is None:
            r.violated = m.group(1)
    if r.rc == 124:
        r.error = "timeout after %ss" % timeout
    elif r.violated is None and "Error:" in r.out and "No error has been found" not in r.out:
        m = re.search(r"Error: (.*)", r.out)
        r.error = m.group(1) if m else "unknown TLC error"
    elif r.violated is None and r.rc != 0:
        r.error = "tlc exit code %s" % r.rc
    if r.error or r.violated:
        raise vlib.ToolError("%s/%s: %s %s\n%s" % (module, cfg, r.error, r.violated, r.out[-2000:]))
    if n == 0:
        raise vlib.ToolError("%s/%s printed no behaviours" % (module, cfg))
    r.printed_n = n
    return r


def mc(module, cfg, workers=2, timeout=1500, coverage=False):
    return vlib.tlc(module, cfg, workers=workers, timeout=timeout, coverage=coverage, jvm=JVM, marker=None)


def ctl_names(r):
    return set(re.findall(r'<<"CTL", "(\w+)">>', r.out))


def run_replay_bin(binname, path, timeout=3000):
    """Run a replay binary; a crash or a wedged process of the code under test is data, not a tool error.
    Returns (summary or None, details, rc, stderr tail)."""
    rc, out, err = xlib.run_bin(binname, [path], timeout=timeout, check=False)
    lines = vlib.jsonl(out)
    summary = [l for l in lines if l.get("type") == "summary"]
    details = {}
    for l in lines:
        if l.get("type") in ("contract", "panic", "mismatch", "hang"):
            details.setdefault((l["type"], json.dumps(l["sig"], sort_keys=True)), l)
    return (summary[0] if summary else None), details, rc, err[-1500:]


def classify(run, summary, details, what):
    drift = 0
    for p in summary["problems"]:
        key = (p["type"], json.dumps(p["sig"], sort_keys=True))
        d = details.get(key, {})
        if p["type"] == "mismatch":
            drift += p["count"]
            vlib.log("DRIFT (%s): %d steps where implementation and model differ but the contract holds: %s %s" %
                     (what, p["count"], json.dumps(p["sig"]), d.get("desc", "")[:400]))
            continue
        for _ in range(p["count"]):
            if run.report(p["sig"], d.get("desc", ""), d.get("case")) == "violation":
                break
    return drift


def replay_leg(run, binname, path, what):
    s, d, rc, err = run_replay_bin(binname, path)
    if s is None:
        # the process died inside the code under test (segfault, abort, killed by a signal with default disposition)
        run.report({"site": binname, "kind": "process_died", "rc": rc},
                   "%s died with exit status %s while replaying %s: %s" % (binname, rc, what, err[-600:]), None)
        return 0, 0, {}
    drift = classify(run, s, d, what)
    if rc not in (0, 3):
        raise vlib.ToolError("%s failed rc=%s\n%s" % (binname, rc, err))
    return s["cases"], drift, s


def model_jobs(q):
    """(name, module, cfg, kind, expectation, workers, coverage)"""
    jobs = [
        ("HalfLock", "HalfLock", "MC_HalfLock.cfg" if q else "MC_HalfLock_thorough.cfg", "ok", None, 2 if q else 4, True),
        ("HalfLock/live", "HalfLock", "MC_HalfLock_live.cfg" if q else "MC_HalfLock_live_thorough.cfg", "ok", None, 2 if q else 4, False),
        ("HalfLock/ctl", "HalfLock", "MC_HalfLock_ctl.cfg", "ctl", HL_CTL, 1, False),
        ("Signal", "Signal", "MC_Signal.cfg", "ok", None, 2, True),
        ("Signal/live", "Signal", "MC_Signal_live.cfg" if q else "MC_Signal_live_thorough.cfg", "ok", None, 2 if q else 4, False),
        ("Signal/ctl", "Signal", "MC_Signal_ctl.cfg", "ctl", SIG_CTL, 1, False),
        ("Signal/live_ctl", "Signal", "MC_Signal_live_ctl.cfg", "violates", "EventuallyCompletes", 1, False),
        ("SigReentry", "SigReentry", "MC_SigReentry.cfg", "okctl", {"local"}, 1, True),
    ]
    if not q:
        jobs += [
            ("HalfLock/starve", "HalfLock", "MC_HalfLock_starve.cfg", "violates", "StoreTerminates", 2, False),
            ("Signal/two", "Signal", "MC_Signal_two_thorough.cfg", "ok", None, 4, False),
            ("Signal/three", "Signal", "MC_Signal_three_thorough.cfg", "ok", None, 4, False),
            ("Signal/fixed", "Signal", "MC_Signal_fixed.cfg", "ok", None, 2, False),
            ("Signal/strict", "Signal", "MC_Signal_strict.cfg", "violates", "SlabExact", 1, False),
        ]
    return jobs


def check_model(run, job, r):
    name, module, cfg, kind, exp, _w, cov = job
    if kind in ("ok", "okctl"):
        vlib.require_model_ok(r, name + "/" + cfg)
        if cov:
            z = vlib.zero_actions(r, ignore=("Action",))      # "Action" = the TLCSet conjunct of a CtlSpec
            if z:
                raise vlib.ToolError("%s: actions never taken: %s" % (name, z))
        run.add_model(name + "/" + cfg, r)
        if kind == "okctl":
            seen = ctl_names(r)
            if seen != exp:
                raise vlib.ToolError("%s: control modes that did not violate their property: %s" %
                                     (name, sorted(exp - seen)))
            run.note("controls_" + module, sorted(seen))
    elif kind == "ctl":
        if r.error or r.violated:
            raise vlib.ToolError("%s: %s %s\n%s" % (name, r.error, r.violated, r.out[-2000:]))
        seen = ctl_names(r)
        if seen != exp:
            raise vlib.ToolError("%s: control mutations that did not violate their property: %s" %
                                 (name, sorted(exp - seen)))
        run.note("controls_" + module, sorted(seen))
    else:
        if r.violated != exp:
            raise vlib.ToolError("%s: control expected the model to violate %s, got %s %s" %
                                 (name, exp, r.violated, r.error))


def neg_control_replay(tmp, path, binname, n):
    """corrupt the expectation of the last step of the first n behaviours: every one must be noticed"""
    bad = os.path.join(tmp, binname + "_neg.jsonl")
    k = 0
    with open(path) as f, open(bad, "w") as g:
        for line in f:
            if k >= n:
                break
            o = json.loads(line)
            o["steps"][-1]["x"]["wk"][0] += 1
            g.write(json.dumps(o) + "\n")
            k += 1
    s, _d, rc, err = run_replay_bin(binname, bad)
    if s is None:
        raise vlib.ToolError("negative control: %s died rc=%s %s" % (binname, rc, err))
    nm = sum(p["count"] for p in s["problems"] if p["type"] == "mismatch")
    if nm < k:
        raise vlib.ToolError("negative control: corrupted expectations were accepted by %s (%d/%d noticed)" %
                             (binname, nm, k))
    return k


def trace_leg(run, tmp, runs, seed, ops):
    path = os.path.join(tmp, "halflock.ndjson")
    rc, out, err = xlib.run_bin("record_halflock", [path, runs, seed, ops], timeout=1200, check=False)
    lines = vlib.jsonl(out)
    summary = [l for l in lines if l.get("type") == "summary"]
    if not summary:
        run.report({"site": "record_halflock", "kind": "process_died", "rc": rc},
                   "record_halflock died with exit status %s: %s" % (rc, err[-600:]), None)
        return 0, 0
    s = summary[0]
    details = {}
    for l in lines:
        if l.get("type") in ("contract", "panic", "mismatch", "hang"):
            details.setdefault((l["type"], json.dumps(l["sig"], sort_keys=True)), l)
    drift = classify(run, s, details, "half-lock histories")
    contract_seen = any(p["type"] != "mismatch" for p in s["problems"])
    ok, r = vlib.validate_trace("Trace_HalfLock", "Trace_HalfLock.cfg", path, timeout=1500)
    if r.error:
        raise vlib.ToolError("Trace_HalfLock: %s\n%s" % (r.error, r.out[-2000:]))
    if not ok and not contract_seen:
        drift += 1
        vlib.log("DRIFT (half-lock histories): the recorded history is not a behaviour of HalfLock: %s" %
                 (json.dumps(r.printed)[:400] if r.printed else r.out[-300:]))
    # negative control: a guard that saw another value than the one that was current must be rejected
    bad = os.path.join(tmp, "halflock_neg.ndjson")
    done = False
    with open(path) as f, open(bad, "w") as g:
        for i, line in enumerate(f):
            if i >= 400:
                break
            o = json.loads(line)
            if not done and o.get("e") == "read.ret":
                o["v"] += 7
                done = True
            g.write(json.dumps(o) + "\n")
    if not done:
        raise vlib.ToolError("negative control: no read.ret event recorded")
    okb, _rb = vlib.validate_trace("Trace_HalfLock", "Trace_HalfLock.cfg", bad, timeout=900)
    if okb:
        raise vlib.ToolError("negative control: a corrupted half-lock history was accepted")
    run.note("halflock_events", s.get("events"))
    run.note("halflock_overlapped_stores", s.get("overlapped_stores"))
    run.note("halflock_trace_accepted", ok)
    return s["cases"], drift


def stress_leg(run, mode, secs):
    rc, out, err = xlib.run_bin("stress_signal", [mode, secs, 8], timeout=secs * 10 + 240, check=False)
    res = [l for l in vlib.jsonl(out) if l.get("type") == "result"]
    if res:
        sym, detail, r0 = res[0]["symptom"], res[0].get("detail", ""), res[0]
    else:
        sym, detail, r0 = "crash", "process ended with exit status %s: %s" % (rc, err[-400:]), {}
    run.note("stress_" + mode, {k: r0.get(k) for k in ("symptom", "signals_sent", "listener_completions", "rounds")})
    if sym == "none":
        if r0.get("listener_completions", 0) > 0:
            return 1
        if r0.get("signals_sent", 0) < 1000:
            raise vlib.ToolError("stress_signal %s: nothing was exercised (%s)" % (mode, json.dumps(r0)))
        sym, detail = "no_completion", "%d signals sent, no listener task ever completed" % r0.get("signals_sent", 0)
    if mode == "same":
        sig = {"site": "executor_local_queue", "kind": "handler_on_runtime_thread", "symptom": sym}
        desc = ("signal handler invoked on the runtime's own thread wakes the listener through Local::schedule and "
                "re-enters the run queue the thread is updating: %s (%s)" % (sym, detail))
    else:
        sig = {"site": "executor_remote_path", "kind": "handler_on_other_thread", "symptom": sym}
        desc = "signals delivered on a thread without runtime damaged the runtime of the listeners: %s (%s)" % (sym, detail)
    run.report(sig, desc, {"stress": mode, "seconds": secs})
    return 1


def run(run, tier, replay):
    tmp = vlib.scratch()
    pools = []
    try:
        if replay:
            obj = json.load(open(replay))
            case = obj.get("replay")
            if isinstance(case, dict) and "steps" in case:
                binname = "replay_signal_rt" if case.get("auto") else "replay_signal"
                xlib.cargo_build(PKG, [binname])
                p = os.path.join(tmp, "one.jsonl")
                with open(p, "w") as f:
                    f.write(json.dumps(case) + "\n")
                n, _drift, _s = replay_leg(run, binname, p, "replay")
                run.add_traces(max(n, 1))
            elif isinstance(case, dict) and "stress" in case:
                xlib.cargo_build(PKG, ["stress_signal"])
                run.add_traces(stress_leg(run, case["stress"], int(case.get("seconds", 5))))
            else:
                xlib.cargo_build(PKG, ["record_halflock"])
                n, _d = trace_leg(run, tmp, 100, vlib.seed(), 14)
                run.add_traces(max(n, 1))
            run.cov["states"] = run.cov["transitions"] = 1
            return
        q = tier == "quick"
        bpool = concurrent.futures.ThreadPoolExecutor(max_workers=1)
        pool = concurrent.futures.ThreadPoolExecutor(max_workers=3)
        pools += [bpool, pool]
        # cargo may wait for the lock on the shared target directory: start it first, on its own thread
        build = bpool.submit(xlib.cargo_build, PKG, BINS)
        for f in [pool.submit(vlib.sany, m) for m in ("HalfLock", "Trace_HalfLock", "Signal", "Gen_Signal", "SigReentry")]:
            f.result()
        _t(run, "modules parsed")
        # ---- 1. model checking, 2. behaviour generation: three JVMs at a time
        suf = "" if q else "_thorough"
        man_path = os.path.join(tmp, "gen_manual.jsonl")
        rt_path = os.path.join(tmp, "gen_rt.jsonl")
        gens = [pool.submit(gen_tlc, "Gen_Signal", "Gen_Signal%s.cfg" % suf, man_path, 2400, 2),
                pool.submit(gen_tlc, "Gen_Signal", "Gen_Signal_rt%s.cfg" % suf, rt_path, 2400, 2)]
        jobs = model_jobs(q)
        futs = [(j, pool.submit(mc, j[1], j[2], j[5], 2400, j[6])) for j in jobs]
        sim_path = os.path.join(tmp, "gen_sim.jsonl")
        g_sim = None if q else pool.submit(gen_tlc, "Gen_Signal", "Gen_Signal_sim.cfg", sim_path, 2400, 1, 2500, 900)
        g_man, g_rt = gens[0].result(), gens[1].result()
        _t(run, "behaviours generated: %d (parking handlers) + %d (runtimes)" % (g_man.printed_n, g_rt.printed_n))
        run.note("Gen_Signal_behaviours", g_man.printed_n)
        run.note("Gen_Signal_rt_behaviours", g_rt.printed_n)
        run.note("exhaustive_cover", True)
        build.result()
        _t(run, "harness built")
        # ---- 3. the legs that run the real code, concurrently with the remaining model runs
        hpool = concurrent.futures.ThreadPoolExecutor(max_workers=4)
        pools.append(hpool)
        f_man = hpool.submit(replay_leg, run, "replay_signal", man_path, "Gen_Signal")
        f_rt = hpool.submit(replay_leg, run, "replay_signal_rt", rt_path, "Gen_Signal_rt")
        f_tr = hpool.submit(trace_leg, run, tmp, 60 if q else 500, vlib.seed(), 14)
        f_so = hpool.submit(stress_leg, run, "other", 3 if q else 20)
        for j, f in futs:
            r = f.result()
            check_model(run, j, r)
            _t(run, "%s %s: %d states, %.0fs" % (j[0], j[3], r.distinct, r.wall))
        n_man, d_man, s_man = f_man.result()
        _t(run, "replay_signal done: %d behaviours" % n_man)
        n_rt, d_rt, s_rt = f_rt.result()
        _t(run, "replay_signal_rt done: %d behaviours" % n_rt)
        n_tr, d_tr = f_tr.result()
        _t(run, "half-lock histories recorded and validated: %d runs" % n_tr)
        n_st = f_so.result()
        if g_sim is not None:
            gs = g_sim.result()
            run.note("Gen_Signal_sim_behaviours", gs.printed_n)
            n_sim, d_sim, s_sim = replay_leg(run, "replay_signal", sim_path, "Gen_Signal_sim")
            _t(run, "replay_signal (seeded simulation, 12 steps): %d behaviours" % n_sim)
            n_man += n_sim
            d_man += d_sim
            run.note("replay_signal_sim_steps", s_sim.get("steps"))
        # the storm on the runtime's own thread last and alone: it is the one that depends on hitting a window
        n_st += stress_leg(run, "same", 3 if q else 20)
        _t(run, "stress done")
        run.add_traces(n_man + n_rt + n_tr + n_st)
        for k in ("steps", "parks", "blocked_calls", "early_returns", "leaks", "final_polls"):
            if k in s_man:
                run.note("replay_signal_" + k, s_man[k])
        if s_rt:
            run.note("replay_signal_rt_steps", s_rt.get("steps"))
            run.note("replay_signal_rt_late_completions", s_rt.get("late_completions"))
        run.note("drift_steps", d_man + d_rt + d_tr)
        if n_man and s_man.get("parks", 0) == 0:
            raise vlib.ToolError("no handler was ever parked inside the read section: binding lost")
        if n_man and s_man.get("blocked_calls", 0) == 0:
            raise vlib.ToolError("no register/unregister call ever waited for a handler: binding lost")
        # ---- 4. negative controls
        if n_man:
            neg_control_replay(tmp, man_path, "replay_signal", 60)
        if n_rt:
            neg_control_replay(tmp, rt_path, "replay_signal_rt", 30)
        _t(run, "negative controls done")
        with open(man_path) as f:
            for i, line in enumerate(f):
                if i in (700, 4000):
                    run.sample(json.loads(line), limit=2)
                if i > 4000:
                    break
        run.assumptions += ["sequentially consistent atomics (the code uses SeqCst)",
                            "futures-util AtomicWaker and std::sync::Mutex are atomic",
                            "raise() delivers the signal on the calling thread before it returns (POSIX)"]
    finally:
        for p in pools:
            p.shutdown(wait=False, cancel_futures=True)
        shutil.rmtree(tmp, ignore_errors=True)
