"""C17 - the blocking pool is bounded and loses nothing (compio-driver AsyncifyPool + push_blocking).

1. TLC checks the implementation-shaped model AsyncifyPool (one action per atomic step / hook site of
   asyncify.rs on top of the flume rendezvous channel, 1-2 dispatching threads, worker start-up and
   retirement, panicking jobs, the push_blocking retry loop): exactly-once, nothing lost, counter
   accounting, respawn after retirement, the strict bound on running jobs / live threads and, on the fair
   spec, that every dispatch returns and every job finishes. The model describes the tree WITH the repair
   (fix commit 4304f73: slot reserved by fetch_update in dispatch, job handed to the new thread; Fix = TRUE);
   three control configs keep the behaviour before the repair (named deviations DLoadPassLagged, OrphanedBy)
   and must violate Bounded / SendCompletes.
2. Gen_AsyncifyPool prints the labelled state graph; an edge-covering path set (quick) / seeded simulation
   (thorough) is replayed on the REAL pool by harness bin pool_replay: threads park at the pool.* hooks and
   the controller grants turns; after every step the real threads are projected onto the model record and
   compared (difference = DRIFT), and the contract is evaluated on the real observation (per-job
   execution counters, running gauge, identity of handed-back jobs, results/panics through Proactor::pop
   on both drivers, hang watchdog, probe dispatch after all workers retired).
3. harness bin pool_stress: free-running seeded stress with recv_timeout 1-5 ms, same oracle.
4. harness bin pool_disp: dispatcher-level leg - the two dispatching parties of the model are bound to
   compio-dispatcher (Dispatcher::dispatch_blocking and a worker runtime's spawn_blocking): every order of
   submit-via-handle / submit-via-worker / release over gate jobs; the Dispatcher handle and its worker runtimes
   must share ONE pool (gauge <= limit, hand-back while saturated, exactly once).
"""
import collections
import concurrent.futures
import json
import os
import re
import shutil

import vlib

LEVEL = "model_checking"
TITLE = "The blocking pool is bounded and loses nothing"
TEXT = ("TLC explores every interleaving of 1-2 dispatching threads with worker start-up, rendezvous hand-off, "
        "retirement (recv_timeout), panicking jobs and the push_blocking retry loop on a transcription of "
        "AsyncifyPool::dispatch/worker/CounterGuard and checks exactly-once execution, conservation of jobs, counter "
        "accounting, respawn after retirement, the thread limit and (fair spec) completion of every send and job. "
        "An edge-covering set of these interleavings is replayed on the real pool by a schedule controller that parks "
        "the real threads at hook points (raw dispatch API and Proactor::push(Asyncify) on the io_uring and polling "
        "drivers), with the contract evaluated on per-job execution counters, a running gauge, the identity of "
        "handed-back jobs, results/panics popped from the Proactor and a hang watchdog; a free-running seeded stress "
        "with 1-5 ms recv_timeout uses the same oracle.")
NOTE = ("Bounds: Limit 1-3, 1-2 dispatchers, 2-5 jobs, <= 5 worker threads per model run; thread_limit 0 (documented "
        "panic) is out of scope. Sequentially consistent atomics; flume bounded(0) is modelled from its source "
        "(FIFO hand-off to the longest parked receiver). 'Parked inside the channel' is observed through the "
        "kernel's thread state (/proc/self/task). Timeouts are real time: steered schedules use recv_timeout 250 ms "
        "(doubled on retry), a schedule whose real threads diverge is DRIFT, not a violation. Three genuine defects "
        "found by this check (limit overrun by counter lag; blocking send orphaned when the last receiver retired or "
        "died of a panic) were repaired by fix commit 4304f73; the old behaviour survives only in the control configs.")
TECHNIQUE = "TLA+ model (TLC safety + liveness) + schedule-controlled replay on real threads + seeded stress"
DESIGN_REF = "3/C17"

PAR = int(os.environ.get("VERIF_C17_PAR", "32"))


# ------------------------------------------------------------------------------------------------ model checking

def _temporal_violation(r):
    return (r.violated is not None) or ("emporal propert" in (r.error or ""))


def model_runs(tier):
    """(cfg, kind, ignore-zero-actions) kind: ok | ctl-inv:<name> | ctl-live.
    Normal configs model the code as it is (Fix = TRUE: the repaired dispatch); the three control configs keep
    the behaviour before the fix commit and must violate the strict properties."""
    unused_fix = ("DLoadReject", "DLoadPass", "DLoadPassLagged", "DSend", "WInc")
    runs = [
        ("MC_AsyncifyPool.cfg", "ok", unused_fix),
        ("MC_AsyncifyPool_l2.cfg", "ok", unused_fix),
        ("MC_AsyncifyPool_live.cfg", "ok", unused_fix),
        ("MC_AsyncifyPool_live_drv.cfg", "ok", unused_fix),
        ("MC_AsyncifyPool_strict.cfg", "ctl-inv:Bounded", None),
        ("MC_AsyncifyPool_live_strict.cfg", "ctl-live", None),
    ]
    if tier != "quick":
        runs += [
            ("MC_AsyncifyPool_strict1.cfg", "ctl-inv:Bounded", None),
            ("MC_AsyncifyPool_thorough.cfg", "ok", unused_fix),
            ("MC_AsyncifyPool_live_thorough.cfg", "ok", unused_fix),
            ("MC_AsyncifyPool_thorough2.cfg", "ok", unused_fix),
        ]
    return runs


def check_models(run, tier):
    runs = model_runs(tier)

    def one(item):
        cfg, kind, ign = item
        return item, vlib.tlc("AsyncifyPool", cfg, workers=2, timeout=2400, coverage=(kind == "ok"))

    with concurrent.futures.ThreadPoolExecutor(max_workers=3) as ex:
        results = list(ex.map(one, runs))
    controls = {}
    for (cfg, kind, ign), r in results:
        name = "AsyncifyPool/" + cfg
        if kind == "ok":
            vlib.require_model_ok(r, name)
            z = vlib.zero_actions(r, ignore=ign or ())
            if z:
                raise vlib.ToolError("%s: vacuous, actions never taken: %s" % (name, z))
            run.add_model(name, r)
        elif kind.startswith("ctl-inv:"):
            inv = kind.split(":")[1]
            if r.violated != inv:
                raise vlib.ToolError("%s: control run should violate %s (the named deviation is what makes the bound "
                                     "hold), got %s / %s" % (name, inv, r.violated, r.error))
            controls[cfg] = "violates %s as expected" % inv
        else:
            if not _temporal_violation(r):
                raise vlib.ToolError("%s: control run should violate the strict liveness property, got %s / %s" %
                                     (name, r.violated, r.error))
            controls[cfg] = "violates SendCompletes as expected"
    run.note("control_runs", controls)


# ------------------------------------------------------------------------------------------------ schedules

def read_cfg(name):
    """constants of spec/Gen_AsyncifyPool_<name>.cfg as the cfg record the harness expects"""
    txt = open(os.path.join(vlib.SPEC, name)).read()

    def val(k):
        m = re.search(r"^\s*%s\s*=\s*(.*)$" % k, txt, re.M)
        if not m:
            raise vlib.ToolError("%s: constant %s not found" % (name, k))
        return m.group(1).strip()

    def sset(k):
        return sorted(re.findall(r'"(\w+)"', val(k)))

    return {"limit": int(val("Limit")), "jobs": sset("Jobs"), "disp": sset("Disp"), "nw": int(val("NW")),
            "panic": sset("PanicJobs"), "caught": val("Caught") == "TRUE", "loop": val("DriverLoop") == "TRUE"}


def skey(s):
    return json.dumps(s, sort_keys=True)


class Graph:
    def __init__(self, edges):
        self.out = collections.defaultdict(list)
        self.states = {}
        for e in edges:
            fk, tk = skey(e["from"]), skey(e["to"])
            self.states.setdefault(fk, e["from"])
            self.states.setdefault(tk, e["to"])
            self.out[fk].append((e["act"], e["role"], e["job"], tk))
        init = [k for k, s in self.states.items()
                if all(v == "idle" for v in s["pcD"].values()) and all(p == "unborn" for p in s["pcW"])
                and all(v == 0 for v in s["ran"].values())]
        if len(init) != 1:
            raise vlib.ToolError("state graph: %d initial states" % len(init))
        self.init = init[0]

    def edge_count(self):
        return sum(len(v) for v in self.out.values())


def class_full(g):
    return lambda fk, e: (fk, e[0], str(e[1]), e[2], e[3])


def class_abs(g):
    """edge classes that forget job identities and which thread is which: (abstract pre-state, action,
    abstract post-state) with abstract state = multisets of dispatcher/worker pcs, queue lengths, counter"""
    def ab(k):
        st = g.states[k]
        return (tuple(sorted(st["pcD"].values())), tuple(sorted(st["pcW"])), len(st["waiting"]), len(st["sending"]),
                st["counter"])
    return lambda fk, e: (ab(fk), e[0], ab(e[3]))


def cover_paths(g, cls, maxlen=36):
    """greedy path set from the initial state covering every edge class"""
    targets = set()
    for fk, es in g.out.items():
        for e in es:
            targets.add(cls(fk, e))
    total = len(targets)
    paths = []

    def nearest(src, budget):
        prev = {src: None}
        q = collections.deque([(src, 0)])
        while q:
            k, d = q.popleft()
            for e in g.out.get(k, ()):
                if cls(k, e) in targets:
                    path = [(k, e)]
                    while prev[k] is not None:
                        pk, pe = prev[k]
                        path.append((pk, pe))
                        k = pk
                    path.reverse()
                    return path
                if d + 1 < budget and e[3] not in prev:
                    prev[e[3]] = (k, e)
                    q.append((e[3], d + 1))
        return None

    while targets:
        p = nearest(g.init, 10 ** 9)
        if p is None:
            break
        path = []
        while True:
            for (k, e) in p:
                path.append((k, e))
                targets.discard(cls(k, e))
            if len(path) >= maxlen:
                break
            p = nearest(path[-1][1][3], maxlen - len(path))
            if p is None or len(path) + len(p) > maxlen:
                break
        paths.append(path)
    return paths, total - len(targets), total


def shortest_to(g, pred, k=3):
    """up to k shortest paths to distinct states satisfying pred"""
    prev = {g.init: None}
    q = collections.deque([g.init])
    found = []
    while q and len(found) < k:
        s = q.popleft()
        for e in g.out.get(s, ()):
            if e[3] in prev:
                continue
            prev[e[3]] = (s, e)
            if pred(g.states[e[3]]):
                found.append(e[3])
                if len(found) >= k:
                    break
            q.append(e[3])
    paths = []
    for t in found:
        path = []
        while prev[t] is not None:
            s, e = prev[t]
            path.append((s, e))
            t = s
        path.reverse()
        paths.append(path)
    return paths


def gen_edges(cfgfile, expect_violation=None):
    edges = []
    r = vlib.tlc("Gen_AsyncifyPool", cfgfile, workers=1, timeout=2400, coverage=False, marker="EDGE", sink=edges.append)
    if expect_violation:
        if r.violated != expect_violation:
            raise vlib.ToolError("%s: expected the targeted search to stop at a violation of %s, got %s / %s" %
                                 (cfgfile, expect_violation, r.violated, r.error))
    elif r.error or r.violated:
        raise vlib.ToolError("%s: %s %s\n%s" % (cfgfile, r.error, r.violated, r.out[-2000:]))
    if not edges:
        raise vlib.ToolError("%s printed no edges" % cfgfile)
    return r, edges


def to_schedule(g, path, cfgname, cfg, driver, sid):
    return {"id": sid, "cfgname": cfgname, "cfg": cfg, "driver": driver,
            "steps": [{"act": e[0], "role": e[1], "job": e[2], "to": g.states[e[3]]} for (k, e) in path]}


def drivers_of(cfg):
    # DriverLoop/Caught configs are the push_blocking leg: replayed through Proactor::push on both drivers
    return ["iour", "poll"] if cfg["loop"] else ["raw"]


def quick_schedules(run):
    plans = [("a", "full"), ("b", "full"), ("e", "full"), ("c", "full"), ("d", "full"), ("f", "abs")]

    def one(item):
        name, mode = item
        return item, gen_edges("Gen_AsyncifyPool_%s.cfg" % name, "Bounded" if mode == "target" else None)

    with concurrent.futures.ThreadPoolExecutor(max_workers=3) as ex:
        res = list(ex.map(one, plans))
    scheds = []
    cov = {}
    for (name, mode), (r, edges) in res:
        cfg = read_cfg("Gen_AsyncifyPool_%s.cfg" % name)
        g = Graph(edges)
        if mode == "target":
            lim = cfg["limit"]
            paths = shortest_to(g, lambda s: sum(1 for p in s["pcW"] if p == "run") > lim, k=2)
            if not paths:
                raise vlib.ToolError("%s: no path to a limit overrun found" % name)
            cov[name] = {"targeted_paths": len(paths), "edges_seen": g.edge_count()}
        else:
            paths, done, total = cover_paths(g, class_full(g) if mode == "full" else class_abs(g))
            if done != total:
                raise vlib.ToolError("%s: path cover incomplete (%d of %d)" % (name, done, total))
            cov[name] = {"mode": "every edge" if mode == "full" else "every abstract edge class",
                         "targets_covered": total, "graph_edges": g.edge_count(), "graph_states": len(g.states),
                         "paths": len(paths)}
            run.cov["states"] += r.distinct
            run.cov["transitions"] += r.generated
        for p in paths:
            for drv in drivers_of(cfg):
                scheds.append(to_schedule(g, p, name, cfg, drv, len(scheds) + 1))
    run.note("schedule_cover", cov)
    return scheds


def thorough_schedules(run):
    scheds = quick_schedules_thorough(run)
    sims = [("sim_b", 400), ("sim_d", 500), ("sim_c", 300), ("sim_g", 500), ("sim_h", 300)]

    def one(item):
        name, n = item
        out = []
        r = vlib.tlc("Gen_AsyncifyPool", "Gen_AsyncifyPool_%s.cfg" % name, timeout=2400, coverage=False, sink=out.append,
                     simulate=n, depth=41)
        if r.error or r.violated or not out:
            raise vlib.ToolError("Gen_AsyncifyPool_%s: %s %s n=%d\n%s" % (name, r.error, r.violated, len(out), r.out[-2000:]))
        return item, out

    with concurrent.futures.ThreadPoolExecutor(max_workers=3) as ex:
        res = list(ex.map(one, sims))
    nsim = 0
    for (name, n), out in res:
        cfg = read_cfg("Gen_AsyncifyPool_%s.cfg" % name)
        seen = set()
        for o in out:
            key = json.dumps([(s["act"], s["role"], s["job"]) for s in o["steps"]])
            if key in seen or not o["steps"]:
                continue
            seen.add(key)
            for drv in drivers_of(cfg):
                nsim += 1
                scheds.append({"id": len(scheds) + 1, "cfgname": name, "cfg": cfg, "driver": drv, "steps": o["steps"]})
    run.note("simulated_schedules", nsim)
    return scheds


def quick_schedules_thorough(run):
    """thorough: the quick cover with config f (Limit 2, 4 jobs, push_blocking loop) covered edge by edge as well"""
    scheds = quick_schedules(run)
    r, edges = gen_edges("Gen_AsyncifyPool_f.cfg")
    cfg = read_cfg("Gen_AsyncifyPool_f.cfg")
    g = Graph(edges)
    paths, done, total = cover_paths(g, class_full(g))
    run.cov.setdefault("schedule_cover", {})["f_full"] = {"mode": "every edge", "targets_covered": total, "paths": len(paths)}
    for p in paths:
        for drv in drivers_of(cfg):
            scheds.append(to_schedule(g, p, "f", cfg, drv, len(scheds) + 1))
    return scheds


# ------------------------------------------------------------------------------------------------ harness runs

def parse_out(out, err, what):
    lines = vlib.jsonl(out)
    summ = [l for l in lines if l.get("type") == "summary"]
    if not summ:
        raise vlib.ToolError("%s produced no summary\n%s" % (what, err[-2000:]))
    summ = summ[0]
    if summ.get("runner_panics"):
        raise vlib.ToolError("%s: a harness runner thread panicked\n%s" % (what, err[-2000:]))
    details = {}
    for l in lines:
        if l.get("type") in ("contract", "panic", "mismatch", "hang"):
            details.setdefault((l["type"], json.dumps(l["sig"], sort_keys=True)), l)
    return summ, details


def classify(run, summ, details, what):
    drift = 0
    for p in summ["problems"]:
        d = details.get((p["type"], json.dumps(p["sig"], sort_keys=True)), {})
        if p["type"] == "mismatch":
            drift += p["count"]
            vlib.log("DRIFT (%s): %d schedules where the real threads left the schedule (contract still evaluated): %s" %
                     (what, p["count"], d.get("desc", "")[:400]))
            continue
        for _ in range(p["count"]):
            if run.report(p["sig"], d.get("desc", ""), d.get("case")) == "violation":
                break
    return drift


def replay(run, scheds, tmp, what, hang_ms=10000):
    path = os.path.join(tmp, what + ".jsonl")
    with open(path, "w") as f:
        for s in scheds:
            f.write(json.dumps(s) + "\n")
    rc, out, err = vlib.run_bin("pool_replay", [path, "--par", PAR, "--hang-ms", hang_ms], timeout=3000)
    summ, details = parse_out(out, err, "pool_replay")
    if summ["cases"] != len(scheds) and not summ.get("aborted"):
        raise vlib.ToolError("pool_replay ran %d of %d schedules" % (summ["cases"], len(scheds)))
    return summ, details


def stress(run, scale, seed_):
    rc, out, err = vlib.run_bin("pool_stress", ["--seed", seed_, "--scale", scale], timeout=3000)
    return parse_out(out, err, "pool_stress")


def dispatcher_programs(tier):
    """Dispatcher-level leg: programs over {Sh = submit via Dispatcher::dispatch_blocking, Sw = submit via a worker
    runtime's spawn_blocking, Ro/Rn = release the oldest/newest running job}: every maximal sequence of the job-level
    abstraction of the model with two dispatching parties (r running <= L, p worker submissions waiting in the retry
    loop; Sh while r = L is handed back, Sw while r = L waits, a release lets one waiting submission in)."""
    def progs(L, N):
        out = []

        def rec(r, p, n, seq):
            if n == N and r == 0 and p == 0:
                out.append(seq)
                return
            if n < N:
                rec(r + 1 if r < L else r, p, n + 1, seq + ["Sh"])
                if r < L:
                    rec(r + 1, p, n + 1, seq + ["Sw"])
                else:
                    rec(r, p + 1, n + 1, seq + ["Sw"])
            if r > 0:
                for ev in (["Ro", "Rn"] if r >= 2 else ["Ro"]):
                    r2, p2 = r - 1, p
                    if p2 > 0:
                        p2, r2 = p2 - 1, r2 + 1
                    rec(r2, p2, n, seq + [ev])
        rec(0, 0, 0, [])
        return out
    shapes = [(1, 3), (2, 3)] if tier == "quick" else [(1, 2), (1, 3), (1, 4), (2, 3), (2, 4)]
    out = []
    for (L, N) in shapes:
        for evs in progs(L, N):
            for w in (1, 2):
                for drv in ("iour", "poll"):
                    out.append({"id": len(out) + 1, "limit": L, "workers": w, "driver": drv, "njobs": N, "events": evs})
    return out


def dispatcher_leg(run, progs, tmp, what="dispatcher", extra=()):
    path = os.path.join(tmp, what + ".jsonl")
    with open(path, "w") as f:
        for p in progs:
            f.write(json.dumps(p) + "\n")
    rc, out, err = vlib.run_bin("pool_disp", [path, "--par", 8] + list(extra), timeout=3000)
    summ, details = parse_out(out, err, "pool_disp")
    if summ["cases"] != len(progs) and not summ.get("aborted"):
        raise vlib.ToolError("pool_disp ran %d of %d programs" % (summ["cases"], len(progs)))
    return summ, details


def negative_control(run, scheds, tmp):
    """corrupt expectations of a few schedules: the binding must notice (mismatch), else the comparison is vacuous"""
    bad = []
    for s in scheds:
        if s["driver"] != "raw":
            continue
        for i, st in enumerate(s["steps"]):
            if st["act"] == "DReserve" and st["to"]["pcD"][st["role"]] != "spawn" and i > 2:
                t = json.loads(json.dumps(s))
                t["steps"] = t["steps"][:i + 1]
                d = t["steps"][i]["role"]
                t["steps"][i]["to"]["pcD"][d] = "spawn"      # model claims the limit test passed
                t["id"] = "neg-%s" % s["id"]
                bad.append(t)
                break
        if len(bad) >= 6:
            break
    for s in scheds:
        if len(bad) >= 12:
            break
        for i, st in enumerate(s["steps"]):
            if st["act"] == "DTry" and st["to"]["pcD"][st["role"]] == "load" and st["to"]["counter"] > 0 and s["driver"] == "raw":
                t = json.loads(json.dumps(s))
                t["steps"] = t["steps"][:i + 1]
                t["steps"][i]["to"]["counter"] -= 1              # wrong counter value at the limit test
                t["id"] = "negc-%s" % s["id"]
                bad.append(t)
                break
    if len(bad) < 4:
        raise vlib.ToolError("negative control: no schedule to corrupt")
    path = os.path.join(tmp, "neg.jsonl")
    with open(path, "w") as f:
        for s in bad:
            f.write(json.dumps(s) + "\n")
    rc, out, err = vlib.run_bin("pool_replay", [path, "--par", PAR, "--attempts", 1], timeout=1200)
    summ, _ = parse_out(out, err, "pool_replay(negative control)")
    nm = sum(p["count"] for p in summ["problems"] if p["type"] == "mismatch")
    if nm < len(bad):
        raise vlib.ToolError("negative control: %d corrupted schedules, only %d noticed" % (len(bad), nm))
    run.note("negative_control", "%d schedules with a corrupted expectation (limit test outcome / counter value) all "
                                 "rejected by the step comparison" % len(bad))


def run(run, tier, replay_path):
    vlib.sany("AsyncifyPool")
    vlib.sany("Gen_AsyncifyPool")
    tmp = vlib.scratch()
    try:
        if replay_path:
            obj = json.load(open(replay_path))
            case = obj["replay"]
            vlib.cargo_build("hpool", ["pool_replay", "pool_stress", "pool_disp"])
            run.cov["states"] = run.cov["transitions"] = 1
            if case.get("dispatcher_leg"):
                summ, details = dispatcher_leg(run, [case], tmp, "one")
            elif case.get("stress"):
                summ, details = stress(run, 1, case.get("seed", vlib.seed()))
            else:
                summ, details = replay(run, [case], tmp, "one")
            classify(run, summ, details, "replay")
            run.add_traces(summ["cases"])
            return
        import time
        t0 = time.time()

        def phase(name):
            vlib.log("C17 phase %-28s done at %6.1fs" % (name, time.time() - t0))
        # 1. model checking and 2. schedule generation (independent TLC runs, side by side)
        with concurrent.futures.ThreadPoolExecutor(max_workers=2) as ex:
            f1 = ex.submit(check_models, run, tier)
            f2 = ex.submit(quick_schedules if tier == "quick" else thorough_schedules, run)
            f1.result()
            phase("model checking")
            scheds = f2.result()
        phase("schedule generation")
        # 3. replay on the real pool
        vlib.cargo_build("hpool", ["pool_replay", "pool_stress", "pool_disp"])
        phase("harness build")
        summ, details = replay(run, scheds, tmp, "schedules")
        drift = classify(run, summ, details, "steered replay")
        run.add_traces(summ["cases"])
        run.note("schedules_replayed", summ["cases"])
        run.note("schedules_fully_steered", summ["fully_steered"])
        run.note("schedules_retried_with_longer_timeout", summ["retried"])
        run.note("drift_schedules", drift)
        run.note("steps_replayed", summ["steps"])
        run.note("hook_and_harness_events", summ["events"])
        run.note("by_driver", dict(collections.Counter(s["driver"] for s in scheds)))
        if summ.get("aborted"):
            vlib.log("NOTE: the replay stopped early: a pool thread could not be recovered (see the violations)")
        if drift * 5 > max(1, summ["cases"]) and not run.violations:
            raise vlib.ToolError("binding lost: %d of %d schedules drifted although the contract held everywhere: the "
                                 "model no longer describes asyncify.rs (re-synchronise spec/AsyncifyPool.tla)" %
                                 (drift, summ["cases"]))
        for s in scheds[:: max(1, len(scheds) // 3)][:3]:
            run.sample({"cfg": s["cfgname"], "driver": s["driver"],
                        "schedule": ["%s(%s)" % (x["act"], x["role"]) for x in s["steps"]]}, limit=3)
        phase("steered replay (%d)" % summ["cases"])
        # 4. free-running stress
        ssum, sdet = stress(run, 1 if tier == "quick" else 4, vlib.seed())
        classify(run, ssum, sdet, "stress")
        run.add_traces(ssum["cases"])
        run.note("stress_configs", ssum["cases"])
        run.note("stress_jobs", ssum["steps"])
        run.note("stress_stats", ssum.get("stats", [])[:16])
        phase("stress")
        # 4b. dispatcher-level leg: the Dispatcher handle and its worker runtimes share ONE pool
        progs = dispatcher_programs(tier)
        dsum, ddet = dispatcher_leg(run, progs, tmp)
        classify(run, dsum, ddet, "dispatcher leg")
        run.add_traces(dsum["cases"])
        run.note("dispatcher_programs", dsum["cases"])
        run.note("dispatcher_program_steps", dsum["steps"])
        if dsum.get("aborted"):
            vlib.log("NOTE: the dispatcher leg stopped early: a dispatcher could not be shut down (see the violations)")
        # its negative control: the handle given a pool of its own (the defect this leg exists for) must be objected to
        ctl_progs = [p for p in progs if p["events"].count("Sh") >= 1 and p["events"].count("Sw") >= 1][:60]
        csum, _ = dispatcher_leg(run, ctl_progs, tmp, "dispatcher_control", extra=["--control-split"])
        kinds = {p["sig"].get("kind") for p in csum["problems"] if p["type"] == "contract"}
        if not ({"limit-exceeded", "accepted-while-saturated"} <= kinds):
            raise vlib.ToolError("dispatcher negative control: a handle with a pool of its own was not objected to (%s)" % sorted(kinds))
        run.note("dispatcher_negative_control", "handle with a separate pool: %s reported in %d control programs" %
                 (sorted(kinds), csum["cases"]))
        phase("dispatcher leg (%d)" % dsum["cases"])
        # 5. negative control
        negative_control(run, scheds, tmp)
        phase("negative control")
        run.assumptions += [
            "sequentially consistent atomics (the counter uses AcqRel/Acquire; weak-memory reorderings are not explored)",
            "flume 0.12 bounded(0) behaves as modelled from its source: FIFO hand-off, receivers take the oldest queued sender",
            "a thread the kernel reports as sleeping outside the hooks is parked inside the channel",
            "jobs terminate (gates are opened by the harness); OS thread creation does not fail",
        ]
    finally:
        shutil.rmtree(tmp, ignore_errors=True)
