"""C20 - child processes: complete stdio and the real exit status (compio-process).

1. TLC checks the implementation-shaped model Process (pipes as bounded FIFOs of blocks, helper
   child, the parent's writer / reader / wait tasks, both child_wait paths, both drivers) for:
   output read completely and in order, input reaches the child, conservation in every state,
   wait = real status / reaped exactly once / never before the exit, no deadlock for programs
   whose parent activities run concurrently, liveness on the fair spec.  The defect that was
   reproduced on the real crate and repaired (polling driver: blocking write(2) on the child's
   stdin) is a switch of the model (BlockingChildPipes); a control config with the old behaviour
   must show the deadlock.  The classic sequential deadlocks and "wait keeps an untaken stdin
   open" are named expected scenarios.
2. Gen_Process prints every terminal state of every program of the small model; each program is
   replayed against the real compio-process with real children on both drivers, on the default
   build (wait on the blocking pool) and - when a nightly toolchain is present - on the
   linux_pidfd build.  The contract is evaluated on the real bytes / statuses independently of
   the model; the model's prediction is compared as drift.
"""
import concurrent.futures
import json
import os
import random
import shutil
import subprocess

import vlib

LEVEL = "model_checking"
TITLE = "Child processes: complete stdio and the real exit status"
TEXT = ("TLC explores every interleaving of the parent's writer, reader and wait tasks, the helper child and the "
        "kernel pipes for every program of a small model (payload 0-6 blocks per stream around a pipe capacity of 2, "
        "chunkings, wait/drain orders, exit codes and signals, stdin closed or held, both drivers, both child_wait "
        "paths) and checks order, completeness, conservation, the wait contract, deadlock freedom of concurrent "
        "programs and liveness. Every program is then run on the real compio-process with real child processes "
        "(own helper, cat, dd, cksum, sh pipelines; block = 32 KiB, i.e. below and above the 64 KiB pipe) on "
        "io_uring and polling, and the bytes read, the bytes the child received, code()/signal(), the time wait "
        "returns relative to the child's exit and the reaping are checked on the real observation.")
NOTE = ("Bounds: K=2 blocks per pipe, payload <= 6 blocks (quick) / 8 (thorough model), random byte sizes up to 1 MiB "
        "in the thorough replay; the quick tier replays a smaller exhaustive model (about 240 programs, each on one of "
        "the two wait paths), the thorough tier about 1200 on both. "
        "Deadlocks are decided from /proc (child asleep in read(0)/write(1|2), runtime thread "
        "asleep in its driver wait or in write(2), no progress), a 25 s watchdog is the fall-back. Trusted: the "
        "kernel's pipe semantics, /proc/<pid>/syscall, the helper children. Child::wait consumes the Child, so "
        "'a second wait' is excluded by the type system, not by a run. The pidfd path needs nightly; if no nightly "
        "toolchain is installed only the default (blocking pool) path is bound and the evidence says so.")
TECHNIQUE = "TLA+ model (TLC exhaustive + liveness) + spec-to-impl replay with real child processes and contract oracle"
DESIGN_REF = "3/C20"

BLOCK = 32768
BIN = "replay_process"
BIN_PIDFD = "replay_process_pidfd"
CHILD = "c20_child"
SHARDS = {"quick": 4, "thorough": 8}
# actions of the code before the repair (BlockingChildPipes = TRUE): fire only in the control config
OLD_BEHAVIOUR = ("PollWriteBlocksThread", "BlockedWriteProgress")
MODEL_KEYS = ("kind", "nin", "nout", "nerr", "wchunk", "rchunk", "mode", "hold", "gate", "pipein", "take", "status",
              "driver")


# --------------------------------------------------------------------------------------------
# behaviours
# --------------------------------------------------------------------------------------------
def prog_key(p):
    return json.dumps({k: p[k] for k in MODEL_KEYS}, sort_keys=True)


def group_outcomes(printed):
    """Terminal states of Gen_Process grouped by program (the wait path is not part of the key)."""
    by = {}
    for o in printed:
        by.setdefault(prog_key(o["prog"]), []).append(o)
    return by


def expectation(states):
    done = {s["done"] for s in states}
    if done == {True}:
        e = {"outcome": "complete"}
        for f in ("out", "err", "cin", "sent", "status"):
            vals = {json.dumps(s[f]) for s in states}
            if len(vals) == 1:
                e[f] = states[0][f]
        return e
    if done == {False}:
        e = {"outcome": "stuck"}
        vals = {s["blocked"] for s in states}
        if len(vals) == 1:
            e["blocked"] = states[0]["blocked"]
        return e
    return {"outcome": "either"}


def choose_helper(p, exp, i):
    """Real helper child for a program: standard tools where the prediction does not depend on the
    helper's buffer, the own helper (one process, exact one-block buffer) everywhere else."""
    robust = exp["outcome"] == "complete"
    kind = p["kind"]
    if kind == "echo":
        if robust and p["status"] == "c0":
            return ("own", "cat", "dd")[i % 3]
        return "own"
    if kind == "consumer":
        if robust and p["status"] == "c0":
            return ("own", "cksum")[i % 2]
        return "own"
    if kind == "producer":
        if robust:
            return ("own", "sh")[i % 2]
        return "own"
    return ("own", "sh")[i % 2]


def make_cases(by_prog):
    cases = []
    for i, key in enumerate(sorted(by_prog)):
        states = by_prog[key]
        p = json.loads(key)
        exp = expectation(states)
        cases.append({"id": i, "prog": p, "block": BLOCK, "helper": choose_helper(p, exp, i),
                      "wstyle": ("all", "loop")[(i // 3) % 2], "expect": exp})
    return cases


def pipeline_cases(tier, start_id):
    """`c20_child gated_produce | cat` through TryFrom<ChildStdout> for Stdio (outside the model): the pipe handed to
    the second child must be blocking again."""
    cases = []
    nouts = (1, 3) if tier == "quick" else (0, 1, 3, 5)
    rchunks = (1,) if tier == "quick" else (0, 1)
    for driver in ("iour", "poll"):
        for nout in nouts:
            for rc in rchunks:
                p = {"kind": "pipeline", "nin": 0, "nout": nout, "nerr": 0, "wchunk": 0, "rchunk": rc, "mode": "conc",
                     "hold": True, "gate": False, "pipein": False, "take": True, "status": "c0", "driver": driver}
                cases.append({"id": start_id + len(cases), "prog": p, "block": BLOCK, "helper": "own", "wstyle": "all",
                              "expect": {"outcome": "complete", "out": nout, "err": 0, "status": "c0"}})
    return cases


def random_cases(n, seed, start_id):
    """Seeded byte-exact programs (sizes and chunkings not aligned to anything); only programs that have to
    complete, so the expectation does not depend on the model."""
    rnd = random.Random(seed)
    cases = []

    def size(limit):
        c = rnd.random()
        if c < 0.15:
            return rnd.choice([0, 1, 4095, 4096, 4097, 65535, 65536, 65537])
        if c < 0.5:
            return rnd.randrange(0, min(limit, 70000) + 1)
        return rnd.randrange(0, limit + 1)

    def chunk(allow_zero=True):
        c = rnd.random()
        if allow_zero and c < 0.25:
            return 0
        if c < 0.5:
            return rnd.choice([1, 7, 512, 4096, 5000, 32768, 65536, 100000])
        return rnd.randrange(1, 200001)

    for i in range(n):
        driver = ("iour", "poll")[i % 2]
        kind = rnd.choice(["echo", "echo", "consumer", "producer", "producer"])
        status = rnd.choice(["c0", "c0", "c1", "c7", "c255", "s15", "s9", "s2"])
        p = {"kind": kind, "nin": 0, "nout": 0, "nerr": 0, "wchunk": 0, "rchunk": 0, "mode": "conc",
             "hold": False, "gate": False, "pipein": False, "take": True, "status": status, "driver": driver}
        b = {"nin": 0, "nout": 0, "nerr": 0, "wchunk": chunk(), "rchunk": chunk()}
        if b["rchunk"] != 0 and b["rchunk"] < 64:
            b["rchunk"] = 64 + b["rchunk"]          # keep the number of read calls bounded
        if kind == "echo":
            b["nin"] = size(1 << 20)
            p["hold"] = rnd.random() < 0.3
        elif kind == "consumer":
            b["nin"] = size(1 << 20)
            p["hold"] = rnd.random() < 0.3
        else:
            b["nout"] = size(1 << 20)
            b["nerr"] = size(1 << 19)
            p["mode"] = rnd.choice(["conc", "conc", "wwo"])
            if p["mode"] == "conc" and rnd.random() < 0.3:
                p["gate"] = p["hold"] = True
            if p["mode"] == "wwo":
                b["rchunk"] = 0
        if b["wchunk"] != 0 and b["nin"] // max(1, b["wchunk"]) > 400:
            b["wchunk"] = max(b["wchunk"], b["nin"] // 400 + 1)
        if b["rchunk"] != 0:
            vol = max(b["nin"], b["nout"], b["nerr"])
            if vol // b["rchunk"] > 2000:
                b["rchunk"] = vol // 2000 + 1
        helper = "own"
        if status == "c0" and not p["gate"]:
            helper = {"echo": rnd.choice(["own", "cat", "dd"]), "consumer": rnd.choice(["own", "cksum"]),
                      "producer": rnd.choice(["own", "sh"])}[kind]
        elif kind == "producer" and status[0] == "c":
            helper = rnd.choice(["own", "sh"])
        cases.append({"id": start_id + i, "prog": p, "block": BLOCK, "bytes": b, "helper": helper,
                      "wstyle": rnd.choice(["all", "loop"]), "expect": {"outcome": "complete"}})
    return cases


# --------------------------------------------------------------------------------------------
# harness
# --------------------------------------------------------------------------------------------
def nightly_available():
    try:
        p = subprocess.run(["rustc", "+nightly", "--version"], stdout=subprocess.PIPE, stderr=subprocess.PIPE,
                           text=True, timeout=60)
        return p.returncode == 0 and "nightly" in p.stdout
    except (OSError, subprocess.TimeoutExpired):
        return False


def build(pidfd):
    if not pidfd:
        vlib.cargo_build("hproc", [BIN, CHILD])
        return
    old = os.environ.get("RUSTUP_TOOLCHAIN")
    os.environ["RUSTUP_TOOLCHAIN"] = "nightly"
    try:
        vlib.cargo_build("hproc", [BIN_PIDFD, CHILD], features=["pidfd"])
    finally:
        if old is None:
            del os.environ["RUSTUP_TOOLCHAIN"]
        else:
            os.environ["RUSTUP_TOOLCHAIN"] = old


def replay_file(binname, path, timeout=1500):
    rc, out, err = vlib.run_bin(binname, [path], timeout=timeout)
    lines = vlib.jsonl(out)
    summary = [l for l in lines if l.get("type") == "summary"]
    if not summary:
        raise vlib.ToolError("%s produced no summary\n%s" % (binname, err[-2000:]))
    details = {}
    for l in lines:
        if l.get("type") in ("contract", "panic", "mismatch", "hang"):
            details.setdefault((l["type"], json.dumps(l["sig"], sort_keys=True)), l)
    return summary[0], details


def classify(run, summary, details, what):
    drift = 0
    for p in summary["problems"]:
        key = (p["type"], json.dumps(p["sig"], sort_keys=True))
        d = details.get(key, {})
        if p["sig"].get("check") == "environment":
            raise vlib.ToolError("%s: the harness could not run a case: %s" % (what, d.get("desc", "")))
        if p["type"] == "mismatch":
            drift += p["count"]
            vlib.log("DRIFT (%s): %d cases where implementation and model differ but the contract holds: %s %s" %
                     (what, p["count"], json.dumps(p["sig"]), d.get("desc", "")[:300]))
            continue
        for _ in range(p["count"]):
            if run.report(p["sig"], d.get("desc", ""), d.get("case")) == "violation":
                break
    if summary.get("skipped_after_hangs"):
        vlib.log("NOTE (%s): %d cases were skipped after repeated hangs (violations above)" %
                 (what, summary["skipped_after_hangs"]))
    return drift


def write_cases(path, cases):
    with open(path, "w") as f:
        for c in cases:
            f.write(json.dumps(c) + "\n")


def negative_controls(tmp, cases, binname):
    """The binding must notice (a) a child that really writes a wrong stream, (b) a child that really ends with
    another status (both: contract oracle on the real observation), (c) a flipped model expectation (drift)."""
    pick = [c for c in cases if c["prog"]["kind"] == "producer" and c["prog"]["mode"] in ("conc", "wwo")
            and c["prog"]["nout"] >= 1 and c["helper"] == "own" and not c["prog"]["hold"]
            and c["expect"]["outcome"] == "complete"][:6]
    if len(pick) < 6:
        raise vlib.ToolError("negative control: not enough producer cases")
    bad = []
    for i, c in enumerate(pick):
        c = json.loads(json.dumps(c))
        if i < 2:
            c["corrupt"] = True                      # the helper duplicates a word of its stdout
        elif i < 4:
            alt = ("c5", "c6") if i == 2 else ("s15", "s9")  # the child really ends differently
            c["child_status"] = alt[0] if c["prog"]["status"] != alt[0] else alt[1]
        else:
            c["expect"]["out"] = c["expect"].get("out", 0) + 1
        bad.append(c)
    path = os.path.join(tmp, "neg.jsonl")
    write_cases(path, bad)
    s, d = replay_file(binname, path, timeout=300)
    got = {}
    for p in s["problems"]:
        k = "%s/%s" % (p["type"], p["sig"].get("check"))
        got[k] = got.get(k, 0) + p["count"]
    if got.get("contract/stdout_content", 0) != 2:
        raise vlib.ToolError("negative control: corrupted child output was accepted (%s)" % got)
    if got.get("contract/status", 0) != 2:
        raise vlib.ToolError("negative control: wrong exit status was accepted (%s)" % got)
    if got.get("mismatch/count", 0) != 2:
        raise vlib.ToolError("negative control: flipped model expectation was accepted (%s)" % got)
    return got


# --------------------------------------------------------------------------------------------
def run(run, tier, replay):
    import time
    t0 = time.time()

    def phase(name):
        vlib.log("C20 [%5.1fs] %s" % (time.time() - t0, name))
    vlib.sany("Gen_Process")          # EXTENDS Process: SANY checks both modules in one go
    phase("sany done")
    have_nightly = nightly_available()
    tmp = vlib.scratch()
    try:
        if replay:
            obj = json.load(open(replay))
            p = os.path.join(tmp, "one.jsonl")
            write_cases(p, [obj["replay"]])
            impl = obj.get("signature", {}).get("wait_impl", "blocking")
            pidfd = impl == "pidfd" and have_nightly
            build(pidfd)
            s, d = replay_file(BIN_PIDFD if pidfd else BIN, p, timeout=300)
            classify(run, s, d, "replay")
            run.add_traces(s["cases"])
            run.cov["states"] = run.cov["transitions"] = 1
            run.sample(obj["replay"])
            return

        # ---- 1. model checking ------------------------------------------------------------
        # quick: MC_Process.cfg = small constants, safety + liveness on the fair spec; the exhaustive safety
        # run over the replayed program set is the Gen_Process run below (same invariants, both wait paths).
        # thorough: larger constants for both, plus the named scenarios as TLC counterexamples.
        sfx = "" if tier == "quick" else "_thorough"
        scenarios = {}
        # control: with the pipes left blocking (the code before the repair) the model must show the deadlock
        # of concurrent reader and writer on the polling driver, through the action PollWriteBlocksThread
        rs = vlib.tlc("Process", "MC_Process_pollstrict.cfg", timeout=600, coverage=False)
        if rs.violated != "NoDeadlockStrict" or rs.error or "PollWriteBlocksThread" not in rs.out:
            raise vlib.ToolError("control MC_Process_pollstrict.cfg: expected NoDeadlockStrict to be violated through "
                                 "PollWriteBlocksThread, got %s %s" % (rs.violated, rs.error))
        scenarios["MC_Process_pollstrict.cfg"] = "old behaviour (BlockingChildPipes): violates NoDeadlockStrict (expected)"
        if tier == "quick":
            r = vlib.tlc("Process", "MC_Process.cfg", timeout=900)
            vlib.require_model_ok(r, "Process/MC_Process")
            z = vlib.zero_actions(r, ignore=OLD_BEHAVIOUR)
            if z:
                raise vlib.ToolError("Process/MC_Process: actions never taken: %s" % z)
            run.add_model("Process/MC_Process.cfg (invariants + ExitLeadsToWait, MustCompleteCompletes on FairSpec)", r)
        else:
            r = vlib.tlc("Process", "MC_Process_thorough.cfg", timeout=1700)
            vlib.require_model_ok(r, "Process/MC_Process_thorough")
            z = vlib.zero_actions(r, ignore=OLD_BEHAVIOUR)
            if z:
                raise vlib.ToolError("Process/MC_Process_thorough: actions never taken: %s" % z)
            run.add_model("Process/MC_Process_thorough.cfg (invariants)", r)
            r = vlib.tlc("Process", "MC_Process_live_thorough.cfg", timeout=1700)
            vlib.require_model_ok(r, "Process/MC_Process_live_thorough")
            run.add_model("Process/MC_Process_live_thorough.cfg (ExitLeadsToWait, MustCompleteCompletes on FairSpec)", r)
            # named scenarios as TLC counterexamples: each config must violate exactly its invariant
            for cfg, inv in (("MC_Process_classic.cfg", "SequentialNeverStuck"),
                             ("MC_Process_held.cfg", "HeldStdinNeverStuck")):
                rs = vlib.tlc("Process", cfg, timeout=600, coverage=False)
                if rs.violated != inv or rs.error:
                    raise vlib.ToolError("scenario %s: expected the model to violate %s, got %s %s" %
                                         (cfg, inv, rs.violated, rs.error))
                scenarios[cfg] = "violates " + inv + " (expected)"
            # the old behaviour was harmless on io_uring
            rs = vlib.tlc("Process", "MC_Process_iourstrict.cfg", timeout=900, coverage=False)
            vlib.require_model_ok(rs, "Process/MC_Process_iourstrict")
            scenarios["MC_Process_iourstrict.cfg"] = "old behaviour, io_uring only: NoDeadlockStrict holds"

        phase("model checked")
        # ---- 2. behaviours ----------------------------------------------------------------
        printed = []
        g = vlib.tlc("Gen_Process", "Gen_Process%s.cfg" % sfx, timeout=1700, sink=printed.append)
        if g.error or g.violated:
            raise vlib.ToolError("Gen_Process: %s %s\n%s" % (g.error, g.violated, g.out[-2000:]))
        z = vlib.zero_actions(g, ignore=OLD_BEHAVIOUR)
        if z:
            raise vlib.ToolError("Gen_Process: actions never taken: %s" % z)
        run.add_model("Gen_Process/Gen_Process%s.cfg (exhaustive over the replayed programs, both wait paths)" % sfx, g)
        phase("behaviours generated")
        by_prog = group_outcomes(printed)
        cases = make_cases(by_prog)
        if len(cases) < 100:
            raise vlib.ToolError("Gen_Process printed only %d programs" % len(cases))
        # the named scenarios must be present in what the model predicts
        def has(pred):
            return any(pred(c["prog"], c["expect"]) for c in cases)
        need = {
            "classic deadlock (write all, then read)": lambda p, e: p["kind"] == "echo" and p["mode"] == "seq"
                and p["driver"] == "iour" and e["outcome"] == "stuck",
            "classic deadlock (wait first, then read)": lambda p, e: p["mode"] == "waitfirst" and e["outcome"] == "stuck",
            "classic deadlock (one pipe to EOF while the other fills)": lambda p, e: p["mode"] in ("seq", "seqerr")
                and p["kind"] == "producer" and e["outcome"] == "stuck",
            "WaitHoldsStdin": lambda p, e: not p["take"] and e["outcome"] == "stuck",
            "the former reproduction (one 6-block write_all to an echo, polling driver) now completes":
                lambda p, e: p["kind"] == "echo" and p["mode"] == "conc" and p["driver"] == "poll" and p["nin"] == 6
                and p["wchunk"] == 0 and e["outcome"] == "complete",
            "wait with untaken stdin completes when the child ignores stdin": lambda p, e: not p["take"]
                and p["pipein"] and e["outcome"] == "complete",
        }
        for name, pred in need.items():
            if not has(pred):
                raise vlib.ToolError("model lost the named scenario: " + name)
        for c in cases:
            p, e = c["prog"], c["expect"]
            if p["mode"] == "conc" and e["outcome"] != "complete":
                raise vlib.ToolError("model: concurrent program does not complete: %s" % p)
        extra = pipeline_cases(tier, len(cases))
        run.note("pipeline_programs", len(extra))
        if tier != "quick":
            extra += random_cases(400, vlib.seed(), len(cases) + len(extra))
        allcases = cases + extra
        run.note("programs_from_model", len(cases))
        run.note("random_byte_programs", sum(1 for c in extra if "bytes" in c))
        run.note("model_outcomes", {k: sum(1 for c in cases if c["expect"]["outcome"] == k)
                                    for k in ("complete", "stuck", "either")})
        run.note("model_exhaustive", True)
        for c in cases[:: max(1, len(cases) // 3)][:3]:
            run.sample(c, limit=3)
        path = os.path.join(tmp, "cases.jsonl")
        write_cases(path, allcases)

        # ---- 3. replay --------------------------------------------------------------------
        builds = [(False, BIN)]
        if have_nightly:
            builds.append((True, BIN_PIDFD))
        else:
            vlib.log("NOTE: no nightly toolchain - the linux_pidfd wait path is not replayed")
        run.note("wait_paths_bound", ["blocking"] + (["pidfd"] if have_nightly else []))
        for pidfd, _ in builds:
            build(pidfd)
        phase("harness built")
        # quick: every program once, alternating (in groups of 6, so that every helper / write style reaches
        # both) between the two wait paths - the prediction does not depend on the path; thorough: every
        # program on both.  Shards run in parallel.
        jobs = []
        for bi, (pidfd, binname) in enumerate(builds):
            mine = [c for c in allcases if tier != "quick" or len(builds) == 1 or (c["id"] // 6) % 2 == bi]
            nsh = max(1, SHARDS[tier] // len(builds))
            for k in range(nsh):
                part = mine[k::nsh]
                if part:
                    sp = os.path.join(tmp, "cases_%d_%d.jsonl" % (bi, k))
                    write_cases(sp, part)
                    jobs.append((pidfd, binname, sp))
        with concurrent.futures.ThreadPoolExecutor(max_workers=len(jobs)) as ex:
            futs = [ex.submit(replay_file, b, sp, 1700 if tier != "quick" else 600) for (_, b, sp) in jobs]
            results = [f.result() for f in futs]
        phase("replayed")
        total_drift = 0
        agg = {}
        for (pidfd, binname, _), (s, d) in zip(jobs, results):
            what = "wait=" + s.get("wait_impl", "?")
            if s.get("wait_impl") != ("pidfd" if pidfd else "blocking"):
                raise vlib.ToolError("%s was built with the wrong wait path (%s)" % (binname, s.get("wait_impl")))
            # the binding to the intended wait path is real: the pidfd build holds a pidfd per child
            if pidfd and s["pidfd_seen"] < s["cases"]:
                raise vlib.ToolError("pidfd build: only %d of %d children had a pidfd" % (s["pidfd_seen"], s["cases"]))
            if not pidfd and s["pidfd_seen"] != 0:
                raise vlib.ToolError("default build unexpectedly uses pidfds")
            if s["pipe_sizes"] != [65536]:
                raise vlib.ToolError("pipe size is %s, the block mapping assumes 65536" % s["pipe_sizes"])
            total_drift += classify(run, s, d, what)
            run.add_traces(s["cases"])
            a = agg.setdefault(what, {})
            for k in ("cases", "completed", "stuck_verified", "stuck_unverified", "thread_block_seen", "bytes_moved",
                      "steps", "skipped_after_hangs"):
                a[k] = a.get(k, 0) + (s.get(k) or 0)
            for k in ("by_driver", "by_helper"):
                for kk, vv in s.get(k, {}).items():
                    a.setdefault(k, {})[kk] = a.setdefault(k, {}).get(kk, 0) + vv
        for what, a in agg.items():
            if set(a.get("by_driver", {})) != {"iour", "poll"}:
                raise vlib.ToolError("%s: not both drivers were run: %s" % (what, a.get("by_driver")))
            run.note(what, a)
            if a["stuck_unverified"]:
                vlib.log("NOTE (%s): %d cases ended by the watchdog instead of a verified deadlock" %
                         (what, a["stuck_unverified"]))
        run.note("drift_cases", total_drift)
        if total_drift:
            vlib.log("DRIFT total: %d" % total_drift)

        # ---- 4. negative controls ---------------------------------------------------------
        got = negative_controls(tmp, cases, BIN)
        run.note("negative_controls", got)
        phase("negative controls done")
        run.note("scenario_configs", scenarios)
        run.assumptions += [
            "one abstract block stands for 32 KiB; the kernel pipe holds 64 KiB (F_GETPIPE_SZ checked every case)",
            "/proc/<pid>/syscall and the state letter tell what a task sleeps in",
            "the wait path does not influence the model's prediction (checked in MC_Process with both paths)",
        ]
    finally:
        shutil.rmtree(tmp, ignore_errors=True)
