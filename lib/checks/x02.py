"""X02 - descriptor readiness (compio-runtime fd: PollFd and AsyncFd), extension check.

1. TLC checks the implementation-shaped models FdReady (PollFd: the two Option<Submit<PollOnce>> slots, one waker
   per operation, poll_X_with loops, cancel tokens) and FdAsync (AsyncFd: one Read/Write operation per future)
   exhaustively: safety in every state, liveness on the fair specification (no state constraint: the models are
   finite by their guards), control configurations (model mutations, Strict) that must violate.
2. Gen_FdReady / Gen_FdAsync (Eager variant) print one replayable behaviour per reachable (state, incoming step);
   extra/harness/hx02 bin replay_fd steps every behaviour through the real PollFd / AsyncFd on a real AF_UNIX
   stream pair whose readiness the harness controls, on the io_uring and the polling driver, futures polled by hand
   with counting wakers: model expectation compared after every step (drift) and the property's own predicates
   evaluated on the real observation (violations).
3. stress_fd: reader and writer TASKS on one runtime and one descriptor against an irregular peer thread
   (contract only: both finish, both streams exact).
"""
import concurrent.futures as cf
import json
import os
import shutil

import vlib
import xlib

LEVEL = "model_checking"
TITLE = "Descriptor readiness: PollFd and AsyncFd wake exactly the right waiter and lose no byte"
STATEMENT = (
    "For every sequence of peer writes, peer half-close, send-buffer fill/drain, waiter polls, waiter drops and "
    "cancel-token cancellations on one stream descriptor, on the io_uring and on the polling driver "
    "(compio-runtime/src/fd/{mod.rs,poll_fd/mod.rs,poll_fd/unix.rs,async_fd/mod.rs,async_fd/unix.rs}, "
    "compio-runtime/src/future/future.rs Submit, compio-driver/src/sys/op/general/{iour,poll}.rs PollOnce/Read/Write): "
    "(a) a PollFd readiness future (read_ready/write_ready; accept_ready/connect_ready are the same code) never reports Ok unless the "
    "descriptor was ready in that direction at some moment since somebody began to wait for it, and a pending waiter "
    "of a direction that is ready is always eventually woken and, polled again, completes (no lost wake-up); "
    "(b) the read slot and the write slot are independent: a completion, drop or cancellation in one direction never "
    "wakes, completes, cancels or loses the waiter of the other direction; "
    "(c) AsyncRead/AsyncWrite of &PollFd (poll_read_with/poll_write_with: syscall first, readiness on WouldBlock, loop) "
    "and AsyncFd::read/write (one operation per call) deliver every byte of the peer's stream exactly once and in "
    "order to each reader and put every completed write on the wire exactly once, whole and untorn; a stale "
    "readiness result is absorbed by the retry loop; bytes are lost only to an AsyncFd read whose operation had "
    "completed when its future was dropped; "
    "(d) dropping a waiter never cancels or starves another waiter, and a waiter whose own token was not cancelled "
    "never receives a cancellation error. "
    "Known departures (recorded as findings, kept as named deviations in the model): two waiters of the SAME "
    "direction share one PollOnce whose single waker is overwritten (earlier waiter never woken); the ECANCELED "
    "result of a token-cancelled PollOnce stays in the slot and is handed to the next waiter; on io_uring the write "
    "PollOnce completes on EPOLLRDHUP (peer half-close) although the send buffer is full.")
TEXT = ("TLC explores every interleaving of waiter polls/drops/cancels, driver completions and peer/buffer events within "
        "small bounds on transcriptions of PollFd's two operation slots and of AsyncFd's per-call operations, checks the "
        "wake-up, independence, exactly-once and locality invariants in every state and the wake-up/serving liveness "
        "properties under fairness; every reachable (state, step) of the generator variant is replayed on the real "
        "PollFd/AsyncFd over a real socket pair on both drivers with hand-polled futures and counting wakers, comparing "
        "the predicted observation per step and evaluating the property on the real observation; free-running reader "
        "and writer tasks on one runtime complete the binding.")
NOTE = ("Bounds: 2-3 waiter slots, at most 1-2 peer units, 1-2 fills, one half-close; behaviours up to 7 (quick) / 9-10 "
        "(thorough) steps. Transport: AF_UNIX stream pair (4 KiB send buffer); pipes, TCP, peer close (EPIPE/SIGPIPE) and "
        "accept/connect are not exercised. Kernel timing races (data arriving between a drop and the processing of its "
        "cancellation; transient readiness) are explored by TLC but excluded from replay. Trusted: TLC, the kernel's "
        "poll(2)/FIONREAD as ground truth for readiness, the harness' stream bookkeeping.")
TECHNIQUE = "TLA+ models (TLC exhaustive, liveness, mutation controls) + spec-to-impl behaviour replay with contract oracle + free-running stress"
DESIGN_REF = "extension/X02"

JVM = ["-XX:+UseSerialGC", "-XX:-UseParallelGC"]
# short runs: C1 only (halves the CPU a TLC start costs); the big thorough configs keep the full JIT
JVM_SHORT = JVM + ["-XX:TieredStopAtLevel=1"]
BIG = {"MC_FdReady_thorough.cfg", "MC_FdAsync_thorough.cfg", "MC_FdAsync_mid.cfg", "Gen_FdReady_thorough.cfg",
       "Gen_FdReady_same_thorough.cfg"}

# (module, cfg, workers) exhaustive configs; liveness configs; controls (cfg -> what must be violated)
MC = {
    "quick": [("FdReady", "MC_FdReady.cfg", 1), ("FdReady", "MC_FdReady_tok.cfg", 2), ("FdReady", "MC_FdReady_same.cfg", 2),
              ("FdAsync", "MC_FdAsync.cfg", 2)],
    "thorough": [("FdReady", "MC_FdReady_thorough.cfg", 4), ("FdReady", "MC_FdReady.cfg", 1),
                 ("FdReady", "MC_FdReady_same.cfg", 1), ("FdReady", "MC_FdReady_three.cfg", 1),
                 ("FdAsync", "MC_FdAsync_mid.cfg", 2), ("FdAsync", "MC_FdAsync_thorough.cfg", 2)],
}
# MC_FdReady.cfg and MC_FdAsync.cfg check safety AND liveness in one run (SPECIFICATION FairSpec, INVARIANTS and
# PROPERTIES); the configs below are liveness only
LIVE = {
    "quick": [],
    "thorough": [("FdReady", "MC_FdReady_live_thorough.cfg", 2), ("FdReady", "MC_FdReady_live_same.cfg", 1)],
}
CONTROLS = {
    "quick": [("FdReady", "MC_FdReady_ctl_strict.cfg", "NoErr"), ("FdAsync", "MC_FdAsync_ctl_dup.cfg", "ExactlyOnce")],
    "thorough": [("FdReady", "MC_FdReady_ctl_strict.cfg", "NoErr"), ("FdReady", "MC_FdReady_ctl_cross.cfg", "NoErr"),
                 ("FdReady", "MC_FdReady_ctl_nowake.cfg", "CoveredModuloKnown"),
                 ("FdReady", "MC_FdReady_ctl_norearm.cfg", "CoveredModuloKnown"),
                 ("FdReady", "MC_FdReady_ctl_coveredstrict.cfg", "CoveredStrict"),
                 ("FdReady", "MC_FdReady_ctl_wokenstrict.cfg", "WokenStrict"),
                 ("FdAsync", "MC_FdAsync_ctl_nowake.cfg", "Covered"), ("FdAsync", "MC_FdAsync_ctl_dropall.cfg", "Covered"),
                 ("FdAsync", "MC_FdAsync_ctl_dup.cfg", "ExactlyOnce"), ("FdAsync", "MC_FdAsync_ctl_strict.cfg", "NoErr")],
}
GEN = {
    "quick": [("Gen_FdReady", "Gen_FdReady.cfg"), ("Gen_FdReady", "Gen_FdReady_same.cfg"),
              ("Gen_FdReady", "Gen_FdReady_deep_r.cfg"), ("Gen_FdReady", "Gen_FdReady_iour.cfg"),
              ("Gen_FdAsync", "Gen_FdAsync.cfg")],
    "thorough": [("Gen_FdReady", "Gen_FdReady_thorough.cfg"), ("Gen_FdReady", "Gen_FdReady_same_thorough.cfg"),
                 ("Gen_FdReady", "Gen_FdReady_deep_r.cfg"), ("Gen_FdReady", "Gen_FdReady_iour.cfg"),
                 ("Gen_FdReady", "Gen_FdReady_poll.cfg"), ("Gen_FdAsync", "Gen_FdAsync_thorough.cfg")],
}
# actions that cannot fire in a given variant (DrvPoll is the generator's driver step, the others the checker's)
IGNORE_ZERO = {"DrvPoll"}
TLC_TIMEOUT = {"quick": 900, "thorough": 2400}
STRESS_RUNS = {"quick": 15, "thorough": 150}


def _tlc(module, cfg, tier, workers=1, coverage=True, sink=None):
    return vlib.tlc(module, cfg, workers=workers, timeout=TLC_TIMEOUT[tier], coverage=coverage,
                    jvm=JVM if cfg in BIG else JVM_SHORT, sink=sink)


def _gen(module, cfg, tier, path):
    """Run a generator config, write the behaviours (prefix-free) to `path`; returns (printed, kept, TlcResult)."""
    rows = []
    r = _tlc(module, cfg, tier, workers=1, coverage=False, sink=rows.append)
    if r.error or r.violated:
        raise vlib.ToolError("%s/%s: %s %s\n%s" % (module, cfg, r.error, r.violated, r.out[-3000:]))
    if not rows:
        raise vlib.ToolError("%s/%s printed no behaviours" % (module, cfg))
    # a behaviour that is a strict prefix of another one adds nothing: every step is compared anyway
    keys = [json.dumps(o["steps"], sort_keys=True)[:-1] for o in rows]
    order = sorted(range(len(rows)), key=lambda i: keys[i])
    keep = []
    for a, b in zip(order, order[1:] + [None]):
        if b is not None and keys[b].startswith(keys[a] + ","):
            continue
        keep.append(a)
    keep.sort()
    with open(path, "w") as f:
        for i in keep:
            f.write(json.dumps(rows[i]) + "\n")
    return len(rows), len(keep), r


def _replay(path, drivers=None):
    """Run replay_fd over a behaviour file. The code under test may hang or crash: that is data. Returns
    (summary, details) with counts merged over the restarts after a hang."""
    total = {"cases": 0, "steps": 0, "polls": 0, "wakes": 0, "diverged_cases": 0, "problems": {}, "per_driver": {}}
    details = {}
    drivers = list(drivers or ["iour", "poll"])
    start = 0
    for attempt in range(4):
        args = [path, "--drivers", ",".join(drivers), "--from", str(start)]
        rc, out, err = xlib.run_bin("replay_fd", args, timeout=3000, check=False)
        lines = vlib.jsonl(out)
        summ = [l for l in lines if l.get("type") == "summary"]
        for l in lines:
            if l.get("type") in ("contract", "panic", "mismatch", "hang"):
                details.setdefault((l["type"], json.dumps(l["sig"], sort_keys=True)), l)
        if not summ:
            # the binary died without a summary (abort / segfault inside the code under test)
            key = ("panic", json.dumps({"check": "crash", "rc": rc}, sort_keys=True))
            total["problems"][key] = total["problems"].get(key, 0) + 1
            details.setdefault(key, {"type": "panic", "sig": {"check": "crash", "rc": rc},
                                     "desc": "replay_fd died with rc %s: %s" % (rc, err[-500:]), "case": None})
            break
        s = summ[-1]
        for k in ("cases", "steps", "polls", "wakes", "diverged_cases"):
            total[k] += s.get(k, 0)
        for d, n in (s.get("per_driver") or {}).items():
            if isinstance(n, int):
                total["per_driver"][d] = total["per_driver"].get(d, 0) + n
            else:
                total["per_driver"].setdefault(d, n)
        for p in s["problems"]:
            key = (p["type"], json.dumps(p["sig"], sort_keys=True))
            total["problems"][key] = total["problems"].get(key, 0) + p["count"]
        if rc == 3 and "hung_case" in s:
            # continue behind the case that hung, with the driver it hung on and the ones after it
            hd = s.get("hung_driver", drivers[0])
            drivers = drivers[drivers.index(hd):] if hd in drivers else drivers
            start = int(s["hung_case"]) + 1
            continue
        if rc != 0:
            raise vlib.ToolError("replay_fd failed rc=%s\n%s" % (rc, err[-3000:]))
        break
    return total, details


def _classify(run, total, details, what):
    """contract / panic / hang = property violations unless listed as known finding; mismatch = spec drift."""
    drift = 0
    for (ty, sigs), count in sorted(total["problems"].items()):
        d = details.get((ty, sigs), {})
        sig = json.loads(sigs)
        if ty == "mismatch":
            drift += count
            vlib.log("DRIFT (%s): %d cases where implementation and model differ while the contract holds: %s %s" %
                     (what, count, sigs, d.get("desc", "")[:300]))
            continue
        for _ in range(count):
            if run.report(sig, "%s: %s" % (ty, d.get("desc", "")), d.get("case")) == "violation":
                break
    return drift


def _stress(run, tier):
    n = STRESS_RUNS[tier]
    rc, out, err = xlib.run_bin("stress_fd", [vlib.seed(), n], timeout=3000, check=False)
    lines = vlib.jsonl(out)
    summ = [l for l in lines if l.get("type") == "summary"]
    if not summ:
        run.report({"check": "crash", "leg": "stress", "rc": rc}, "stress_fd died with rc %s: %s" % (rc, err[-500:]), None)
        return 0
    s = summ[-1]
    details = {}
    for l in lines:
        if l.get("type") in ("contract", "panic", "hang"):
            details.setdefault(json.dumps(l["sig"], sort_keys=True), l)
    for p in s["problems"]:
        d = details.get(json.dumps(p["sig"], sort_keys=True), {})
        for _ in range(p["count"]):
            if run.report(p["sig"], "%s: %s" % (p["type"], d.get("desc", "")), d.get("case")) == "violation":
                break
    run.note("stress_runs", s.get("runs"))
    run.note("stress_bytes", s.get("steps"))
    return s["cases"]


def _negative_control(path, tmp):
    """Flip expectations of 40 behaviours (a poll result, or the set of fired wakers after a driver step) and demand
    that the replay notices every one of them."""
    bad = os.path.join(tmp, "neg.jsonl")
    n = 0
    with open(path) as f, open(bad, "w") as g:
        for line in f:
            o = json.loads(line)
            if o.get("only", "any") not in ("any", None):
                continue
            hit = False
            for st in o["steps"]:
                if st["a"] == "poll" and st["res"] == "pending":
                    st["res"] = "ok" if o["fd"] == "pollfd" else "data"
                    hit = True
                    break
                if st["a"] == "drv" and st["x"]["wk"]:
                    st["x"]["wk"] = []
                    hit = True
                    break
            if hit:
                g.write(json.dumps(o) + "\n")
                n += 1
                if n >= 40:
                    break
    if n == 0:
        raise vlib.ToolError("negative control: no behaviour to corrupt")
    total, _ = _replay(bad, ["poll"])
    noticed = total["diverged_cases"]
    if noticed < n:
        raise vlib.ToolError("negative control: corrupted expectations were accepted (%d of %d noticed)" % (noticed, n))
    return n


def run(run, tier, replay):
    if tier != "quick":
        # (quick: every module is parsed by the TLC runs below anyway; a parse error fails them as a tool error)
        with cf.ThreadPoolExecutor(max_workers=4) as p0:
            for f in [p0.submit(vlib.sany, m) for m in ("FdReady", "Gen_FdReady", "FdAsync", "Gen_FdAsync")]:
                f.result()
    tmp = vlib.scratch()
    try:
        if replay:
            obj = json.load(open(replay))
            xlib.cargo_build("hx02", ["replay_fd", "stress_fd"])
            case = obj.get("replay")
            if isinstance(case, dict) and "steps" in case:
                p = os.path.join(tmp, "one.jsonl")
                with open(p, "w") as f:
                    f.write(json.dumps(case) + "\n")
                total, details = _replay(p)
                _classify(run, total, details, "replay")
                run.add_traces(total["cases"])
                run.sample(case)
            else:
                run.add_traces(_stress(run, "quick"))
            run.cov["states"] = run.cov["transitions"] = 1
            return

        # quick: everything starts at once (11 short JVM runs of 1-2 workers; on a loaded machine the wall time is
        # the CPU share, so queueing them would only add up); thorough: at most 6 at a time
        pool = cf.ThreadPoolExecutor(max_workers=12 if tier == "quick" else 6)
        # the harness build shares the machine with TLC: start it first
        build = pool.submit(xlib.cargo_build, "hx02", ["replay_fd", "stress_fd"])
        # 1. exhaustive configs (safety), liveness, controls
        mc = [(m, c, pool.submit(_tlc, m, c, tier, w)) for m, c, w in MC[tier]]
        gens = []
        for i, (m, c) in enumerate(GEN[tier]):
            path = os.path.join(tmp, "gen%d.jsonl" % i)
            gens.append((m, c, path, pool.submit(_gen, m, c, tier, path)))
        live = [(m, c, pool.submit(_tlc, m, c, tier, w, False)) for m, c, w in LIVE[tier]]
        ctl = [(m, c, inv, pool.submit(_tlc, m, c, tier, 1, False)) for m, c, inv in CONTROLS[tier]]

        fired = {}
        for m, c, fut in mc:
            r = fut.result()
            vlib.require_model_ok(r, "%s/%s" % (m, c))
            if not r.coverage:
                raise vlib.ToolError("%s/%s: no coverage information" % (m, c))
            for act, (_, t) in r.coverage.items():
                fired.setdefault(m, {})
                fired[m][act] = fired[m].get(act, 0) + t
            run.add_model("%s/%s" % (m, c), r)
        # vacuity: every action of a module must fire in at least one of its exhaustive configurations
        for m, acts in fired.items():
            z = sorted(a for a, t in acts.items() if t == 0 and a not in IGNORE_ZERO)
            if z:
                raise vlib.ToolError("%s: vacuous, actions never taken in any exhaustive configuration: %s" % (m, z))
        for m, c, fut in live:
            r = fut.result()
            vlib.require_model_ok(r, "%s/%s (liveness)" % (m, c))
            if "Temporal" in (r.error or "") or "temporal" in (r.out[-3000:] if r.violated else ""):
                raise vlib.ToolError("%s/%s: liveness violated\n%s" % (m, c, r.out[-3000:]))
            run.add_model("%s/%s (liveness, fair spec)" % (m, c), r)
        rejected = []
        for m, c, inv, fut in ctl:
            r = fut.result()
            seen = r.violated or ("temporal" if r.error and "emporal" in r.error else None)
            if r.violated != inv and not (inv == "WokenStrict" and (seen or "violated" in r.out)):
                raise vlib.ToolError("control %s/%s: expected the model to violate %s, got violated=%s error=%s" %
                                     (m, c, inv, r.violated, r.error))
            rejected.append("%s:%s" % (c, inv))
        run.note("control_configs_rejected", rejected)

        # 2. behaviours
        files = []
        gen_counts = {}
        for m, c, path, fut in gens:
            printed, kept, r = fut.result()
            gen_counts[c] = {"printed": printed, "replayed": kept, "states": r.distinct}
            files.append(path)
        run.note("generated_behaviours", gen_counts)
        run.note("exhaustive", True)
        build.result()
        pool.shutdown()

        # 3. replay on the real PollFd / AsyncFd, both drivers
        allp = os.path.join(tmp, "all.jsonl")
        with open(allp, "w") as out:
            for p in files:
                with open(p) as f:
                    shutil.copyfileobj(f, out)
        total, details = _replay(allp)
        drift = _classify(run, total, details, "replay_fd")
        run.add_traces(total["cases"])
        run.note("replay_cases_per_driver", total["per_driver"])
        run.note("replay_steps", total["steps"])
        run.note("replay_polls", total["polls"])
        run.note("replay_wakeups_observed", total["wakes"])
        run.note("drift_cases", drift)
        for d in ("iour", "poll"):
            if not isinstance(total["per_driver"].get(d), int) or total["per_driver"][d] == 0:
                raise vlib.ToolError("driver %s was not exercised: %s" % (d, total["per_driver"]))
        with open(allp) as f:
            for i, line in enumerate(f):
                if i % 2000 == 7:
                    run.sample(json.loads(line), limit=3)

        # 4. free-running tasks
        run.add_traces(_stress(run, tier))

        # 5. negative control
        run.note("negative_control_cases", _negative_control(allp, tmp))
        run.assumptions += [
            "poll(2) and FIONREAD on a dup of the descriptor are the ground truth for readiness",
            "an AF_UNIX stream pair with a 4 KiB send buffer stands for stream descriptors in general",
            "the peer consumes small writes at once, so the send buffer is either empty or filled by the harness",
        ]
    finally:
        shutil.rmtree(tmp, ignore_errors=True)
