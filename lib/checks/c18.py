"""C18 - the dispatcher starts every accepted task exactly once (compio-dispatcher).

1. TLC checks the implementation-shaped model Dispatcher (unbounded MPMC channel, worker loops in
   concurrent / sequential mode, dispatch / dispatch_blocking, join as its separate steps, worker
   faults) on small constants: the property's invariants in every state, liveness on the fair spec,
   and the one deviation found (join parked its joiner on the shared blocking pool; repaired in
   /repo d1f1c64, kept in the model as a switch) as an expected liveness counterexample of its own
   config.
2. record_dispatcher runs seeded random programs on the REAL Dispatcher; closures and callers log
   the events.  The property's predicates are evaluated directly on every recorded history
   (contract oracle, this module) and the concatenated histories are validated by TLC against
   Trace_Dispatcher, which reuses Dispatcher's actions (silent steps in between).
"""
import json
import os
import shutil
import threading
import time

import vlib

LEVEL = "model_checking"
TITLE = "The dispatcher starts every accepted task exactly once"
TEXT = ("TLC explores every interleaving of dispatching threads, worker loops (concurrent and sequential mode), "
        "task bodies, worker faults and the steps of join on an implementation-shaped model of compio-dispatcher "
        "(3 tasks x 2 workers x 2 senders) and checks exactly-once start on one worker, result delivery, "
        "cancellation instead of hanging after join, no overlap / everything finished in sequential mode, join "
        "after all workers exited with panic propagation, plus liveness on the fair spec. Histories recorded from "
        "the real Dispatcher under seeded random programs are checked against the property's predicates directly "
        "and validated by TLC against a trace spec that reuses the model's actions.")
NOTE = ("Receivers are also dropped unresolved (fire-and-forget: at once, later, and while every worker is parked on "
        "a gate so that the drop certainly precedes the start); every accepted closure must be started all the same. "
        "Bounds: model 3 tasks x 2 workers x 2 senders (faults, pool limits and dispatch_blocking on 2 tasks); "
        "real runs: 1-3 workers, 1-3 dispatching threads, <= 6 tasks, both drivers. Trusted below their contract: "
        "flume channel, futures oneshot, executor task polling (C04), the blocking pool's own protocol (C17; pool "
        "capacity is not validated on traces). Dispatch cannot race with join (join takes self). Worker faults are "
        "injected through the proactor capacity (all workers of a run fail). Hang = no progress for 30 s.")
TECHNIQUE = "TLA+ model (TLC exhaustive + liveness) + impl-to-spec trace validation with contract oracle"
DESIGN_REF = "3/C18"

BIN = "record_dispatcher"
ALL_ACTIONS_IGNORE = ("Next",)


# ---------------------------------------------------------------------------------------------
# contract oracle: the property's own predicates on one recorded history
# ---------------------------------------------------------------------------------------------

def split_runs(lines):
    """[(reset_event, [events])] in trace order."""
    runs = []
    for ev in lines:
        if ev["e"] == "reset":
            runs.append((ev, []))
        else:
            if not runs:
                raise vlib.ToolError("trace does not start with a reset event")
            runs[-1][1].append(ev)
    return runs


def oracle(reset, evs):
    """Returns a list of (kind, description) for one run. Only facts the property states."""
    out = []
    nw, conc, fault = reset["nw"], reset["concurrent"], reset["fault"]
    pos = {}

    def bad(kind, desc):
        out.append((kind, desc))

    dcall, dret, starts, finish, panic, recv, intact = {}, {}, {}, {}, {}, {}, set()
    rdrop = {}
    jcall = jret = None
    jres = None
    wpanics, wexits = [], []
    for n, ev in enumerate(evs):
        e = ev["e"]
        i = ev.get("id")
        if e == "dcall":
            if i in dcall:
                bad("harness", "task %s dispatched twice by the harness" % i)
            dcall[i] = (n, ev["k"], ev["s"])
        elif e == "dret":
            dret[i] = (n, ev["r"])
        elif e == "intact":
            intact.add(i)
        elif e == "start":
            starts.setdefault(i, []).append((n, ev["w"]))
        elif e == "finish":
            finish.setdefault(i, []).append(n)
        elif e == "panic":
            panic.setdefault(i, []).append(n)
        elif e == "recv":
            if i in recv:
                bad("harness", "receiver of task %s resolved twice" % i)
            recv[i] = (n, ev["r"], ev.get("val", True))
        elif e == "rdrop":
            if i in rdrop or i in recv:
                bad("harness", "receiver of task %s dropped twice / after it resolved" % i)
            rdrop[i] = n
        elif e == "jcall":
            jcall = n
        elif e == "jret":
            jret, jres = n, ev["r"]
        elif e == "wpanic":
            wpanics.append((n, ev["w"]))
        elif e == "wexit":
            wexits.append((n, ev["w"]))
        elif e == "bodyerr":
            bad("bodyerr", "task %s: an I/O / pool / wake step of the body failed: %s" % (i, ev.get("msg")))
    if jcall is None or jret is None:
        bad("harness", "run without join.call/join.ret")
        return out
    accepted = {i for i, (_, r) in dret.items() if r == "accepted"}
    rejected = {i for i, (_, r) in dret.items() if r == "rejected"}
    kind = {i: k for i, (_, k, _) in dcall.items()}
    for i in dcall:
        if i not in dret:
            bad("harness", "dispatch of task %s never returned" % i)

    # --- started exactly once, on exactly one worker runtime of this dispatcher
    for i, st in starts.items():
        if len(st) > 1:
            bad("start_twice", "closure %s was called %d times (threads %s)" % (i, len(st), [w for _, w in st]))
        if i not in dcall or st[0][0] < dcall[i][0]:
            bad("start_unknown", "closure %s started before it was dispatched" % i)
        for _, w in st:
            if kind.get(i) == "async" and not (1 <= w <= nw):
                bad("start_off_worker", "closure %s ran on a thread that is no worker of this dispatcher" % i)
        if i in rejected:
            bad("rejected_started", "closure %s was handed back in DispatchError and yet called" % i)
    for i in rejected:
        if kind.get(i) == "async" and fault == "none" and not wpanics:
            # Dispatcher::dispatch: "If all threads have panicked, this method will return an error"
            bad("rejected_without_cause", "dispatch of task %s was rejected although no worker thread died" % i)
        if i not in intact:
            bad("rejected_closure_lost", "DispatchError for task %s did not carry the closure that was sent" % i)
    for i, f in list(finish.items()) + list(panic.items()):
        if i not in starts or f[0] < starts[i][0][0]:
            bad("harness", "task %s finished without a start event" % i)

    # --- every accepted closure is started, whether or not the caller kept its receiver
    #     (fire-and-forget dispatch).  With healthy workers nothing can take an accepted closure
    #     away unstarted: dispatch() closures are all called before join returns (the last tick of
    #     block_on polls every freshly spawned task), dispatch_blocking closures by the end of the run.
    if fault == "none" and jres == "ok":
        for i in sorted(accepted):
            st = starts.get(i, [])
            forgot = " (its receiver had been dropped)" if i in rdrop else ""
            if not st:
                bad("accepted_never_started", "closure %s was accepted by %s and never called%s"
                    % (i, "dispatch" if kind.get(i) == "async" else "dispatch_blocking", forgot))
            elif kind.get(i) == "async" and st[0][0] > jret:
                bad("accepted_never_started", "closure %s was accepted and not called before join returned%s"
                    % (i, forgot))

    # --- result delivery / cancellation
    for i in accepted:
        if i in rdrop and i not in recv:
            continue            # fire and forget: nobody listens
        if i not in recv:
            bad("harness", "accepted task %s: receiver neither polled nor dropped by the harness" % i)
            continue
        n, r, val = recv[i]
        if i in finish:
            if r != "ok":
                bad("result_lost", "task %s ran to completion but its receiver reported %s" % (i, r))
            elif not val:
                bad("result_wrong", "receiver of task %s got another task's value" % i)
            elif n < finish[i][0]:
                bad("result_unexplained", "receiver of task %s got a value before the task finished" % i)
        else:
            if r == "ok":
                bad("result_unexplained", "receiver of task %s reported a value but the task never finished" % i)
            elif kind.get(i) == "async" and fault == "none" and i not in panic:
                # healthy workers, no body panic: only join (concurrent mode) can cancel it
                if n < jcall:
                    bad("canceled_without_cause",
                        "receiver of task %s reported cancellation before join was called" % i)
                elif not conc:
                    bad("seq_task_dropped",
                        "sequential mode: accepted task %s neither finished nor panicked" % i)
            elif kind.get(i) == "blocking" and i not in panic:
                bad("blocking_dropped", "dispatch_blocking task %s was accepted and dropped" % i)

    # --- sequential mode: no overlap on a worker, all finished before join returns
    if not conc:
        active = {}
        for n, ev in enumerate(evs):
            if ev["e"] == "start" and kind.get(ev["id"]) == "async":
                w = ev["w"]
                if active.get(w):
                    bad("seq_overlap", "sequential mode: worker %s started task %s while task %s was running"
                        % (w, ev["id"], sorted(active[w])))
                active.setdefault(w, set()).add(ev["id"])
            elif ev["e"] in ("finish", "panic"):
                for s in active.values():
                    s.discard(ev["id"])
        if jres == "ok":
            for i in accepted:
                if kind.get(i) != "async":
                    continue
                end = min(finish.get(i, [1 << 30])[0], panic.get(i, [1 << 30])[0])
                if end > jret:
                    bad("seq_unfinished_at_join",
                        "sequential mode: join returned before accepted task %s finished" % i)

    # --- join returns only after all workers have exited, and propagates a worker panic
    for i, st in starts.items():
        if kind.get(i) == "async":
            for n in [x for x, _ in st] + finish.get(i, []) + panic.get(i, []):
                if n > jret:
                    bad("activity_after_join", "task %s was active on a worker after join returned" % i)
    for n, w in wexits:
        if n > jret:
            bad("join_before_worker_exit", "join returned before worker thread %s ended" % w)
    if reset.get("late", 0):
        bad("activity_after_run", "%d events were logged after every thread of the run had been joined"
            % reset["late"])
    if jres == "err":
        bad("join_error", "join returned an io::Error")
    worker_died = bool(wpanics) or fault == "boot"
    if worker_died and jres != "panic":
        bad("worker_panic_swallowed", "a worker thread panicked but join returned %s" % jres)
    if jres == "panic" and not worker_died:
        bad("join_spurious_panic", "join panicked although no worker thread did")
    return out


# ---------------------------------------------------------------------------------------------

def _transient(r):
    """TLC unpacks its standard / community modules into /tmp/tlc-*; when another job cleans /tmp meanwhile the
    parse fails ("Cannot find source file for module ..."). That says nothing about the spec: retry."""
    return bool(r.error) and ("Cannot find source file for module" in r.out or
                              "Parsing or semantic analysis failed" in r.out and "***Parse Error***" not in r.out
                              and "Semantic errors" not in r.out)


def tlc_retry(*a, **kw):
    for _ in range(3):
        r = vlib.tlc(*a, **kw)
        if not _transient(r):
            return r
        time.sleep(3)
    return r


def read_trace(path):
    with open(path) as f:
        return [json.loads(l) for l in f if l.strip()]


def write_trace(path, lines):
    with open(path, "w") as f:
        for ev in lines:
            f.write(json.dumps(ev) + "\n")


MAX_HANGS = 3


def record(run, tmp, args, tag, programs, binpath=None, first=0):
    """Run the recorder. A hung run ends the recorder process (its threads cannot be removed); it is
    restarted behind that run. After MAX_HANGS hangs recording stops: the hangs are the result.
    Returns (trace path, problem lines, runs completed, events)."""
    trace = os.path.join(tmp, tag + ".ndjson")
    progs = os.path.join(tmp, tag + ".progs.jsonl")
    problems = []
    start = first
    cases = steps = hangs = 0
    while True:
        a = list(args) + ["--from", str(start), "--out", trace, "--programs", progs]
        rc, out, err = vlib.run_bin(binpath or BIN, a, timeout=3000)
        lines = vlib.jsonl(out)
        summ = [l for l in lines if l.get("type") == "summary"]
        if not summ:
            raise vlib.ToolError("%s produced no summary\n%s" % (BIN, err[-2000:]))
        summ = summ[0]
        cases += summ["cases"]
        steps += summ["steps"]
        for l in lines:
            if l.get("type") in ("hang", "panic", "contract", "mismatch"):
                problems.append(l)
            elif l.get("type") == "toolerr":
                raise vlib.ToolError("recorder: %s" % l.get("desc"))
        if summ.get("hang_at") is None or "--runs" not in args:
            break
        hangs += 1
        if hangs >= MAX_HANGS:
            vlib.log("C18: %d runs hung; recording stopped after run %d" % (hangs, summ["hang_at"]))
            break
        start = summ["hang_at"] + 1
    if os.path.exists(progs):
        with open(progs) as f:
            for l in f:
                o = json.loads(l)
                programs[o["run"]] = o["program"]
    return trace, problems, cases, steps


def validate(trace_lines, tmp, name):
    p = os.path.join(tmp, name + ".ndjson")
    write_trace(p, trace_lines)
    for _ in range(3):
        ok, r = vlib.validate_trace("Trace_Dispatcher", "Trace_Dispatcher.cfg", p, timeout=2400)
        if not _transient(r):
            break
        time.sleep(3)
    if r.error:
        raise vlib.ToolError("Trace_Dispatcher: TLC error: %s\n%s" % (r.error, r.out[-3000:]))
    first = None
    if not ok:
        if not r.printed:
            raise vlib.ToolError("Trace_Dispatcher: neither accepted nor an unmatched event\n%s" % r.out[-3000:])
        first = r.printed[0]["unmatched"]      # 1-based line number
    return ok, first, r


def validate_all(run, lines, tmp, flagged, programs, chunks=1):
    """Validate the concatenated histories; a rejected run is cut out and the rest re-validated.
    Returns (accepted runs, rejected runs, tlc states, tlc states generated, runs left unvalidated)."""
    runs = split_runs(lines)
    parts = [runs[k::chunks] for k in range(chunks)] if chunks > 1 else [runs]
    res = [None] * len(parts)

    def work(k):
        try:
            my = parts[k]
            acc, drift, states, gen = 0, [], 0, 0
            for _round in range(4):
                if not my:
                    break
                flat = []
                index = []
                for rs, evs in my:
                    index.append(len(flat))
                    flat.append(rs)
                    flat.extend(evs)
                ok, first, r = validate(flat, tmp, "val%d" % k)
                states += r.distinct
                gen += r.generated
                if ok:
                    acc += len(my)
                    my = []
                    break
                # which run holds the first unmatched event
                j = max(x for x in range(len(index)) if index[x] < first)
                rs, evs = my[j]
                acc += j
                drift.append((rs, evs, flat[first - 1]))
                my = my[j + 1:]
            # after 4 rejected runs the rest of the chunk stays unvalidated (reported by the caller)
            res[k] = (acc, drift, states, gen, len(my))
        except BaseException as e:      # noqa: B902  (re-raised in the caller's thread)
            res[k] = e

    ths = [threading.Thread(target=work, args=(k,)) for k in range(len(parts))]
    for t in ths:
        t.start()
    for t in ths:
        t.join()
    acc, drift, states, gen, left = 0, [], 0, 0, 0
    for x in res:
        if isinstance(x, BaseException):
            raise x
        acc += x[0]
        drift += x[1]
        states += x[2]
        gen += x[3]
        left += x[4]
    return acc, drift, states, gen, left


def build_controls(runs, both, all_runs=None):
    """Corrupt one recorded field of an otherwise valid history: name -> (trace, line that must be the
    first unmatched one, oracle kind that must be flagged)."""
    flat = []
    for rs, evs in runs:
        flat.append(rs)
        flat.extend(evs)
    # A: duplicate a start event
    ia = next((n for n, ev in enumerate(flat) if ev["e"] == "start"), None)
    # B: move a recv(ok) in front of the finish of its task
    ib = None
    for n, ev in enumerate(flat):
        if ev["e"] == "finish":
            for m in range(n + 1, len(flat)):
                if flat[m]["e"] == "reset":
                    break
                if flat[m]["e"] == "recv" and flat[m]["id"] == ev["id"] and flat[m]["r"] == "ok":
                    ib = (n, m)
                    break
        if ib:
            break
    expect = {}
    if ia is not None:
        expect["dupstart"] = (flat[:ia + 1] + [dict(flat[ia])] + flat[ia + 1:], (ia + 2, ia + 2), "start_twice")
    # C: a fire-and-forget closure that was accepted and never called: take a history in which the
    # receiver of a dispatch() closure was dropped and delete everything the closure logged
    for rs, evs in (all_runs if all_runs is not None else runs):
        if rs["fault"] != "none" or not any(e["e"] == "jret" and e["r"] == "ok" for e in evs):
            continue
        asy = {e["id"] for e in evs if e["e"] == "dcall" and e["k"] == "async"}
        vic = next((e["id"] for e in evs if e["e"] == "rdrop" and e["id"] in asy
                    and any(x["e"] == "start" and x["id"] == e["id"] for x in evs)), None)
        if vic is None:
            continue
        cut = [e for e in evs if not (e.get("id") == vic and e["e"] in ("start", "finish", "panic", "bodyerr"))]
        lo = 2 + next(n for n, e in enumerate(evs) if e["e"] == "start" and e["id"] == vic)
        hi = 2 + next(n for n, e in enumerate(cut) if e["e"] == "jret")
        expect["forgotten_not_started"] = ([rs] + cut, (lo, hi), "accepted_never_started")
        break
    if both and ib is not None:
        nfin, nrecv = ib
        expect["recv_before_finish"] = (flat[:nfin] + [flat[nrecv]] + flat[nfin:nrecv] + flat[nrecv + 1:],
                                        (nfin + 1, nfin + 1), "result_unexplained")
    return expect


def negative_controls(lines, tmp, both):
    """Started next to the real validation, on the first runs that satisfy the contract oracle."""
    clean = [(rs, evs) for rs, evs in split_runs(lines) if not oracle(rs, evs)]
    expect = build_controls(clean[:12], both, clean)
    results = {}

    def work(name):
        try:
            tr, where, _ = expect[name]
            ok, first, _r = validate(tr, tmp, "neg_" + name)
            results[name] = (ok, first)
        except BaseException as e:      # noqa: B902
            results[name] = e

    ths = [threading.Thread(target=work, args=(n,)) for n in expect]
    for t in ths:
        t.start()
    return ths, results, expect


def finish_negative_controls(run, ths, results, expect, both):
    """The corrupted trace must be rejected at the corrupted line (for a deleted start: between the place
    of the deleted event and the join.ret that can no longer happen) and the oracle must flag it."""
    for t in ths:
        t.join()
    if "dupstart" not in expect or "forgotten_not_started" not in expect or \
            (both and "recv_before_finish" not in expect):
        if run.violations:
            run.note("negative_controls", "skipped: no history without a contract violation to corrupt")
            return
        raise vlib.ToolError("negative control: no start / finish+recv / dropped-receiver events to corrupt "
                             "(have %s)" % sorted(expect))
    for name, (tr, where, okind) in expect.items():
        x = results[name]
        if isinstance(x, BaseException):
            raise x
        ok, first = x
        lo, hi = where
        if not ok and first < lo and run.violations:
            # the uncorrupted prefix is already rejected (the code under test misbehaves): inconclusive
            run.note("negative_control_" + name, "inconclusive: history rejected before the corrupted line")
            continue
        if ok or not (lo <= first <= hi):
            raise vlib.ToolError("negative control %s: corrupted trace %s (expected rejection at line %d..%d)"
                                 % (name, "accepted" if ok else "rejected at line %s" % first, lo, hi))
        kinds = set()
        for rs, evs in split_runs(tr):
            kinds |= {k for k, _ in oracle(rs, evs)}
        if okind not in kinds:
            raise vlib.ToolError("negative control %s: the contract oracle did not flag %s (got %s)"
                                 % (name, okind, sorted(kinds)))
    run.note("negative_controls", sorted(expect))


# ---------------------------------------------------------------------------------------------

def model_checking(tier, box):
    """Runs in background threads while the harness builds and records (two TLC at a time, 2 workers each)."""
    if tier == "quick":
        chains = [["MC_Dispatcher.cfg", "MC_Dispatcher_matrix.cfg", "SKIP"], ["MC_Dispatcher_live.cfg", "POOL1"]]
    else:
        chains = [["MC_Dispatcher_thorough.cfg", "POOL1", "SKIP"],
                  ["MC_Dispatcher_matrix_thorough.cfg", "MC_Dispatcher_drops_thorough.cfg",
                   "MC_Dispatcher_live_thorough.cfg"]]
    results = {}

    def chain(cfgs):
        try:
            for cfg in cfgs:
                if cfg == "POOL1":
                    # the repaired deviation (JoinerOnPool = TRUE, pinned behaviour) must still be what the
                    # model predicts: with a one-slot pool join never returns
                    r = tlc_retry("Dispatcher", "MC_Dispatcher_pool1.cfg", timeout=600, workers=2)
                    if "Temporal property JoinReturns was violated" not in r.out:
                        raise vlib.ToolError("Dispatcher pool1 control: expected a JoinReturns counterexample, "
                                             "got %s %s" % (r.violated, r.error))
                    results[cfg] = "JoinReturns violated as predicted (%d states)" % r.distinct
                    results["POOL1_cov"] = r.coverage
                elif cfg == "SKIP":
                    # control: a dispatcher that does not start a closure whose receiver was dropped
                    # (SkipIfReceiverGone) must violate "every accepted closure is started"
                    r = tlc_retry("Dispatcher", "MC_Dispatcher_skip.cfg", timeout=600, workers=2)
                    if r.violated != "AllStartedAtJoin":
                        raise vlib.ToolError("Dispatcher skip control: expected AllStartedAtJoin to be violated, "
                                             "got %s %s" % (r.violated, r.error))
                    results[cfg] = "AllStartedAtJoin violated as predicted (%d states)" % r.distinct
                    results["SKIP_cov"] = r.coverage
                else:
                    r = tlc_retry("Dispatcher", cfg, timeout=2700, workers=2)
                    vlib.require_model_ok(r, "Dispatcher/" + cfg)
                    results[cfg] = r
        except BaseException as e:      # noqa: B902
            results["error"] = e

    ths = [threading.Thread(target=chain, args=(c,)) for c in chains]
    for t in ths:
        t.start()
    for t in ths:
        t.join()
    if "error" in results:
        box["error"] = results["error"]
        return
    cov = dict(results.get("POOL1_cov", {}))     # JoinSpawnOnPool only exists in the pinned behaviour
    for a, (d, t) in results.get("SKIP_cov", {}).items():     # SkipStart only exists in the control
        od, ot = cov.get(a, (0, 0))
        cov[a] = (od + d, ot + t)
    out = []
    for c in chains:
        for cfg in c:
            if cfg in ("POOL1", "SKIP"):
                continue
            r = results[cfg]
            for a, (d, t) in r.coverage.items():
                od, ot = cov.get(a, (0, 0))
                cov[a] = (od + d, ot + t)
            out.append(("Dispatcher/" + cfg, r))
    zero = sorted(a for a, (d, t) in cov.items() if t == 0 and a not in ALL_ACTIONS_IGNORE)
    if zero:
        box["error"] = vlib.ToolError("Dispatcher: vacuous, actions never taken in any config: %s" % zero)
        return
    box["pool1_control"] = results["POOL1"]
    box["skip_control"] = results["SKIP"]
    box["models"] = out


def report_history_problems(run, lines, programs, flagged):
    nviol = 0
    for rs, evs in split_runs(lines):
        probs = oracle(rs, evs)
        if not probs:
            continue
        flagged.add(rs["run"])
        seen = set()
        for kind, desc in probs:
            if kind in seen:
                continue
            seen.add(kind)
            if kind == "harness":
                raise vlib.ToolError("recorded history is malformed (run %s): %s" % (rs["run"], desc))
            sig = {"site": "dispatcher", "kind": kind, "concurrent": rs["concurrent"], "fault": rs["fault"]}
            replay = {"run": rs["run"], "program": programs.get(rs["run"]), "events": evs}
            run.report(sig, "run %s (nw=%s concurrent=%s fault=%s): %s" %
                       (rs["run"], rs["nw"], rs["concurrent"], rs["fault"], desc), replay)
            nviol += 1
    return nviol


def run(run, tier, replay):
    for m in ("Dispatcher", "Trace_Dispatcher"):
        for attempt in range(3):
            try:
                vlib.sany(m)
                break
            except vlib.ToolError as e:
                if "Cannot find source file" not in str(e) or attempt == 2:
                    raise
                time.sleep(3)
    tmp = vlib.scratch()
    try:
        box = {}
        mc = None
        # Mutation trials (notes/C18.md): the recorder was built while /repo was mutated and /repo is
        # already restored; use that binary, skip the build and the (repo-independent) model checking.
        prebuilt = os.environ.get("C18_PREBUILT")
        if not replay and not prebuilt:
            mc = threading.Thread(target=model_checking, args=(tier, box))
            mc.start()
        try:
            t0 = time.time()
            if prebuilt:
                run.note("prebuilt_recorder", prebuilt)
            else:
                vlib.cargo_build("hdisp", [BIN])
            vlib.log("C18: harness built in %.0fs" % (time.time() - t0))
            t0 = time.time()
            programs = {}
            problems = []
            if replay:
                obj = json.load(open(replay))
                prog = os.path.join(tmp, "replay.json")
                with open(prog, "w") as f:
                    json.dump(obj["replay"], f)
                trace, problems, cases, steps = record(run, tmp, ["--replay", prog, "--repeat", "400"], "replay",
                                                       programs, prebuilt)
            else:
                nruns = 200 if tier == "quick" else 5000
                # the scenarios of the known findings, in their own processes, meanwhile: pool1
                # (deterministic, one-slot pool), poolrace and poolpanic (default limit, races, repeated)
                sc = {}
                # forget: fire-and-forget dispatches while every worker is parked on a gate (1..3 workers x
                # both modes x dispatch / dispatch_blocking); its histories join the validated trace
                scen = [("pool1", []), ("poolrace", ["--repeat", "60" if tier == "quick" else "1500"]),
                        ("poolpanic", ["--repeat", "120" if tier == "quick" else "3000"]),
                        ("forget", ["--repeat", "2" if tier == "quick" else "25"])]

                def scenario(name, extra):
                    try:
                        sc[name] = record(run, tmp, ["--scenario", name] + extra, name,
                                          programs if name == "forget" else {}, prebuilt, first=1000000)
                    except BaseException as e:      # noqa: B902
                        sc[name] = e
                sts = [threading.Thread(target=scenario, args=x) for x in scen]
                for t in sts:
                    t.start()
                # thorough: three recorder processes side by side (most of a run is sleeping)
                parts = 1 if tier == "quick" else 3
                bounds = [nruns * k // parts for k in range(parts + 1)]
                recs = [None] * parts

                def rec_part(k):
                    try:
                        recs[k] = record(run, tmp, ["--seed", str(vlib.seed()), "--runs", str(bounds[k + 1])],
                                         "main%d" % k, programs, prebuilt, first=bounds[k])
                    except BaseException as e:      # noqa: B902
                        recs[k] = e
                rts = [threading.Thread(target=rec_part, args=(k,)) for k in range(parts)]
                for t in rts:
                    t.start()
                for t in rts + sts:
                    t.join()
                trace = os.path.join(tmp, "main.ndjson")
                problems, cases, steps = [], 0, 0
                with open(trace, "w") as out:
                    for x in recs:
                        if isinstance(x, BaseException):
                            raise x
                        if os.path.exists(x[0]):
                            with open(x[0]) as f:
                                shutil.copyfileobj(f, out)
                        problems += x[1]
                        cases += x[2]
                        steps += x[3]
                for name, _x in scen:
                    if isinstance(sc[name], BaseException):
                        raise sc[name]
                    _t, p2, c2, _s = sc[name]
                    problems += p2
                    if name == "forget" and os.path.exists(_t):
                        with open(_t) as f, open(trace, "a") as out:
                            shutil.copyfileobj(f, out)
                    run.note("scenario_" + name, ("hang after %d runs" % c2) if any(p["type"] == "hang" for p in p2)
                             else "completed (%d runs)" % c2)
            vlib.log("C18: recorded in %.0fs" % (time.time() - t0))
            t0 = time.time()
            lines = read_trace(trace) if os.path.exists(trace) else []
            # harness-level observations: hangs, panics of the calling threads
            for p in problems:
                run.report(p["sig"], p.get("desc", ""), p.get("case"))
            if not lines:
                if run.violations:
                    run.cov["states"] = run.cov["transitions"] = 1
                    return
                raise vlib.ToolError("the recorder wrote no events")
            nrun = len(split_runs(lines))
            run.note("runs_recorded", nrun)
            run.note("events_recorded", len(lines) - nrun)
            # contract oracle on every history
            flagged = set()
            report_history_problems(run, lines, programs, flagged)
            # negative controls run next to the real validation
            ths, results, expect = negative_controls(lines, tmp, both=(tier != "quick"))
            acc, drift, states, gen, left = validate_all(run, lines, tmp, flagged, programs,
                                                         chunks=1 if tier == "quick" or replay else 4)
            run.note("runs_left_unvalidated", left)
            finish_negative_controls(run, ths, results, expect, tier != "quick")
            vlib.log("C18: %d runs validated by Trace_Dispatcher in %.0fs" % (acc, time.time() - t0))
            run.add_traces(acc)
            run.note("trace_validation_states", states)
            cfgs = {}
            for rs, _ in split_runs(lines):
                k = "nw=%d %s fault=%s" % (rs["nw"], "concurrent" if rs["concurrent"] else "sequential", rs["fault"])
                cfgs[k] = cfgs.get(k, 0) + 1
            run.note("runs_per_configuration", cfgs)
            outcomes = {}
            for ev in lines:
                if ev["e"] in ("recv", "dret", "jret"):
                    k = ev["e"] + ":" + ev["r"]
                    outcomes[k] = outcomes.get(k, 0) + 1
            run.note("observed_outcomes", outcomes)
            rs0, evs0 = split_runs(lines)[min(1, nrun - 1)]
            run.sample({"reset": rs0, "events": evs0[:12]})
            real_drift = []
            for rs, evs, ev in drift:
                if rs["run"] in flagged:
                    vlib.log("trace of run %s rejected by Trace_Dispatcher at %s (contract violation reported)"
                             % (rs["run"], json.dumps(ev)))
                else:
                    real_drift.append((rs, ev))
                    vlib.log("DRIFT: run %s is rejected by Trace_Dispatcher at %s although the contract holds"
                             % (rs["run"], json.dumps(ev)))
            run.note("drift_runs", len(real_drift))
        finally:
            if mc:
                t0 = time.time()
                mc.join()
                vlib.log("C18: waited %.0fs more for the model checker" % (time.time() - t0))
        if mc:
            if "error" in box:
                raise box["error"]
            for name, r in box["models"]:
                run.add_model(name, r)
            run.note("deviation_control", box["pool1_control"])
            run.note("receiver_drop_control", box["skip_control"])
        else:
            run.note("model_checking", "skipped (replay / prebuilt recorder)")
            run.cov["states"] = run.cov["transitions"] = max(1, states)
        run.assumptions += ["flume delivers every message to exactly one receiver in FIFO order and frees the queue "
                            "with the last handle",
                            "a worker thread dies only outside task polls (runtime build or driver poll failure)",
                            "dispatch cannot overlap join (join takes the dispatcher by value)"]
        if left and not run.violations:
            raise vlib.ToolError("Trace_Dispatcher rejected too many histories (%d runs left unvalidated) although "
                                 "the contract oracle is satisfied; binding lost" % left)
        if real_drift and not run.violations:
            raise vlib.ToolError("spec drift: %d recorded histories satisfy the contract but are rejected by "
                                 "Trace_Dispatcher (first: run %s at %s); re-synchronise the spec"
                                 % (len(real_drift), real_drift[0][0]["run"], json.dumps(real_drift[0][1])))
    finally:
        shutil.rmtree(tmp, ignore_errors=True)
