"""C06 - descriptors are closed exactly once, never in use, never leaked.

1. TLC: the implementation-shaped SharedFd protocol (spec/SharedFd.tla: one action per atomic step of
   compio-driver/src/fd.rs: Drop = check / wake / decrement, take() = swap / try_unwrap / register /
   try_unwrap / Pending / re-poll) in the unsync variant (methods atomic) and the sync variant (steps of
   different threads interleave): closed <= 1, closed => nobody else holds it and no operation uses it,
   no leak, and on the fair spec "everybody else released ~> take() returns". The deviations are named:
   SilentRelease and ForgetsHandle are repaired in /repo (switches; control configs with the old behaviour
   must violate), DropRace (sync) is open: a control run shows that it breaks the liveness clause and that
   the release protocol of Variant "fixed" satisfies it.
   spec/SharedFdProd.tla: descriptor-producing operations (accept / open / socket / pipe / multishot accept)
   through push / poll / pop / cancel / key drop / driver drop on both drivers:
   produced ~> delivered to the caller or closed (deviation DrvDropDiscardsCqe repaired in /repo; control config).
2. Binding:
   a. every sequential program of Gen_SharedFd replayed on SharedFd<Instrumented> (unsync AND sync build) and,
      for the file layer, on compio_fs::File / compio_net::TcpStream / UnixStream with close().await on both
      drivers, descriptor table observed;
   b. every interleaving of Gen_SharedFdSync replayed on the sync build through the schedule controller
      (threads park at the fd.* hooks), strong count compared at every hook; plus seeded free-running stress;
   c. every program of Gen_SharedFdProd on the real Proactor (io_uring and polling), /proc/self/fd compared
      before and after.
"""
import concurrent.futures as cf
import json
import os
import random
import shutil

import vlib

LEVEL = "model_checking"
TITLE = "Descriptors are closed exactly once, never in use, never leaked"
TEXT = ("TLC checks the clone/drop/take protocol of SharedFd step by step (single-threaded and multi-threaded variant) "
        "for at-most-one close, no close while a handle or operation in flight holds the descriptor, no leak and "
        "completion of close() once everybody else has let go, and a producer model (accept/open/socket/pipe, every "
        "cancel / key-drop / driver-drop moment on both drivers) for 'produced => delivered or closed'. Every program "
        "and every interleaving of the small models is replayed on the real SharedFd (both builds; the multi-threaded "
        "one through a schedule controller parked at hooks inside fd.rs), on File/TcpStream/UnixStream close() and on "
        "the real Proactor (descriptor table before/after). The close future is polled by hand with two counting wakers (re-polled with the same and "
        "with the other one: a future that moves between tasks) and the oracle asks for the waker of its LATEST poll. "
        "Compared with the model: the close counter, which of the two wakers was woken, the strong count at every hook and the "
        "process's descriptor table compared with the model and the property's predicates evaluated on the real "
        "observation.")
NOTE = ("Bounds: <= 3 (thorough: 4) other holders (handles + operations) and one closer, programs <= 8 methods; sync schedules: all "
        "interleavings of 2 holders + closer (quick) / a seeded sample of the 3-holder interleavings (thorough); producer "
        "programs: one operation, <= 2 polls, <= 2 connections. Drop's two loads (strong_count, waits) are one model step "
        "(the add-only hooks cannot separate them). The kernel is eager in the producer programs (completion caused by the "
        "harness on the ring's own thread). Sequentially consistent model: weak-memory reorderings are not explored. "
        "Three of the four genuine defects found were repaired in /repo (fix: commits, notes/C06.md); the drop race of the "
        "multi-threaded build is recorded as a known finding.")
TECHNIQUE = "TLA+ models (TLC exhaustive, liveness) + behaviour/schedule replay on real code with contract oracle"
DESIGN_REF = "3/C06"

# actions that cannot occur in a configuration (SharedFd.tla holds the repaired code, the code before the
# repairs (switches SilentRelease / ForgetsHandle) and the "fixed" release protocol)
FIXED_ONLY = {"FDropDec", "FDropNotify"}
REPAIRED = FIXED_ONLY | {"T2Release"}
OLD_SILENT = FIXED_ONLY | {"T2None", "CDropCheck", "CDropWake", "CDropDec"}
FIXED = {"DropCheck", "DropWake", "DropDec", "T2None", "CDropCheck", "CDropWake", "CDropDec"}


def _mc_jobs(tier):
    """(module, cfg, expected violated property or None, actions allowed to be absent)"""
    jobs = [
        # the code as it is now (silent release, forgotten handle and Driver::drop repaired)
        ("SharedFd", "MC_SharedFd_unsync.cfg", None, REPAIRED),
        ("SharedFd", "MC_SharedFd_file.cfg", None, REPAIRED),
        ("SharedFd", "MC_SharedFd_sync.cfg", None, REPAIRED),
        ("SharedFdProd", "MC_SharedFdProd.cfg", None, set()),
        # the open finding: the sync drop race breaks the liveness clause ...
        ("SharedFd", "MC_SharedFd_sync_strict.cfg", "Live", None),
        # ... and the release protocol that would repair it satisfies it
        ("SharedFd", "MC_SharedFd_fixed.cfg", None, FIXED),
        # controls: the code before each repair must violate
        ("SharedFd", "MC_SharedFd_unsync_old_silent.cfg", "Live", None),
        # control: a take() that registers its waker only once strands a close future that is re-polled
        # with another waker (the model tracks the identity of the waker of the LATEST poll)
        ("SharedFd", "MC_SharedFd_unsync_register_once.cfg", "Live", None),
        ("SharedFd", "MC_SharedFd_file_old_forgets.cfg", "NoLeakLive", None),
        ("SharedFdProd", "MC_SharedFdProd_old_drvdrop.cfg", "Delivered", None),
    ]
    if tier == "thorough":
        jobs += [
            ("SharedFd", "MC_SharedFd_unsync_thorough.cfg", None, REPAIRED),
            ("SharedFd", "MC_SharedFd_sync_thorough.cfg", None, REPAIRED),
            ("SharedFd", "MC_SharedFd_fixed_thorough.cfg", None, FIXED),
            ("SharedFd", "MC_SharedFd_unsync_old_silent_modulo.cfg", None, OLD_SILENT),
            ("SharedFdProd", "MC_SharedFdProd_old_drvdrop_modulo.cfg", None, set()),
        ]
    return jobs


def _run_mc(job):
    module, cfg, expect, absent = job
    r = vlib.tlc(module, cfg, workers=1, timeout=1500, coverage=expect is None)
    return job, r


def _gen(module, cfg, path):
    n = 0
    with open(path, "w") as f:
        def sink(o):
            nonlocal n
            n += 1
            f.write(json.dumps(o) + "\n")
        g = vlib.tlc(module, cfg, workers=1, timeout=1500, coverage=False, sink=sink)
    if g.error or g.violated or n == 0:
        raise vlib.ToolError("%s/%s: %s %s n=%d\n%s" % (module, cfg, g.error, g.violated, n, g.out[-2000:]))
    return n, g


class Died(Exception):
    """the harness process was killed by a signal while driving the code under test"""

    def __init__(self, binname, rc, tail):
        Exception.__init__(self, "%s died with signal %d" % (binname, -rc))
        self.binname, self.rc, self.tail = binname, rc, tail


def _run_bin(binname, args, timeout=2400):
    rc, out, err = vlib.run_bin(binname, args, timeout=timeout, check=False)
    lines = vlib.jsonl(out)
    summ = [l for l in lines if l.get("type") == "summary"]
    if not summ:
        if rc < 0:
            raise Died(binname, rc, err[-800:])
        raise vlib.ToolError("%s %s produced no summary (rc=%s)\n%s\n%s" % (binname, args, rc, out[-1500:], err[-1500:]))
    fatal = [l for l in lines if l.get("type") == "fatal"]
    if fatal:
        raise vlib.ToolError("%s: %s" % (binname, fatal[0].get("desc")))
    details = {}
    for l in lines:
        if l.get("type") in ("contract", "panic", "mismatch", "hang"):
            details.setdefault((l["type"], json.dumps(l["sig"], sort_keys=True)), l)
    return summ[-1], details


def _classify(run, summary, details, what):
    drift = 0
    for p in summary["problems"]:
        d = details.get((p["type"], json.dumps(p["sig"], sort_keys=True)), {})
        if p["type"] == "mismatch":
            drift += p["count"]
            vlib.log("DRIFT (%s): %d cases where implementation and model differ: %s %s" %
                     (what, p["count"], p["sig"], d.get("desc", "")[:300]))
            continue
        for _ in range(p["count"]):
            if run.report(p["sig"], "%s: %s" % (what, d.get("desc", "")), d.get("case")) == "violation":
                break
    return drift


def _subset(src, dst, k, rnd, keep=None):
    """seeded sample of k lines; lines for which keep(line) holds are all kept"""
    lines = open(src).read().splitlines()
    kept = [l for l in lines if keep and keep(l)]
    rest = [l for l in lines if not (keep and keep(l))]
    if len(rest) > k:
        rest = rnd.sample(rest, k)
    lines = kept + rest
    with open(dst, "w") as f:
        f.write("\n".join(lines) + "\n")
    return len(lines)


def run(run, tier, replay):
    for m in ("SharedFd", "Gen_SharedFd", "Gen_SharedFdSync", "SharedFdProd", "Gen_SharedFdProd"):
        vlib.sany(m)
    tmp = vlib.scratch()
    rnd = random.Random(vlib.seed())
    try:
        if replay:
            return _replay(run, replay, tmp)
        # ------------------------------------------------------------------ 1. model checking + generation
        p_unsync = os.path.join(tmp, "unsync.jsonl")
        p_file = os.path.join(tmp, "file.jsonl")
        p_sync = os.path.join(tmp, "sync.jsonl")
        p_sync2 = os.path.join(tmp, "sync2.jsonl")
        p_sync3 = os.path.join(tmp, "sync3.jsonl")
        p_prod = os.path.join(tmp, "prod.jsonl")
        with cf.ThreadPoolExecutor(max_workers=4) as pool:
            mc = [pool.submit(_run_mc, j) for j in _mc_jobs(tier)]
            gens = {
                "unsync": pool.submit(_gen, "Gen_SharedFd",
                                      "Gen_SharedFd.cfg" if tier == "quick" else "Gen_SharedFd_thorough.cfg", p_unsync),
                # quick: all programs <= 8 methods under one waker plus all programs <= 7 methods in which the
                # pending close future is re-polled with another waker once (two TLC runs side by side);
                # thorough: one bigger configuration with the migration
                "unsync_m": pool.submit(_gen, "Gen_SharedFd", "Gen_SharedFd_mig.cfg", p_unsync + ".m"),
                "file": pool.submit(_gen, "Gen_SharedFd", "Gen_SharedFd_file.cfg", p_file),
                # quick: every interleaving of two dropping holders and the closer, and of one holder that
                # drops or calls take() itself and the closer; thorough: two holders with take(), three holders
                "sync": pool.submit(_gen, "Gen_SharedFdSync",
                                    "Gen_SharedFdSync_drops.cfg" if tier == "quick" else "Gen_SharedFdSync_3.cfg", p_sync),
                "sync2": pool.submit(_gen, "Gen_SharedFdSync",
                                     "Gen_SharedFdSync_t2.cfg" if tier == "quick" else "Gen_SharedFdSync_full.cfg", p_sync2),
                # the pending close future is polled again with ANOTHER waker (moved to another task)
                "sync3": pool.submit(_gen, "Gen_SharedFdSync", "Gen_SharedFdSync_mig.cfg", p_sync3),
                "prod": pool.submit(_gen, "Gen_SharedFdProd",
                                    "Gen_SharedFdProd.cfg" if tier == "quick" else "Gen_SharedFdProd_thorough.cfg", p_prod),
            }
            for fut in mc:
                (module, cfg, expect, absent), r = fut.result()
                name = "%s/%s" % (module, cfg)
                if expect is None:
                    vlib.require_model_ok(r, name)
                    z = vlib.zero_actions(r, ignore=absent)
                    if z:
                        raise vlib.ToolError("%s: vacuous, actions never taken: %s" % (name, z))
                    run.add_model(name, r)
                else:
                    if r.error or r.violated != expect:
                        raise vlib.ToolError("%s: control run should violate %s (the named deviation), got %s / %s" %
                                             (name, expect, r.violated, r.error))
                    run.note("control_" + cfg[:-4], "violates %s as expected" % expect)
            counts = {}
            for k, fut in gens.items():
                counts[k], g = fut.result()
                run.note("generated_" + k, counts[k])
        if tier == "thorough":
            # all interleavings of 3 holders + closer and of 2 holders with take() and a migration are
            # generated; seeded samples are replayed
            p2 = os.path.join(tmp, "sync_s.jsonl")
            counts["sync_replayed"] = _subset(p_sync, p2, 3000, rnd)
            p_sync = p2
            p2b = os.path.join(tmp, "sync2_s.jsonl")
            counts["sync_replayed"] += _subset(p_sync2, p2b, 5000, rnd)
            p_sync2 = p2b
            p3 = os.path.join(tmp, "prod_s.jsonl")
            # every single-shot program, a seeded sample of the (many) multishot programs
            counts["prod_replayed"] = _subset(p_prod, p3, 15000, rnd, keep=lambda l: '"class": "multi"' not in l)
            p_prod = p3
        with open(p_unsync, "a") as f, open(p_unsync + ".m") as g2:
            if tier == "quick":
                shutil.copyfileobj(g2, f)
        # one schedule file: droppers, second take, task migration (the closer re-polls with another waker)
        with open(p_sync, "a") as f:
            for extra in (p_sync2, p_sync3):
                with open(extra) as g2:
                    shutil.copyfileobj(g2, f)
        run.note("exhaustive_programs", tier == "quick")
        for k in ("sync_replayed", "prod_replayed"):
            if k in counts:
                run.note(k, counts[k])

        # ------------------------------------------------------------------ 2. harness
        vlib.cargo_build("hfd", ["fd_replay", "fd_prod"])
        vlib.cargo_build("hfdsync", ["fd_replay_sync", "fd_sched_sync"])
        stress = 400 if tier == "quick" else 6000
        legs = [("SharedFd<Instrumented> unsync", "fd_replay", [p_unsync, "ins"]),
                ("SharedFd<Instrumented> sync build, sequential", "fd_replay_sync", [p_unsync, "ins"]),
                ("sync schedules", "fd_sched_sync", [p_sync, "--stress", str(stress), "--seed", str(vlib.seed())]),
                ("producers", "fd_prod", [p_prod])]
        for k in ("file", "tcp", "unix"):
            for d in ("iour", "poll"):
                legs.append(("%s.close() %s" % (k, d), "fd_replay", [p_file, k, d]))
        results = {}
        died = []
        with cf.ThreadPoolExecutor(max_workers=3) as pool:
            futs = {pool.submit(_run_bin, b, a): (name, b) for (name, b, a) in legs}
            for fut in cf.as_completed(futs):
                name, b = futs[fut]
                try:
                    results[name] = fut.result()
                except Died as e:
                    # memory unsafety in the code under test (e.g. a double close of the owned value) can take
                    # the process down: that is an observation, not a tool problem
                    died.append(name)
                    run.report({"site": name, "what": "process-died", "signal": -e.rc},
                               "%s: the harness process driving the real code was killed by signal %d\n%s" %
                               (name, -e.rc, e.tail), {"leg": name})
        drift = 0
        total = 0
        for name, b, a in legs:
            if name in died:
                continue
            summ, det = results[name]
            drift += _classify(run, summ, det, name)
            if summ.get("aborted"):
                # a blocking call of the code under test never returned (60-90 s without progress): reported above
                died.append(name)
                continue
            total += summ.get("program_runs", summ["cases"]) + summ.get("stress_iterations", 0)
            run.note("leg_" + name.replace(" ", "_"), {k: v for k, v in summ.items() if k not in ("type", "problems")})
        if died:
            run.add_traces(total)
            run.note("legs_died", died)
            return
        # bindings that must not be lost
        s_unsync = results["SharedFd<Instrumented> unsync"][0]
        if s_unsync.get("sync_build") is not False or results["SharedFd<Instrumented> sync build, sequential"][0].get("sync_build") is not True:
            raise vlib.ToolError("the two harness packages are not built against the unsync / sync variant")
        s_sched = results["sync schedules"][0]
        if s_sched["count_comparisons"] < s_sched["steps"] * 0.5:
            raise vlib.ToolError("schedule replay lost its binding: %d strong-count comparisons for %d steps" %
                                 (s_sched["count_comparisons"], s_sched["steps"]))
        run.add_traces(total)
        run.note("drift_cases", drift)
        run.note("sync_schedule_strands", s_sched["schedule_strands"])
        run.note("sync_stress_strands", s_sched["stress_strands"])
        with open(p_sync) as f:
            o = json.loads(f.readline())
            run.sample({"sync_schedule": [(s["r"], s["s"]) for s in o["steps"]], "strand": o["strand"]})
        with open(p_prod) as f:
            for i, line in enumerate(f):
                if i == 40:
                    o = json.loads(line)
                    run.sample({"producer_program": [s["a"] for s in o["steps"]], "driver": o["driver"],
                                "class": o["class"], "leaks": o["leaks"]})
                    break

        # ------------------------------------------------------------------ 3. negative controls
        # a. corrupted expectation: closes + 1 in the last step of 50 programs
        bad = os.path.join(tmp, "neg_unsync.jsonl")
        with open(p_unsync) as f, open(bad, "w") as g2:
            for i, line in enumerate(f):
                if i >= 50:
                    break
                o = json.loads(line)
                o["steps"][-1]["x"]["closed"] += 1
                g2.write(json.dumps(o) + "\n")
        sneg, _ = _run_bin("fd_replay", [bad, "ins"])
        nm = sum(p["count"] for p in sneg["problems"] if p["type"] == "mismatch")
        if nm < 50:
            raise vlib.ToolError("negative control a: corrupted expectations accepted (%d/50 noticed)" % nm)
        # a2. waker identity: exchange the expectation "which waker has been woken" in programs whose closer
        # re-polled with another waker
        bad = os.path.join(tmp, "neg_waker.jsonl")
        k = 0
        with open(p_unsync) as f, open(bad, "w") as g2:
            for line in f:
                if k >= 30:
                    break
                o = json.loads(line)
                hit = [st for st in o["steps"] if st["x"]["c"] == "pending" and st["x"]["wok"][0] != st["x"]["wok"][1]]
                if hit:
                    hit[0]["x"]["wok"].reverse()
                    g2.write(json.dumps(o) + "\n")
                    k += 1
        if k < 30:
            raise vlib.ToolError("negative control a2: only %d programs distinguish the two wakers" % k)
        sneg, _ = _run_bin("fd_replay", [bad, "ins"])
        nm = sum(p["count"] for p in sneg["problems"] if p["type"] == "mismatch")
        if nm < 30:
            raise vlib.ToolError("negative control a2: exchanged waker identities accepted (%d/30 noticed)" % nm)
        # b. a schedule whose expected strong count is wrong must be noticed by the controller
        bad = os.path.join(tmp, "neg_sync.jsonl")
        with open(p_sync) as f, open(bad, "w") as g2:
            for i, line in enumerate(f):
                if i >= 20:
                    break
                o = json.loads(line)
                o["steps"][0]["x"]["count"] += 1
                g2.write(json.dumps(o) + "\n")
        sneg, _ = _run_bin("fd_sched_sync", [bad])
        nm = sum(p["count"] for p in sneg["problems"] if p["type"] == "mismatch")
        if nm < 20:
            raise vlib.ToolError("negative control b: wrong strong counts accepted by the schedule replay (%d/20)" % nm)
        # c. producer programs with a predicted leak that does not happen must be noticed
        bad = os.path.join(tmp, "neg_prod.jsonl")
        k = 0
        with open(p_prod) as f, open(bad, "w") as g2:
            for line in f:
                o = json.loads(line)
                if o["leaks"] == 0 and k < 20:
                    o["leaks"] = 1
                    g2.write(json.dumps(o) + "\n")
                    k += 1
        sneg, _ = _run_bin("fd_prod", [bad])
        nm = sum(p["count"] for p in sneg["problems"] if p["type"] == "mismatch")
        if nm < 20:
            raise vlib.ToolError("negative control c: wrong leak predictions accepted (%d/20 noticed)" % nm)
        run.note("negative_controls", "corrupted close count, exchanged waker identity, strong count and leak "
                                      "prediction are all rejected")
        run.assumptions += [
            "sequentially consistent interleaving of the hooked atomic steps (no weak-memory reordering)",
            "Drop's strong_count and waits loads are one step",
            "producer programs: the kernel completes eagerly on the ring's own thread; pool jobs are waited for",
        ]
    finally:
        shutil.rmtree(tmp, ignore_errors=True)


def _replay(run, replay, tmp):
    obj = json.load(open(replay))
    sig = obj["signature"]
    case = obj["replay"]
    p = os.path.join(tmp, "one.jsonl")
    with open(p, "w") as f:
        f.write(json.dumps(case) + "\n")
    site = sig.get("site")
    vlib.cargo_build("hfd", ["fd_replay", "fd_prod"])
    vlib.cargo_build("hfdsync", ["fd_replay_sync", "fd_sched_sync"])
    if site == "producer":
        name, b, a = "producers", "fd_prod", [p]
    elif site == "sharedfd":
        if case.get("mode") == "stress":
            open(p, "w").close()
            name, b, a = "sync stress", "fd_sched_sync", [p, "--stress", "6000", "--seed", str(vlib.seed())]
        else:
            name, b, a = "sync schedules", "fd_sched_sync", [p]
    else:
        binname = "fd_replay_sync" if sig.get("build") == "sync" else "fd_replay"
        name, b, a = "%s %s" % (site, sig.get("driver", "")), binname, [p, site] + ([sig["driver"]] if "driver" in sig else [])
    summ, det = _run_bin(b, a)
    _classify(run, summ, det, name)
    run.add_traces(max(1, summ["cases"] + summ.get("stress_iterations", 0)))
    run.cov["states"] = run.cov["transitions"] = 1
    run.sample(case)
