"""C08 - File and pipe I/O matches the OS, identically on every driver (compio-fs over compio-driver).

1. TLC checks FileModel exhaustively (small constants): every API operation taken through each driver
   path the code has for it (io_uring entry / polling driver thread pool / polling readiness /
   blocking fallback) gives the result of the OS's own call; the four deviations found in the pinned tree
   (repaired by fix: commits) are switches of the model and the control configuration with the old
   behaviour must violate the invariant; sanity invariants of the reference model itself (length = max written end, reads are
   substrings, pipe FIFO).
2. Gen_FileModel enumerates behaviours (quick: every operation once from every initial state with the
   wide alphabet + all sequences of depth 3 over a narrow alphabet; thorough: deeper + seeded random
   sequences) and harness/hfs replay_file executes each on the real compio-fs under the behaviour's
   driver configuration and, in a second directory, with std::fs/libc.  Contract oracle: compio's
   result, error kind, buffer bytes and lengths, file content read back through std::fs and the final
   namespace equal the OS leg.  Model/OS disagreement = tool error; model/impl disagreement = drift.
"""
import json
import os
import shutil
import tempfile
import threading

import vlib

LEVEL = "model_checking"
TITLE = "File and pipe I/O matches the OS, identically on every driver"
TEXT = ("TLC explores every sequence of file, open-option, directory-utility and pipe operations within small bounds on "
        "a reference model of the OS semantics in which each operation is executed through the driver path the code "
        "has for it (io_uring entry, polling driver thread pool / readiness, blocking fallback) with kernel parameters "
        "derived as the code derives them, and checks that every path gives the OS result. Every generated behaviour "
        "is replayed on the real compio-fs under the io_uring driver, the polling driver and a configuration forcing "
        "the blocking fallback, and on std::fs/libc; results, error kinds, buffer contents and lengths, file contents "
        "and the final namespace must equal the OS leg.")
NOTE = ("Bounds: files <= 4 bytes initially, offsets 0..5 and u64::MAX, lengths 0..3, <= 3-4 operations (quick) / 4-6 "
        "(thorough), buffer shapes exact/spare/partial, 1-2 vectored members, all 64 open-option combinations x O_TMPFILE "
        "x modes {0666,0640} plus {0600,0444,0660} on creating opens (permission bits of the opened inode are part of "
        "the result, umask fixed to 022), 6 path "
        "names. Identity across drivers is decided through the common OS reference. The blocking fallback can only be "
        "forced by a harness wrapper around the real OpCode (the driver chooses it by kernel probe); ReadAt/WriteAt/"
        "Sync have no blocking fallback on io_uring. Scratch directories live on tmpfs (quick) and additionally on the "
        "disk-backed temp dir (thorough). Linux only; error codes compared as kinds.")
TECHNIQUE = "TLA+ reference model (TLC exhaustive) + spec-to-impl behaviour replay on three driver configurations with OS oracle"
DESIGN_REF = "3/C08"

BIN = "replay_file"
PROBLEMS = ("contract", "panic", "hang", "mismatch", "modelerr")
# every operation of the model must have been replayed on every driver configuration
ALL_OPS = {"read_at", "write_at", "readv_at", "writev_at", "cread", "cwrite", "set_len", "sync_all", "sync_data",
           "metadata", "open", "close", "create_dir", "create_dir_all", "remove_file", "remove_dir", "rename",
           "hard_link", "symlink", "fs_read", "fs_write", "path_meta", "path_lmeta", "pipe_create", "pread", "preadv",
           "pwrite", "pwritev", "close_tx", "close_rx"}


# operations whose io_uring OpCode has a blocking fallback (forced in the iour_blk configuration)
FALLBACK_OPS = {"open", "set_len", "metadata", "create_dir", "remove_file", "remove_dir", "rename", "hard_link",
                "symlink", "path_meta", "path_lmeta", "pipe_create"}


def fs_scratch():
    """directory for the per-case temp directories: tmpfs when available (fsync on a disk dominates otherwise)"""
    base = "/dev/shm" if os.path.isdir("/dev/shm") and os.access("/dev/shm", os.W_OK) else None
    return tempfile.mkdtemp(prefix="verif_c08_", dir=base)


def replay_file(path, scratch):
    rc, out, err = vlib.run_bin(BIN, [path, scratch], timeout=2400)
    lines = vlib.jsonl(out)
    summary = [l for l in lines if l.get("type") == "summary"]
    if not summary:
        raise vlib.ToolError("%s produced no summary\n%s" % (BIN, err[-2000:]))
    details = {}
    for l in lines:
        if l.get("type") in PROBLEMS:
            details.setdefault((l["type"], json.dumps(l["sig"], sort_keys=True)), l)
    return summary[0], details


def classify(run, summary, details, what):
    drift = 0
    for p in summary["problems"]:
        d = details.get((p["type"], json.dumps(p["sig"], sort_keys=True)), {})
        if p["type"] == "modelerr":
            raise vlib.ToolError("%s: the reference model disagrees with the OS (fix the model): %s\n%s" %
                                 (what, d.get("desc", "")[:1500], json.dumps(d.get("case", {}).get("steps"))[:1500]))
        if p["type"] == "mismatch":
            drift += p["count"]
            vlib.log("DRIFT (%s): %d steps where implementation and model differ but the contract holds: %s" %
                     (what, p["count"], d.get("desc", "")[:400]))
            continue
        for _ in range(p["count"]):
            if run.report(p["sig"], d.get("desc", ""), d.get("case")) == "violation":
                break
    return drift


def _parallel(jobs):
    """run TLC jobs concurrently (one worker each); returns results in order"""
    res = [None] * len(jobs)
    errs = []

    def go(i, fn):
        try:
            res[i] = fn()
        except Exception as e:  # noqa: BLE001
            errs.append(e)
    ts = [threading.Thread(target=go, args=(i, fn)) for i, fn in enumerate(jobs)]
    for t in ts:
        t.start()
    for t in ts:
        t.join()
    if errs:
        raise errs[0]
    return res


def _gen(cfg, path, stats, **kw):
    """stream the behaviours of one Gen config into `path`; collect coverage statistics"""
    with open(path, "w") as f:
        def sink(o):
            stats["n"] += 1
            for st in o["steps"]:
                stats["pairs"].add((o["drv"], st["op"]["o"], st["path"]))
                if st["dev"] and st["res"] != st["ref"]:
                    stats["dev"][st["op"]["o"] + "@" + st["path"]] = stats["dev"].get(st["op"]["o"] + "@" + st["path"], 0) + 1
            if stats["n"] % 3001 == 1:
                stats["samples"].append({"grp": o["grp"], "drv": o["drv"], "steps": o["steps"]})
            f.write(json.dumps(o) + "\n")
        g = vlib.tlc("Gen_FileModel", cfg, coverage=False, sink=sink, **kw)
    if g.error or g.violated:
        raise vlib.ToolError("Gen_FileModel/%s: %s %s\n%s" % (cfg, g.error, g.violated, g.out[-3000:]))
    return g


def _new_stats():
    return {"n": 0, "pairs": set(), "dev": {}, "samples": []}


def run(run, tier, replay):
    import time
    t0 = time.time()
    phases = {}

    def mark(name):
        nonlocal t0
        phases[name] = round(time.time() - t0, 1)
        t0 = time.time()
    _parallel([lambda: vlib.sany("FileModel"), lambda: vlib.sany("Gen_FileModel")])
    mark("sany")
    tmp = vlib.scratch()
    fss = fs_scratch()
    try:
        if replay:
            obj = json.load(open(replay))
            p = os.path.join(tmp, "one.jsonl")
            with open(p, "w") as f:
                f.write(json.dumps(obj["replay"]) + "\n")
            vlib.cargo_build("hfs", [BIN])
            s, d = replay_file(p, fss)
            classify(run, s, d, "replay")
            run.add_traces(s["cases"])
            run.cov["states"] = run.cov["transitions"] = 1
            run.sample({"steps": obj["replay"].get("steps")})
            return
        quick = tier == "quick"
        # ---- 1. model checking + behaviour generation (TLC jobs side by side, <= 4 workers in total) ----
        mc_cfgs = ["MC_FileModel.cfg"] if quick else ["MC_FileModel_thorough.cfg", "MC_FileModel_deep.cfg"]
        gens = [("Gen_FileModel.cfg", {}), ("Gen_FileModel_deep.cfg", {})] if quick else \
               [("Gen_FileModel.cfg", {}), ("Gen_FileModel_deep4.cfg", {}),
                ("Gen_FileModel_thorough.cfg", {"simulate": 800, "depth": 9})]
        stats = [_new_stats() for _ in gens]
        paths = [os.path.join(tmp, "gen%d.jsonl" % i) for i in range(len(gens))]
        build = [None]
        mc_jobs = [lambda c=c: vlib.tlc("FileModel", c, workers=1 if quick else 2, timeout=2400) for c in mc_cfgs]
        gen_jobs = [lambda i=i: _gen(gens[i][0], paths[i], stats[i], workers=1, timeout=2400, **gens[i][1])
                    for i in range(len(gens))]
        build_job = [lambda: build.__setitem__(0, vlib.cargo_build("hfs", [BIN]))]
        # control: with the four repaired deviations switched on (the pinned tree's behaviour) PathsAgree must fail
        ctl_jobs = [lambda: vlib.tlc("FileModel", "MC_FileModel_old.cfg", workers=1, timeout=600, coverage=False)]
        if quick:
            out = _parallel(mc_jobs + gen_jobs + ctl_jobs + build_job)
        else:       # two phases so that never more than 4 TLC workers run
            out = _parallel(mc_jobs + build_job)[:len(mc_jobs)]
            mark("model_checking")
            out += _parallel(gen_jobs + ctl_jobs)
            r3 = vlib.tlc("FileModel", "MC_FileModel_oldknown.cfg", workers=2, timeout=600)
            vlib.require_model_ok(r3, "FileModel/MC_FileModel_oldknown.cfg")
            # model-level mutation control: OpenFile::call passing the mode only together with O_CREAT
            r4 = vlib.tlc("FileModel", "MC_FileModel_mut_mode.cfg", workers=2, timeout=600, coverage=False)
            if r4.violated != "PathsAgree":
                raise vlib.ToolError("mutation control MC_FileModel_mut_mode.cfg: expected PathsAgree to be violated, got %s %s"
                                     % (r4.violated, r4.error))
        mark("tlc_and_build")
        for c, r in zip(mc_cfgs, out):
            vlib.require_model_ok(r, "FileModel/" + c)
            z = vlib.zero_actions(r)
            if z:
                raise vlib.ToolError("FileModel/%s: actions never taken: %s" % (c, z))
            run.add_model("FileModel/" + c, r)
        for (c, kw), g, st in zip(gens, out[len(mc_cfgs):len(mc_cfgs) + len(gens)], stats):
            if st["n"] == 0:
                raise vlib.ToolError("Gen_FileModel/%s printed no behaviours" % c)
            if not kw:        # exhaustive generation also checked PathsAgree and Sanity in every state
                run.add_model("Gen_FileModel/" + c, g)
            run.note("behaviours_" + c, st["n"])
            for s in st["samples"][:2]:
                run.sample(s, limit=4)
        r2 = out[len(mc_cfgs) + len(gens)]
        if r2.violated != "PathsAgree":
            raise vlib.ToolError("old-behaviour control: expected FileModel with the repaired deviations switched on to "
                                 "violate PathsAgree, got %s %s" % (r2.violated, r2.error))
        devs = {}
        pairs = set()
        for st in stats:
            pairs |= st["pairs"]
            for k, v in st["dev"].items():
                devs[k] = devs.get(k, 0) + v
        if devs:
            raise vlib.ToolError("the generation configs predict deviations although Devs is empty: %s" % devs)
        run.note("deviation_steps_generated", devs)
        for drv in ("iour", "poll", "iour_blk"):
            want = FALLBACK_OPS if drv == "iour_blk" else ALL_OPS
            missing = sorted(want - {o for (d, o, pth) in pairs if d == drv and (drv != "iour_blk" or pth == "blocking_fallback")})
            if missing:
                raise vlib.ToolError("operations never generated for driver %s: %s" % (drv, missing))
        run.note("op_path_pairs", sorted("%s:%s@%s" % p for p in pairs))
        # ---- 2. replay on the real crates -------------------------------------------------------
        cases = os.path.join(tmp, "cases.jsonl")
        with open(cases, "w") as f:
            for p in paths:
                with open(p) as g:
                    shutil.copyfileobj(g, f)
            for drv in ("iour", "poll", "iour_blk"):     # more than the pipe capacity (64 KiB), once per driver
                f.write(json.dumps({"grp": "bigpipe", "drv": drv, "size": 100000 if quick else 1000000, "steps": []}) + "\n")
        s, d = replay_file(cases, fss)
        if s.get("aborted"):
            vlib.log("replay aborted by the watchdog (an operation did not complete)")
        mark("replay")
        drift = classify(run, s, d, "Gen_FileModel")
        run.add_traces(s["cases"])
        run.note("replay_steps", s["steps"])
        run.note("behaviours_per_driver", s.get("per_driver"))
        run.note("drift_steps", drift)
        run.note("exhaustive", quick)
        if not quick:
            # the depth-1 wide file once more on the disk-backed temp directory (real fsync, real file system)
            disk = os.path.join(tmp, "fs")
            s2, d2 = replay_file(paths[0], disk)
            classify(run, s2, d2, "Gen_FileModel on " + tmp)
            run.add_traces(s2["cases"])
            run.note("behaviours_on_disk_backed_dir", s2["cases"])
        # ---- 3. negative control: corrupt expectations, the machinery must notice every one -----
        bad = os.path.join(tmp, "neg.jsonl")
        k = 0
        elig = 0
        with open(paths[0]) as f, open(bad, "w") as g:
            for line in f:
                o = json.loads(line)
                st = o["steps"][-1]
                if st["dev"] or st["res"]["e"] != "":
                    continue
                elig += 1
                if elig % 37:                 # spread over groups and drivers
                    continue
                st["res"]["n"] += 1           # model expectation off by one -> must be seen as drift
                g.write(json.dumps(o) + "\n")
                k += 1
                if k >= 60:
                    break
        sneg, _ = replay_file(bad, fss)
        nm = sum(p["count"] for p in sneg["problems"] if p["type"] == "mismatch")
        if run.violations:
            # the implementation already violates the contract in this run: the corrupted cases may fail as
            # contract problems instead of drift, so the control says nothing (the run exits 1 anyway)
            run.note("negative_control", "skipped: violations present")
            return
        if k < 30 or nm < k:
            raise vlib.ToolError("negative control: corrupted expectations were accepted (%d of %d noticed)" % (nm, k))
        bad2 = os.path.join(tmp, "neg2.jsonl")
        k2 = 0
        with open(paths[0]) as f, open(bad2, "w") as g:
            for line in f:
                o = json.loads(line)
                st = o["steps"][-1]
                if st["dev"] or st["ref"]["e"] != "":
                    continue
                st["ref"]["n"] += 1           # reference off by one -> the OS sanity leg must object
                g.write(json.dumps(o) + "\n")
                k2 += 1
                if k2 >= 20:
                    break
        sneg2, _ = replay_file(bad2, fss)
        nm2 = sum(p["count"] for p in sneg2["problems"] if p["type"] == "modelerr")
        if nm2 < k2:
            raise vlib.ToolError("negative control: a corrupted OS reference was accepted (%d of %d noticed)" % (nm2, k2))
        # permission bits: a successful open of a created / O_TMPFILE inode with the predicted bits changed to
        # those of the same open without its mode (what the kernel gives for mode 0) must be noticed, on every driver
        bad3 = os.path.join(tmp, "neg3.jsonl")
        k3 = {}
        with open(paths[0]) as f, open(bad3, "w") as g:
            for line in f:
                o = json.loads(line)
                st = o["steps"][-1]
                opt = st["op"]["opt"]
                if st["op"]["o"] != "open" or st["res"]["e"] != "" or st["res"]["n"] == 0 or \
                        not (opt["tmp"] or opt["c"] or opt["cn"]) or o["init"]["ns"]["f"]["k"] == "file" and not opt["tmp"]:
                    continue
                key = (o["drv"], opt["tmp"])
                if k3.get(key, 0) >= 5:
                    continue
                k3[key] = k3.get(key, 0) + 1
                st["res"]["n"] = 0
                g.write(json.dumps(o) + "\n")
        n3 = sum(k3.values())
        sneg3, dneg3 = replay_file(bad3, fss)
        nm3 = sum(p["count"] for p in sneg3["problems"] if p["type"] == "mismatch" and p["sig"].get("what") == "count")
        if len(k3) < 6 or nm3 < n3:
            raise vlib.ToolError("negative control: corrupted permission bits of created/O_TMPFILE inodes were accepted "
                                 "(%d of %d noticed, classes %s)" % (nm3, n3, sorted(k3)))
        mark("negative_control")
        run.note("phase_wall_s", phases)
        run.note("negative_control", {"corrupted_res": k, "noticed": nm, "corrupted_ref": k2, "noticed_ref": nm2,
                                      "corrupted_perm": n3, "noticed_perm": nm3})
        run.assumptions += ["the tags written (10*step+k) and the buffer pre-fill pattern stand for arbitrary bytes",
                            "tmpfs and the disk-backed temp directory behave like any Linux file system for these calls",
                            "Vec::with_capacity gives the exact capacity (asserted by the harness)"]
    finally:
        shutil.rmtree(tmp, ignore_errors=True)
        shutil.rmtree(fss, ignore_errors=True)
