"""C11 - I/O helpers are invariant under chunking and transient errors (compio-io).

1. TLC checks, on the code-shaped transcription of every helper loop (spec/IoHelpers.tla) and of the
   in-memory readers/writers/cursors (spec/IoHelpersMem.tla), that for every schedule of inner-call
   outcomes (short transfers, Interrupted, Err, EOF / zero write), capacity 0.. and position (incl.
   beyond the end) the result equals the one-line reference of the helper, that the number of inner
   calls is bounded (termination; also <>Done under weak fairness), and that only documented error
   kinds come out.  The one open deviation of the code is a named predicate (DevVectoredPrefilled); the
   seven repaired defects are switches (CONSTANT Fixed) and control configs with a fix switched off
   must violate the property.
2. The same TLC run prints every explored behaviour (case + schedule + model result); the harness
   replays each on the REAL helpers over scripted streams that follow the schedule, compares the
   observation with the model and evaluates the reference independently in Rust (contract oracle);
   panics and endless loops are caught.
"""
import concurrent.futures
import json
import os
import shutil

import vlib

LEVEL = "model_checking"
TITLE = "I/O helpers are invariant under chunking and transient errors"
TEXT = ("TLC explores every schedule of per-call outcomes of the inner stream (short transfers, Interrupted, other "
        "errors, end of stream, zero writes) for every helper of compio-io (exact / to-end / vectored-exact reads, "
        "append, write-all and vectored write-all incl. the positional variants, copy, BufReader, BufWriter, Take, "
        "AsyncBufRead, in-memory slices / Vec / Cursor incl. positions beyond the end) on a transcription of the loops "
        "and checks result = reference, a bound on the inner calls, termination under fairness and the error kinds. "
        "Every explored behaviour is replayed on the real helpers over scripted streams (also through split halves and "
        "the in-memory objects); the real result is compared with the model and, independently, with the reference.")
NOTE = ("Bounds: stream/payload <= 4 bytes (thorough 5-6), capacities 0..4 (thorough ..6), one Interrupted (thorough 2-3) "
        "and one hard fault per case, two members per vectored buffer, members are Vec<u8>. Trusted: the scripted streams "
        "of the harness, Vec::with_capacity giving the exact capacity (checked, reported as drift). Not covered: "
        "BufWriter::write_vectored, BufReader::read_vectored, copy_bidirectional (two independent copies), "
        "framed/ancillary (C13), real descriptors (C08/C14).")
TECHNIQUE = "TLA+ model (TLC exhaustive + liveness) + spec-to-impl schedule replay with contract oracle"
DESIGN_REF = "3/C11"

BIN = "replay_iohelpers"
# repaired defects (switches of the model, CONSTANT Fixed)
FIXES_HELPERS = ["read_to_end_appends", "bufreader_cap0", "copy_cap0", "bufwriter_accept"]
FIXES_MEM = ["read_vectored_at_clamp", "vec_write_vectored", "vec_write_vectored_at"]
PROBLEM_TYPES = ("contract", "panic", "hang", "mismatch")


def replay_file(path):
    rc, out, err = vlib.run_bin(BIN, [path], timeout=1500)
    lines = vlib.jsonl(out)
    summary = [l for l in lines if l.get("type") == "summary"]
    if not summary:
        raise vlib.ToolError("%s produced no summary\n%s" % (BIN, err[-2000:]))
    details = {}
    for l in lines:
        if l.get("type") in PROBLEM_TYPES:
            details.setdefault((l["type"], json.dumps(l["sig"], sort_keys=True)), l)
    return summary[0], details


def classify(run, summary, details, what):
    """contract / panic / hang are property violations (unless a listed known finding);
    mismatch alone is spec drift: logged, never an alarm."""
    drift = 0
    for p in summary["problems"]:
        key = (p["type"], json.dumps(p["sig"], sort_keys=True))
        d = details.get(key, {})
        if p["type"] == "mismatch":
            drift += p["count"]
            vlib.log("DRIFT (%s): %d runs where implementation and model differ: %s" %
                     (what, p["count"], d.get("desc", "")[:400]))
            continue
        for _ in range(p["count"]):
            if run.report(p["sig"], d.get("desc", ""), d.get("case")) == "violation":
                break
    return drift


def _gen(module, cfg, path, counter, **kw):
    """Run a Gen_* config: checks the invariants and streams every behaviour to `path`."""
    with open(path, "w") as f:
        def sink(o):
            h = o["op"]["h"]
            counter[h] = counter.get(h, 0) + 1
            f.write(json.dumps(o) + "\n")
        return vlib.tlc(module, cfg, sink=sink, **kw)


def _expect_violation(r, what, invariants):
    if r.error or r.violated not in invariants:
        raise vlib.ToolError("%s: the strict control must violate %s (the named deviations are what makes the "
                             "model conform), got violated=%s error=%s" % (what, invariants, r.violated, r.error))


def run(run, tier, replay):
    tmp = vlib.scratch()
    try:
        if replay:
            obj = json.load(open(replay))
            p = os.path.join(tmp, "one.jsonl")
            with open(p, "w") as f:
                f.write(json.dumps(obj["replay"]) + "\n")
            vlib.cargo_build("hio", [BIN])
            s, d = replay_file(p)
            classify(run, s, d, "replay")
            run.add_traces(s["steps"])
            run.cov["states"] = run.cov["transitions"] = 1
            run.sample(obj["replay"])
            return
        quick = tier == "quick"
        import time
        t0 = time.time()

        def phase(name):
            vlib.log("[C11 %6.1fs] %s" % (time.time() - t0, name))
        with concurrent.futures.ThreadPoolExecutor(max_workers=6 if quick else 5) as ex:
            # the Gen_ modules extend IoHelpers / IoHelpersMem, SANY parses those too
            for f in [ex.submit(vlib.sany, m) for m in ("Gen_IoHelpers", "Gen_IoHelpersMem")]:
                f.result()
            w = 2
            counts, counts_mem, counts_sim = {}, {}, {}
            pa = os.path.join(tmp, "helpers.jsonl")
            pm = os.path.join(tmp, "mem.jsonl")
            ps = os.path.join(tmp, "sim.jsonl")
            jobs = {}
            # 1. exhaustive model checking; the Gen_ configs check the same invariants on the unreduced
            #    state space and print every behaviour
            jobs["gen"] = ex.submit(_gen, "Gen_IoHelpers", "Gen_IoHelpers.cfg" if quick else "Gen_IoHelpers_thorough.cfg",
                                    pa, counts, workers=4, timeout=900 if quick else 1500)
            jobs["live"] = ex.submit(vlib.tlc, "IoHelpers", "MC_IoHelpers_live.cfg" if quick else "MC_IoHelpers_live_thorough.cfg",
                                     workers=w, timeout=900 if quick else 1500, coverage=False)
            jobs["genmem"] = ex.submit(_gen, "Gen_IoHelpersMem", "Gen_IoHelpersMem.cfg", pm, counts_mem, workers=w,
                                       timeout=900)
            jobs["strict"] = ex.submit(vlib.tlc, "IoHelpers", "MC_IoHelpers_strict.cfg", workers=1, timeout=900,
                                       coverage=False)
            # controls for the repaired defects: with the fixes switched off (Fixed = {}) the old behaviour
            # must violate the property
            jobs["unfixed"] = ex.submit(vlib.tlc, "IoHelpers", "MC_IoHelpers_unfixed.cfg", workers=1, timeout=900,
                                        coverage=False)
            jobs["strictmem"] = ex.submit(vlib.tlc, "IoHelpersMem", "MC_IoHelpersMem_unfixed.cfg", workers=1, timeout=900,
                                          coverage=False)
            if not quick:
                jobs["mc"] = ex.submit(vlib.tlc, "IoHelpers", "MC_IoHelpers_thorough.cfg", workers=4, timeout=1500)
                jobs["sim"] = ex.submit(_gen, "Gen_IoHelpers", "Gen_IoHelpers_sim.cfg", ps, counts_sim, simulate=40000,
                                        depth=60, timeout=1500, coverage=False)
                # every single fix taken out of Fixed must violate the property on its own
                allf = FIXES_HELPERS + FIXES_MEM
                for fx in allf:
                    rest = ", ".join('"%s"' % x for x in allf if x != fx)
                    mem = fx in FIXES_MEM
                    base = "MC_IoHelpersMem_unfixed.cfg" if mem else "MC_IoHelpers_unfixed.cfg"
                    cfgp = os.path.join(tmp, "without_%s.cfg" % fx)
                    with open(os.path.join(vlib.SPEC, base)) as src, open(cfgp, "w") as dst:
                        dst.write(src.read().replace("Fixed = {}", "Fixed = {%s}" % rest))
                    jobs["without_" + fx] = ex.submit(vlib.tlc, "IoHelpersMem" if mem else "IoHelpers", cfgp, workers=1,
                                                      timeout=600, coverage=False)
            # 3. build the harness meanwhile
            phase("TLC jobs started, building harness")
            vlib.cargo_build("hio", [BIN])
            phase("harness built")
            res = {k: f.result() for k, f in jobs.items()}
        phase("TLC jobs finished")

        g = res["gen"]
        vlib.require_model_ok(g, "IoHelpers/Gen")
        z = vlib.zero_actions(g)
        if z:
            raise vlib.ToolError("IoHelpers: actions never taken: %s" % z)
        run.add_model("IoHelpers (all schedules, invariants: result = reference, call bound, error kinds)", g)
        if "mc" in res:
            vlib.require_model_ok(res["mc"], "IoHelpers/MC_thorough")
            z = vlib.zero_actions(res["mc"])
            if z:
                raise vlib.ToolError("IoHelpers thorough: actions never taken: %s" % z)
            run.add_model("IoHelpers larger constants (VIEW without the schedule history)", res["mc"])
        lv = res["live"]
        vlib.require_model_ok(lv, "IoHelpers/liveness")
        if "Termination" not in open(os.path.join(vlib.SPEC, "MC_IoHelpers_live.cfg")).read():
            raise vlib.ToolError("liveness config lost its PROPERTY")
        run.add_model("IoHelpers termination (<>Done under WF)", lv)
        gm = res["genmem"]
        vlib.require_model_ok(gm, "IoHelpersMem/Gen")
        if vlib.zero_actions(gm):
            raise vlib.ToolError("IoHelpersMem: actions never taken")
        run.add_model("IoHelpersMem (in-memory readers, writers, cursors; positions beyond the end)", gm)
        _expect_violation(res["strict"], "IoHelpers (open deviation)", ("Conforms",))
        _expect_violation(res["unfixed"], "IoHelpers with the fixes switched off", ("ConformsModuloOpen",))
        _expect_violation(res["strictmem"], "IoHelpersMem with the fixes switched off", ("MemStrict",))
        for k, r in res.items():
            if k.startswith("without_"):
                _expect_violation(r, k, ("ConformsModuloOpen", "MemStrict"))
        if "sim" in res and (res["sim"].error or res["sim"].violated):
            raise vlib.ToolError("IoHelpers simulation: %s %s\n%s" % (res["sim"].error, res["sim"].violated,
                                                                       res["sim"].out[-2000:]))

        # every helper must have produced behaviours (non-vacuity of the generation)
        import re
        def helpers_of(cfg):
            line = [l for l in open(os.path.join(vlib.SPEC, cfg)) if l.strip().startswith("Helpers")][0]
            return re.findall(r'"(\w+)"', line)
        missing = [h for h in helpers_of("Gen_IoHelpers.cfg") if not counts.get(h)]
        missing += [h for h in helpers_of("Gen_IoHelpersMem.cfg") if not counts_mem.get(h)]
        if missing:
            raise vlib.ToolError("no behaviour generated for: %s" % missing)
        run.note("behaviours_per_helper", dict(sorted({**counts, **counts_mem}.items())))

        # 4. replay
        total_drift = 0
        files = [("helpers", pa, counts), ("in-memory", pm, counts_mem)]
        if not quick:
            files.append(("simulated", ps, counts_sim))
        for what, path, cnt in files:
            n = sum(cnt.values())
            if n == 0:
                raise vlib.ToolError("%s: no behaviours generated" % what)
            s, d = replay_file(path)
            if s.get("incomplete"):
                vlib.log("replay of %s stopped at case %d (endless loop in the code under test)" % (what, s["cases"]))
            elif s["cases"] != n:
                raise vlib.ToolError("%s: %d behaviours generated, %d replayed" % (what, n, s["cases"]))
            total_drift += classify(run, s, d, what)
            run.add_traces(s["steps"])
            run.note("behaviours_" + what.replace("-", "_"), n)
            run.note("runs_on_real_code_" + what.replace("-", "_"), s["steps"])
        with open(pa) as f:
            for i, line in enumerate(f):
                if i % 9001 == 17:
                    run.sample(json.loads(line), limit=3)
        run.note("drift_runs", total_drift)
        run.note("exhaustive", True)

        phase("replayed")
        # 5. negative control: corrupt one expectation per case and demand that the replay notices,
        #    and corrupt the payload side (schedule) and demand that the contract oracle is unaffected
        bad = os.path.join(tmp, "neg.jsonl")
        k = 0
        with open(pa) as f, open(bad, "w") as g2:
            for line in f:
                o = json.loads(line)
                h = o["op"]["h"]
                if o["x"]["res"]["k"] != "ok" or o["x"]["dev"]:
                    continue
                if h in ("read_exact", "read_to_end", "append") and o["x"]["buf"]:
                    o["x"]["buf"][-1] += 1
                elif h in ("write_all", "copy", "bufwriter") and o["x"]["sink"]:
                    o["x"]["sink"][0] += 1
                elif h in ("take", "bufreader") and o["x"]["got"]:
                    o["x"]["got"] = o["x"]["got"][:-1]
                else:
                    continue
                g2.write(json.dumps(o) + "\n")
                k += 1
                if k >= 200:
                    break
        if k < 50:
            raise vlib.ToolError("negative control: too few cases to corrupt (%d)" % k)
        sneg, _ = replay_file(bad)
        nm = sum(p["count"] for p in sneg["problems"] if p["type"] == "mismatch")
        nc = sum(p["count"] for p in sneg["problems"] if p["type"] != "mismatch")
        if nm < k or nc != 0:
            raise vlib.ToolError("negative control: %d corrupted expectations, %d noticed, %d contract problems "
                                 "(expected all noticed, no contract problem)" % (k, nm, nc))
        run.note("negative_control_cases", k)
        run.assumptions += ["helper arithmetic is independent of the concrete byte values (distinct values used)",
                            "one hard fault and a bounded number of Interrupted outcomes per call sequence",
                            "Vec::with_capacity(n) has capacity exactly n (checked at run time)"]
    finally:
        shutil.rmtree(tmp, ignore_errors=True)
