"""C16 - QUIC streams and datagrams: ordered, exactly-once, never stranded (compio-quic).

1. TLC checks the implementation-shaped model Quic.tla (per-stream FIFO with stream / connection
   windows and the stream-count limit, datagram queue, the per-connection waker tables with one
   action per critical section of compio-quic, terminate / close / endpoint close, the driver task)
   in several small configurations: safety (in-order exactly-once, FIN after the last byte, flow
   control, independence, a Pending future is registered in the table its event wakes, no lost
   wake-up, tables empty after close, errors after close, refinement of the contract operators),
   hang-freedom (TLC deadlock check with an explicit Terminated step) and liveness on the fair spec.
   The two recorded deviations are named predicates; control runs demand that the strict
   properties FAIL exactly in the configurations that contain them.
2. Binding (a): programs derived from behaviours of the model (Gen_Quic, seeded simulation) run on
   REAL loopback endpoints; the contract is evaluated directly on each history and the histories
   are validated by Trace_Quic against the contract operators of the model.
3. Binding (b): Gen_QuicWakers enumerates which futures are blocked at the moment of a close; the
   harness builds exactly that combination on real connections and requires every future to be
   woken and to resolve as predicted.
"""
import concurrent.futures as cf
import json
import os
import random
import re
import shutil
import time

import vlib

LEVEL = "model_checking"
TITLE = "QUIC streams and datagrams: ordered, exactly-once, never stranded"
TEXT = ("TLC checks a model of compio-quic's per-connection bookkeeping (stream FIFOs with stream/connection windows "
        "and stream-count limit, datagram queue, the nine waker tables with one action per critical section, "
        "terminate/close/endpoint close, the driver task) for in-order exactly-once delivery, FIN after the last byte, "
        "stream independence, 'a Pending future is registered where its event wakes', no lost wake-up, empty tables and "
        "errors after close, hang-freedom and liveness (blocked writer proceeds when the reader drains; close completes "
        "everything). Programs derived from model behaviours run on real loopback endpoints with the contract evaluated "
        "on every history and the histories validated by Trace_Quic; every combination of blocked futures that TLC "
        "enumerates is built on real connections and must be woken and fail on close.")
NOTE = ("Bounds: model <= 2 streams x 2 units (3x3 in the generator), windows {1 unit, unlimited}, max streams {1,2}, <= 2 "
        "datagrams; real runs: chunks of {1, 1200, 70 000} bytes, <= 3 chunks, <= 3 concurrent uni/bi streams, stream "
        "window {2 KiB, default}, max streams {1,2}, reader eager/slow/tiny/stop, finish/reset, close by client/server/"
        "endpoint at a model-chosen point; blocked-future combinations over 11 connection-level kinds (+3 endpoint-level "
        "kinds for endpoint close). quinn-proto, rustls and the UDP path (socket.rs GSO/GRO/ECN, only as used on loopback) "
        "are trusted as the environment; 0-RTT rejection wake-ups and the h3 adapters are not covered. Recorded deviations: "
        "single on_connected slot, closed() taking the driver's JoinHandle.")
TECHNIQUE = "TLA+ model (TLC exhaustive + liveness) + model-derived programs on real loopback endpoints validated by a trace spec + enumerated blocked-future combinations"
DESIGN_REF = "3/C16"

# (cfg, deadlock check on, expected violated invariant or None)
MC_QUICK = [("MC_Quic_flow.cfg", True, None), ("MC_Quic_close.cfg", True, None), ("MC_Quic_dgram.cfg", True, None),
            ("MC_Quic_hs.cfg", True, None), ("MC_Quic_live_close.cfg", False, None),
            # deviation scenarios: everything holds modulo the named deviation (tolerant invariants and
            # deadlock check) while the strict HangFree must be violated (control) - one run with -continue
            ("MC_Quic_dev0rtt.cfg", True, "HangFree"), ("MC_Quic_devdrop.cfg", True, "HangFree"),
            # controls for two realistic breaking changes: the model has to FAIL when finish() does not
            # wake the driver (the FIN of a quiet connection is never transmitted: hang = deadlock) and
            # when DatagramReceived wakes one parked reader instead of all (lost wake-up)
            ("MC_Quic_ctl_finnowake.cfg", True, "CTL:Deadlock"), ("MC_Quic_ctl_dgwakeone.cfg", False, "CTL:NoLostWakeup")]
MC_THOROUGH = MC_QUICK + [("MC_Quic_conc.cfg", True, None), ("MC_Quic_live_flow.cfg", False, None),
                          ("MC_Quic_live_flow_thorough.cfg", False, None),
                          ("MC_Quic_live_close_thorough.cfg", False, None)]
# every action of Quic.tla has to fire in at least one exhaustive configuration (vacuity check)
EXPECTED_ACTIONS = """PollOpenStream ExecutePollWrite FinishStream ResetStream PollStopped PollAcceptStream ExecutePollRead
StopStream TrySendDatagram PollRecvDatagram PollConnecting PollHandshakeData PollAccepted0rtt PollClosed DropClosed
PollIncoming Close EndpointClose DriverCloseEvent DriverConnectionLost DriverDrained DriverHandshakeDataReady
DriverConnected DriverStreamFrame DriverResetStream DriverMaxStreamData DriverMaxData DriverFinished DriverStopped
DriverMaxStreams DriverDatagramSent DriverDatagramReceived DriverTransmit DatagramLost Terminated""".split()
_RE_COV = re.compile(r"^<(\w+) line \d+, col \d+ to line \d+, col \d+ of module Quic(?: \([\d ]+\))?>: (\d+):(\d+)", re.M)


def action_counts(r):
    """vlib's coverage parser misses actions with a LET (TLC appends the body's position)."""
    cov = {}
    for m in _RE_COV.finditer(r.out):
        cov[m.group(1)] = max(cov.get(m.group(1), 0), int(m.group(3)))
    return cov

WATCHDOG_KNOWN_MS = 3000


def _run_bin(args, what):
    rc, out, err = vlib.run_bin("record_quic", args, timeout=3000)
    lines = vlib.jsonl(out)
    summary = [l for l in lines if l.get("type") == "summary"]
    if not summary:
        raise vlib.ToolError("record_quic %s produced no summary\n%s" % (what, err[-2000:]))
    summary = summary[0]
    if summary.get("fatal"):
        raise vlib.ToolError("record_quic %s: %s" % (what, summary["fatal"]))
    details = {}
    for l in lines:
        if l.get("type") in ("contract", "panic", "mismatch", "hang"):
            details.setdefault((l["type"], json.dumps(l["sig"], sort_keys=True)), l)
    return summary, details


def classify(run, summary, details, what, mode):
    drift = 0
    for p in summary["problems"]:
        key = (p["type"], json.dumps(p["sig"], sort_keys=True))
        d = details.get(key, {})
        if p["type"] == "mismatch":
            drift += p["count"]
            vlib.log("DRIFT (%s): %d cases where implementation and model differ but the contract holds: %s" %
                     (what, p["count"], d.get("desc", "")[:400]))
            continue
        for _ in range(p["count"]):
            if run.report(p["sig"], d.get("desc", ""), {"mode": mode, "case": d.get("case")}) == "violation":
                break
    return drift


# JVMs of this check that run at the same time (the machine is shared with other checks) and
# their GC threads; more parallelism than this made everything slower under load.
JOBS = int(os.environ.get("VERIF_C16_JOBS", "4"))
JVM = ["-XX:ParallelGCThreads=2", "-Xmx3g"]


JTMP = [None]     # private java.io.tmpdir of this run (TLC unpacks its library modules there)


def _jvm():
    return JVM + (["-Djava.io.tmpdir=" + JTMP[0]] if JTMP[0] else [])


def _tlc_job(module, cfg, deadlock=False, **kw):
    kw.setdefault("workers", 2)
    sink = kw.get("sink")
    for attempt in (1, 2):
        got = []
        if sink is not None:
            kw["sink"] = got.append
        r = vlib.tlc(module, cfg, deadlock=deadlock, jvm=_jvm(), **kw)
        # environment trouble (temp files removed under the JVM, parse of an extracted module): once more
        if attempt == 1 and r.error and ("FileNotFoundException" in r.out or "Parsing or semantic analysis failed" in r.out):
            vlib.log("  retrying TLC %s/%s after an environment error" % (module, cfg))
            continue
        break
    if sink is not None:
        for o in got:
            sink(o)
    _t("tlc %s/%s: %d states" % (module, cfg, r.distinct), r.wall)
    return r


def _t(what, secs):
    if os.environ.get("VERIF_TIMING"):
        vlib.log("  [%6.1fs] %s" % (secs, what))


WAKER_GENS = {"quick": ["Gen_QuicWakers.cfg"], "thorough": ["Gen_QuicWakers_thorough.cfg"]}


def wakers_submit(ex, tier):
    jobs = []
    for cfg in WAKER_GENS[tier]:
        out = []
        jobs.append((cfg, out, ex.submit(_tlc_job, "Gen_QuicWakers", cfg, timeout=900, coverage=False, sink=out.append)))
    return jobs


def wakers_cases(jobs, tier, tmp):
    """Cases from Gen_QuicWakers (TLC enumerates subsets and predicts each outcome)."""
    rnd = random.Random(vlib.seed())
    conn, special = [], []
    for cfg, out, fut in jobs:
        g = fut.result()
        if g.error or g.violated:
            raise vlib.ToolError("Gen_QuicWakers/%s: %s %s\n%s" % (cfg, g.error, g.violated, g.out[-2000:]))
        if not out:
            raise vlib.ToolError("Gen_QuicWakers/%s printed nothing" % cfg)
        for o in out:
            (conn if o["scenario"] in ("conn", "mix") else special).append(o)
    if tier == "thorough":
        # endpoint close: 2^14 combinations with fresh sockets each; keep all 2^11 that contain all
        # three endpoint-level kinds and a seeded sample of the rest
        ep = set(["connecting", "handshake_data", "wait_incoming"])
        keep = []
        for c in conn:
            if c["close"] != "endpoint":
                keep.append(c)
                continue
            e = ep & set(c["blocked"])
            if len(e) == 3 or rnd.random() < 0.03:
                keep.append(c)
        conn = keep
    cases = []
    for i, c in enumerate(conn + special):
        c = dict(c)
        c["id"] = i
        sides = ["client", "server"] if tier == "thorough" and c["scenario"] == "conn" and c["close"] == "local" \
            else ["client" if i % 2 == 0 else "server"]
        if c["scenario"] == "drop":
            c["blocked"] = ["drop_closed"] + c["blocked"]
        if c["scenario"] == "zrtt":
            sides = ["server"]
        if any(e[1] == "stranded" for e in c["expect"]):
            c["watchdog_ms"] = WATCHDOG_KNOWN_MS     # predicted to hang: do not wait the full watchdog
        for sd in sides:
            d = dict(c)
            d["side"] = sd
            cases.append(d)
    path = os.path.join(tmp, "wakers.jsonl")
    with open(path, "w") as f:
        for c in cases:
            f.write(json.dumps(c) + "\n")
    return path, cases


PROGRAM_PLAN = [("Gen_Quic.cfg", 0.6), ("Gen_Quic_close.cfg", 0.4)]


def programs_submit(ex, tier):
    want = 100 if tier == "quick" else 2000
    nsim = {"quick": 1, "thorough": 4}[tier]
    jobs = []
    for cfg, share in PROGRAM_PLAN:
        per = int(want * share * (1.6 if tier == "quick" else 2.2) / nsim) + 5
        for k in range(nsim):
            out = []
            fut = ex.submit(_tlc_job, "Gen_Quic", cfg, timeout=1700, coverage=False, simulate=per, depth=300,
                            sink=out.append, seed_=vlib.seed() * 7919 + 13 * k + (1 if "close" in cfg else 0))
            jobs.append((cfg, fut, out))
    return jobs


def programs(jobs, tier, tmp):
    """Programs from behaviours of the model (seeded simulation), de-duplicated."""
    want = 100 if tier == "quick" else 2000
    quiet_cap, nquiet = (6 if tier == "quick" else 40), [0]
    progs, seen = [], set()
    for cfg, fut, out in jobs:
        g = fut.result()
        if g.error or g.violated:
            raise vlib.ToolError("Gen_Quic/%s: %s %s\n%s" % (cfg, g.error, g.violated, g.out[-2000:]))
    for cfg, share in PROGRAM_PLAN:
        quota = int(want * share)
        n = 0
        for c2, _, out in jobs:
            if c2 != cfg:
                continue
            for o in out:
                for st in o["streams"]:
                    if not st["chunks"] and st["end"] in ("fin", "quietfin"):
                        st["chunks"] = [0]
                    if st["end"] == "quietfin" and (st["pace"] == "stop" or o["close"] != "none"):
                        st["end"] = "fin"
                # a quiet finish costs more than a second of silence: only in a bounded number of programs
                if any(st["end"] == "quietfin" for st in o["streams"]):
                    if nquiet[0] >= quiet_cap:
                        for st in o["streams"]:
                            if st["end"] == "quietfin":
                                st["end"] = "fin"
                    elif json.dumps(o, sort_keys=True) not in seen:
                        nquiet[0] += 1
                key = json.dumps(o, sort_keys=True)
                if key in seen or n >= quota:
                    continue
                if "close" in cfg and o["close"] == "none":
                    continue
                seen.add(key)
                n += 1
                progs.append(o)
    if len(progs) < want * 0.8:
        raise vlib.ToolError("Gen_Quic produced only %d distinct programs (wanted %d)" % (len(progs), want))
    for i, p in enumerate(progs):
        p["id"] = i
    path = os.path.join(tmp, "programs.jsonl")
    with open(path, "w") as f:
        for p in progs:
            f.write(json.dumps(p) + "\n")
    return path, progs


def validate(path):
    jto = "-Xss1g -Dtlc2.tool.queue.IStateQueue=StateDeque -XX:ParallelGCThreads=2"
    if JTMP[0]:
        jto += " -Djava.io.tmpdir=" + JTMP[0]
    ok, r = vlib.validate_trace("Trace_Quic", "Trace_Quic.cfg", path, timeout=2400,
                                extra_env={"JAVA_TOOL_OPTIONS": jto})
    if r.error and "TRACE" not in r.out:
        raise vlib.ToolError("Trace_Quic: %s\n%s" % (r.error, r.out[-2000:]))
    return ok, r


def run(run, tier, replay):
    with cf.ThreadPoolExecutor(max_workers=4) as ex:
        for f in [ex.submit(vlib.sany, m) for m in ("Quic", "Gen_Quic", "Gen_QuicWakers", "Trace_Quic")]:
            f.result()
    tmp = vlib.scratch()
    JTMP[0] = os.path.join(tmp, "jtmp")
    os.makedirs(JTMP[0])
    try:
        if replay:
            obj = json.load(open(replay))["replay"]
            vlib.cargo_build("hquic", ["record_quic"])
            p = os.path.join(tmp, "one.jsonl")
            with open(p, "w") as f:
                f.write(json.dumps(obj["case"]) + "\n")
            if obj["mode"] == "wakers":
                s, d = _run_bin(["wakers", p], "replay")
            else:
                s, d = _run_bin(["programs", p, os.path.join(tmp, "one.ndjson")], "replay")
                if obj["mode"] == "trace":
                    ok, r = validate(os.path.join(tmp, "one.ndjson"))
                    if not ok:
                        run.report({"site": "quic-trace", "what": "rejected"},
                                   "Trace_Quic rejects the history: %s" % (r.printed[:1],), obj)
            classify(run, s, d, "replay", obj["mode"])
            run.add_traces(s["cases"])
            run.cov["states"] = run.cov["transitions"] = 1
            run.sample(obj["case"])
            return

        # ---- 1. model checking, generation and the harness build side by side ---------------
        mcs = MC_QUICK if tier == "quick" else MC_THOROUGH
        # configurations whose actions are a subset of another one's run without coverage statistics
        nocov = ("live", "dev0rtt", "ctl")
        with cf.ThreadPoolExecutor(max_workers=JOBS + 1) as ex:
            build = ex.submit(vlib.cargo_build, "hquic", ["record_quic"])
            jobs = [(cfg, exp, ex.submit(_tlc_job, "Quic", cfg, dl, timeout=1700,
                                         coverage=not any(x in cfg for x in nocov),
                                         extra=["-continue"] if exp and not exp.startswith("CTL:") else None))
                    for cfg, dl, exp in mcs]
            wjobs = wakers_submit(ex, tier)
            pjobs = programs_submit(ex, tier)
            fired = {}
            for cfg, exp, fut in jobs:
                r = fut.result()
                name = "Quic/" + cfg
                if exp and exp.startswith("CTL:"):
                    want = exp[4:]
                    got = "Deadlock" if (r.error and "Deadlock" in r.error) or "Deadlock reached" in r.out else r.violated
                    if got != want:
                        raise vlib.ToolError("%s: control run expected %s, got %s (error %s)\n%s" %
                                             (name, want, got, r.error, r.out[-1500:]))
                    run.note("control_" + cfg.replace("MC_Quic_ctl_", "").replace(".cfg", ""), "fails with " + want)
                    continue
                if exp:
                    # control: the strict property must fail where the deviation scenario exists, and
                    # nothing else may (TLC ran with -continue over the whole state space)
                    bad = set(re.findall(r"Invariant (\S+) is violated", r.out))
                    prop = re.search(r"(Action property \S+ is violated|Temporal properties were violated|"
                                     r"Deadlock reached)", r.out)
                    if bad != {exp} or r.error or prop:
                        raise vlib.ToolError("%s: expected exactly %s to be violated, got %s %s (error %s)\n%s" %
                                             (name, exp, sorted(bad), prop and prop.group(1), r.error, r.out[-1500:]))
                    r.violated = None
                else:
                    vlib.require_model_ok(r, name)
                for a, t in action_counts(r).items():
                    fired[a] = fired.get(a, 0) + t
                r.coverage = {a: (0, t) for a, t in action_counts(r).items() if a in EXPECTED_ACTIONS}
                run.add_model(name, r)
            zero = sorted(a for a in EXPECTED_ACTIONS if not fired.get(a))
            if zero:
                raise vlib.ToolError("Quic: actions never taken in any configuration (vacuous): %s" % zero)
            run.note("model_actions_fired", len(EXPECTED_ACTIONS))
            build.result()
            _t("model checking + build done", time.time() - run.t0)
            wpath, wcases = wakers_cases(wjobs, tier, tmp)
            _t("waker cases generated", time.time() - run.t0)
            ppath, progs = programs(pjobs, tier, tmp)
            _t("programs generated", time.time() - run.t0)

        # ---- 2. binding (b): waker tables at close ------------------------------------------
        t0 = time.time()
        s, d = _run_bin(["wakers", wpath], "wakers")
        _t("wakers harness", time.time() - t0)
        if s["cases"] != len(wcases):
            raise vlib.ToolError("wakers: %d of %d cases ran" % (s["cases"], len(wcases)))
        drift = classify(run, s, d, "waker tables", "wakers")
        run.add_traces(s["cases"])
        run.note("waker_combinations", len(wcases))
        run.note("waker_futures_checked", s["steps"])
        run.note("waker_close_kinds", sorted(set(c["close"] for c in wcases)))
        for smp in s.get("samples", [])[:1]:
            run.sample(smp)
        # negative control: flip one prediction; the harness has to notice the disagreement
        neg = os.path.join(tmp, "neg_w.jsonl")
        with open(neg, "w") as f:
            f.write(json.dumps({"close": "local", "side": "client", "scenario": "conn", "dev": "none",
                                "blocked": ["read", "accept_uni"],
                                "expect": [["read", "stranded"], ["accept_uni", "err"]]}) + "\n")
        sn, _ = _run_bin(["wakers", neg], "negative control")
        if not any(p["type"] == "mismatch" and p["sig"].get("what") == "prediction" and p["sig"].get("kind") == "read"
                   for p in sn["problems"]):
            raise vlib.ToolError("negative control (wakers): a flipped prediction was not noticed: %s" % sn["problems"])

        # ---- 3. binding (a): programs on real endpoints, histories validated by Trace_Quic ---
        tpath = os.path.join(tmp, "trace.ndjson")
        t0 = time.time()
        s, d = _run_bin(["programs", ppath, tpath], "programs")
        _t("programs harness", time.time() - t0)
        if s["cases"] != len(progs):
            raise vlib.ToolError("programs: %d of %d ran" % (s["cases"], len(progs)))
        drift += classify(run, s, d, "programs", "programs")
        run.add_traces(s["cases"])
        for k in ("trace_events", "blocked_writes", "blocked_opens", "blocked_dgram_sends", "quiet_finishes",
                  "burst_readers_completed", "bytes_read", "dgrams_sent", "dgrams_recv",
                  "programs_closed", "errors_after_close"):
            run.note(k, s.get(k))
        run.note("programs", len(progs))
        need = ("blocked_writes", "blocked_opens", "blocked_dgram_sends", "programs_closed", "dgrams_recv",
                "quiet_finishes", "burst_readers_completed")
        if not all(s.get(k) for k in need) and not run.violations:
            raise vlib.ToolError("programs never blocked a writer / an open / a datagram sender, never closed or never "
                                 "received a datagram: binding too weak: %s" % {k: s.get(k) for k in need})
        run.sample(progs[0])
        ok, r = validate(tpath)
        _t("trace validation: %d states" % r.distinct, r.wall)
        if not ok:
            bad = r.printed[0] if r.printed else {"unmatched": "?"}
            # which program does the rejected event belong to?
            idx, n = -1, 0
            with open(tpath) as f:
                for line in f:
                    n += 1
                    if '"ev":"reset"' in line.replace(" ", ""):
                        idx += 1
                    if n == bad.get("unmatched"):
                        break
            prog = progs[idx] if 0 <= idx < len(progs) else None
            ev = bad.get("event", {})
            run.report({"site": "quic-trace", "what": "rejected", "ev": ev.get("ev")},
                       "Trace_Quic cannot explain event %s of the recorded history (program %s)" % (json.dumps(ev), idx),
                       {"mode": "trace", "case": prog})
        run.note("trace_states", r.distinct)
        # negative control: one recorded offset corrupted must be rejected
        negt = os.path.join(tmp, "neg.ndjson")
        hit = None
        with open(tpath) as f, open(negt, "w") as g:
            for i, line in enumerate(f):
                if hit is None and i > 3 and '"read"' in line:
                    o = json.loads(line)
                    o["off"] += 1
                    line = json.dumps(o) + "\n"
                    hit = i + 1
                if hit is not None and i > hit + 200:
                    break
                g.write(line)
        okn, rn = validate(negt)
        if hit is None or okn or not rn.printed or rn.printed[0].get("unmatched") != hit:
            raise vlib.ToolError("negative control (trace): corrupted read offset at line %s was not rejected there: %s" %
                                 (hit, rn.printed[:1]))
        run.note("drift_cases", drift)
        run.assumptions += ["quinn-proto, rustls and the kernel UDP loopback path are the environment",
                            "client and server run on one thread: the order of log records is the real order",
                            "datagrams may be lost (never required to arrive), never duplicated or altered"]
    finally:
        shutil.rmtree(tmp, ignore_errors=True)
