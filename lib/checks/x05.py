"""X05 - compio-term: terminal input parser, event stream, command queue (extension check).

1. TLC checks three implementation-shaped models:
   * TermParse: the escape sequence parser of src/event/sys/unix/parse.rs transcribed arm by arm over concrete bytes
     (every index and slice guarded), driven byte by byte as Parser::advance does, with reads of arbitrary size, the
     20 ms escape timer and the end of the input, against a reference that lexes the WHOLE input at once:
     CutIsNeedMore (= invariance under fragmentation, in every state), NoPanic, TimerOnlyForEsc, EscAlwaysTimed,
     BufferBounded / BufferShort, Progress (a measure that strictly decreases), liveness Terminates;
   * TermStream: which source (multishot read, escape timer, SIGWINCH listener) wakes a pending next(): NoLostWake,
     Registered, NoLostWinch, liveness InputConsumed / EscResolves / ResizeReported, drop / new;
   * TermQueue: CommandQueue::append / flush write by write: Conservation, AfterOk, liveness FlushCompletes;
   control configurations and model mutations that must violate in every run.
2. Gen_TermParse / TermStream / TermQueue print behaviours; extra/harness/hx05 replays them on the REAL EventStream over a
   pseudo terminal installed as fd 0 (both drivers; the only public entry that reaches the private parser) and on the
   REAL CommandQueue over a scripted AsyncWrite sink. Every step is compared with the model (DRIFT); the contract is
   evaluated on the real observation independently of the model (VIOLATION unless a known finding).
"""
import concurrent.futures as cf
import json
import os
import shutil
import time

import vlib
import xlib

LEVEL = "model_checking"
TITLE = "compio-term: fragmentation-invariant input parser, event stream wake-ups, exactly-once command queue"
STATEMENT = (
    "(1) Parser (compio-term/src/event/sys/unix/parse.rs, reached through EventStream): for every byte sequence a terminal "
    "sends (plain and Alt keys, UTF-8 of every length, control keys, CSI / SS3 keys with modifier and kind parameters, "
    "kitty keyboard protocol, SGR / rxvt / X10 mouse reports, focus reports, bracketed paste, swallowed status reports) and "
    "EVERY fragmentation of it into reads, the events yielded are those of the unfragmented input - nothing merged, split, "
    "dropped or duplicated; at every cut the events so far are exactly the complete sequences and the rest waits (never a "
    "wrong event) - and they mean what the terminal meant. The one exception is the lone ESC: it is the Esc key when nothing "
    "follows within the 20 ms escape time-out and the prefix of the next sequence otherwise; the time-out is counted from the "
    "arrival of that ESC. Arbitrary bytes (invalid UTF-8, unknown finals, overflowing parameters, truncated and corrupted "
    "sequences) give events or are skipped - the same way under every fragmentation - never a panic, an index out of range, "
    "an endless loop; outside a bracketed paste the buffer is bounded; a paste is ONE event with exactly its bytes however "
    "many reads it takes. (2) Event stream (src/event/sys/unix/mod.rs, input/multishot.rs, stream.rs), io_uring and polling "
    "driver: every byte read is parsed once and in order, a pending next() is woken by input, by the escape time-out and by "
    "SIGWINCH (Resize carries the new size), a zero length read ends the stream after resolving a pending ESC, only one "
    "stream exists at a time, dropping the stream cancels its read: bytes that arrive afterwards stay in the terminal and are "
    "yielded by the next stream exactly once (read-but-unparsed bytes and parsed-but-unyielded events go with the dropped "
    "stream). (3) CommandQueue (src/command/mod.rs, multi.rs): nothing is written before flush; the bytes reaching the writer "
    "are the concatenated ANSI of the commands whose queue / queue_many call succeeded, in queue order, each byte once, for "
    "every pattern of short writes, Ok(0), Interrupted, hard errors, a failing writer flush and repeated flush calls; a "
    "failing command (or batch) contributes nothing; buffered_len / is_empty say what is missing; a flush future dropped "
    "while its write is pending loses at most what it had handed to the writer.")
TEXT = ("TLC explores every fragmentation (a read = any number of byte steps), every escape time-out and the end of input for "
        "catalogue tokens, pairs of them, every short string over an alphabet of byte classes and corrupted / truncated "
        "tokens, on a transcription of the parser that re-parses its buffer after every byte, and checks in every state that "
        "it agrees with a reference that cuts the whole input at once; two smaller models cover the wake-up protocol of "
        "poll_next and the flush loop of the command queue. Printed behaviours are replayed on the real EventStream over a "
        "pseudo terminal (each read step is one write to the terminal that the stream has consumed before the next, escape "
        "time-outs are really waited for) on both drivers and on the real CommandQueue over a scripted sink.")
NOTE = ("Bounds (quick): 56 catalogue tokens alone (every fragmentation up to 6 bytes, else whole / byte-wise / every 2-split), "
        "pairs of 10 core tokens in the model, strings <= 3 over 9 byte classes, 3 chunks x 4 kinds + 1 resize + 1 drop for "
        "the wake-up protocol, 2 queue calls x 2-3 flushes for the queue; thorough adds all pairs, triples, strings <= 4 over "
        "22 classes / <= 6 over 9, every token with one byte replaced by any of 31 classes, seeded random token sequences "
        "and byte strings. The escape timer runs in real time: a read that takes >= 15 ms before a time-out step is repeated "
        "(the attempt decides nothing), premature resolution is judged by monotonic time stamps that bracket it. Trusted: "
        "the pseudo terminal of the kernel (raw mode: bytes as written; cooked mode: ^D pushes a partial line), scripted "
        "sink. Not covered: Windows backend, the timer-polling input backend (other Unix), terminals in UTF-8 mouse mode, "
        "wake-ups from SIGWINCH handled on the runtime's own thread (finding X01-1).")
TECHNIQUE = "TLA+ models (TLC safety + liveness + controls) + spec-to-impl behaviour replay over a pty / scripted sink, contract oracle"

JVM = ["-XX:+UseSerialGC", "-XX:-UseParallelGC"]
WALL = {}


def _mc(module, cfg, results, workers=1, timeout=900, coverage=False):
    t0 = time.time()
    r = vlib.tlc(module, cfg, workers=workers, timeout=timeout, coverage=coverage, jvm=JVM)
    results[cfg] = r
    WALL[cfg] = round(time.time() - t0, 1)
    return r


def _gen(module, cfg, path, timeout=900, simulate=None, depth=None, limit=None, keep=None):
    n = [0, 0]
    with open(path, "w") as f:
        def sink(o):
            n[0] += 1
            if keep is not None and not keep(o, n[0]):
                return
            if limit is not None and n[1] >= limit:
                return
            n[1] += 1
            f.write(json.dumps(o) + "\n")
        kw = dict(simulate=simulate, depth=depth) if simulate else {}
        t0 = time.time()
        r = vlib.tlc(module, cfg, workers=1, timeout=timeout, coverage=False, sink=sink, jvm=JVM, **kw)
        WALL[cfg] = round(time.time() - t0, 1)
    if r.error or r.violated:
        raise vlib.ToolError("%s/%s: %s %s\n%s" % (module, cfg, r.error, r.violated, r.out[-2500:]))
    if n[1] == 0:
        raise vlib.ToolError("%s/%s printed no behaviours" % (module, cfg))
    return {"printed": n[0], "cases": n[1], "distinct_states": r.distinct, "wall_s": round(r.wall, 1)}


def _merge(total, s):
    total["cases"] += s["cases"]
    total["steps"] += s["steps"]
    for p in s["problems"]:
        k = (p["type"], json.dumps(p["sig"], sort_keys=True))
        total["problems"][k] = total["problems"].get(k, 0) + p["count"]
    for k, v in s.items():
        if k not in ("type", "cases", "steps", "problems", "aborted_at", "fatal") and isinstance(v, int):
            total["extra"][k] = total["extra"].get(k, 0) + v


def _run_stream(path, drv, timeout=2400):
    """x05_stream on one file; a case that never returns is reported by the binary, the run resumes behind it."""
    total = {"cases": 0, "steps": 0, "problems": {}, "extra": {}}
    details = {}
    start = 0
    for _ in range(60):
        rc, out, err = xlib.run_bin("x05_stream", [path, "--drv", drv, "--from", str(start)], check=False, timeout=timeout)
        lines = vlib.jsonl(out)
        for l in lines:
            if l.get("type") in ("contract", "panic", "mismatch", "hang"):
                details.setdefault((l["type"], json.dumps(l["sig"], sort_keys=True)), l)
        summ = [l for l in lines if l.get("type") == "summary"]
        if not summ:
            raise vlib.ToolError("x05_stream (%s) died without a summary (rc=%s)\n%s" % (drv, rc, err[-2000:]))
        s = summ[0]
        if rc == 3 or s.get("fatal"):
            raise vlib.ToolError("x05_stream (%s): %s" % (drv, s.get("fatal")))
        _merge(total, s)
        if "aborted_at" not in s:
            return total, details
        start = s["aborted_at"] + 1
    # the code under test panics / hangs in case after case: what was collected decides
    total["extra"]["gave_up_after_restarts"] = 60
    return total, details


def _run_queue(path, timeout=1200):
    rc, out, err = xlib.run_bin("x05_queue", [path], check=False, timeout=timeout)
    lines = vlib.jsonl(out)
    summ = [l for l in lines if l.get("type") == "summary"]
    if not summ:
        raise vlib.ToolError("x05_queue died without a summary (rc=%s)\n%s" % (rc, err[-2000:]))
    details = {}
    for l in lines:
        if l.get("type") in ("contract", "panic", "mismatch", "hang"):
            details.setdefault((l["type"], json.dumps(l["sig"], sort_keys=True)), l)
    total = {"cases": 0, "steps": 0, "problems": {}, "extra": {}}
    _merge(total, summ[0])
    return total, details


def _classify(run, total, details, what):
    drift = 0
    for (ty, sigj), count in sorted(total["problems"].items()):
        d = details.get((ty, sigj), {})
        sig = json.loads(sigj)
        if ty == "mismatch":
            drift += count
            vlib.log("DRIFT (%s): %d cases where implementation and model differ while the contract holds: %s %s" %
                     (what, count, sigj, d.get("desc", "")[:400]))
            continue
        for _ in range(count):
            if run.report(sig, "%s: %s" % (ty, d.get("desc", "")), d.get("case")) == "violation":
                break
    return drift


def _expect_violation(r, what, name):
    if r.error and "timeout" in str(r.error):
        raise vlib.ToolError("%s: %s" % (what, r.error))
    if r.violated != name and ("Invariant %s is violated" % name) not in r.out and ("Temporal properties were violated" not in r.out):
        raise vlib.ToolError("%s: the model must violate %s, got violated=%s error=%s\n%s" % (what, name, r.violated, r.error, r.out[-1500:]))


def _shard(path, k):
    lines = open(path).read().splitlines()
    outs = []
    for i in range(k):
        part = lines[i::k]
        if not part:
            continue
        p = "%s.%d" % (path, i)
        with open(p, "w") as f:
            f.write("\n".join(part) + "\n")
        outs.append(p)
    return outs


def _negative_controls(run, tmp, parse_path, queue_path):
    """corrupted expectations must be noticed (drift); a corrupted contract input must be reported by the contract oracle."""
    bad = os.path.join(tmp, "neg_parse.jsonl")
    n = 0
    with open(parse_path) as f, open(bad, "w") as g:
        for line in f:
            o = json.loads(line)
            st = [s for s in o["steps"] if s["ev"] and s["ev"][0].get("t") == "key"]
            if not st:
                continue
            st[0]["ev"][0]["m"] = st[0]["ev"][0]["m"] ^ 8
            g.write(json.dumps(o) + "\n")
            n += 1
            if n >= 30:
                break
    if n < 10:
        raise vlib.ToolError("negative control: too few parse cases with a key event (%d)" % n)
    total, _ = _run_stream(bad, "iour")
    seen = sum(c for (ty, sj), c in total["problems"].items() if ty == "mismatch")
    if seen < n:
        raise vlib.ToolError("negative control: %d corrupted expectations, %d noticed" % (n, seen))
    # the meaning oracle: a well-formed case whose token list names another key must be reported as `meaning`
    bad2 = os.path.join(tmp, "neg_meaning.jsonl")
    m = 0
    with open(parse_path) as f, open(bad2, "w") as g:
        for line in f:
            o = json.loads(line)
            if o.get("fam") == "wf" and o.get("clean") and o["toks"] == ["up"]:
                o["toks"] = ["ss3_up"]
                o["input"] = [27, 79, 66]     # ESC O B = Down, announced as Up
                g.write(json.dumps(o) + "\n")
                m += 1
    if m:
        raise_fatal = False
        try:
            total2, _ = _run_stream(bad2, "iour")
            fired = sum(c for (ty, sj), c in total2["problems"].items() if ty == "contract")
        except vlib.ToolError:
            raise_fatal = True     # "tokens do not spell the input": the binding check itself refused the case
            fired = m
        if fired < 1 and not raise_fatal:
            raise vlib.ToolError("negative control: a case whose bytes mean another key was accepted")
    badq = os.path.join(tmp, "neg_queue.jsonl")
    k = 0
    with open(queue_path) as f, open(badq, "w") as g:
        for line in f:
            o = json.loads(line)
            fl = [s for s in o["steps"] if s["a"] == "flush" and s.get("sink")]
            if not fl:
                continue
            fl[-1]["sink"] = fl[-1]["sink"] + [7]
            g.write(json.dumps(o) + "\n")
            k += 1
            if k >= 30:
                break
    totalq, _ = _run_queue(badq)
    seenq = sum(c for (ty, sj), c in totalq["problems"].items() if ty == "mismatch")
    if k == 0 or seenq < k:
        raise vlib.ToolError("negative control (queue): %d corrupted expectations, %d noticed" % (k, seenq))
    run.note("negative_control", {"parse_expectations_noticed": "%d/%d" % (seen, n), "queue_expectations_noticed": "%d/%d" % (seenq, k),
                                  "wrong_meaning_cases": m})


def run(run, tier, replay):
    tmp = vlib.scratch()
    try:
        if replay:
            obj = json.load(open(replay))
            case = obj["replay"]
            p = os.path.join(tmp, "one.jsonl")
            with open(p, "w") as f:
                f.write(json.dumps(case) + "\n")
            xlib.cargo_build("hx05", ["x05_stream", "x05_queue"])
            if case.get("k") == "queue":
                total, details = _run_queue(p)
                _classify(run, total, details, "replay")
            else:
                drv = (obj.get("signature") or {}).get("drv")
                for d in ([drv] if drv else ["iour", "poll"]):
                    total, details = _run_stream(p, d)
                    _classify(run, total, details, "replay " + d)
            run.add_traces(1)
            run.cov["states"] = run.cov["transitions"] = 1
            run.sample(case)
            return

        quick = tier == "quick"
        T = 900 if quick else 1700
        for m in ("Gen_TermParse", "TermStream", "TermQueue") + (() if quick else ("MC_TermParseHost", "MC_TermParseH", "MC_TermParseMut", "MC_TermParseWfT")):
            vlib.sany(m)
        pool = cf.ThreadPoolExecutor(max_workers=4)
        bpool = cf.ThreadPoolExecutor(max_workers=1)
        rpool = cf.ThreadPoolExecutor(max_workers=4)
        try:
            build = bpool.submit(xlib.cargo_build, "hx05", ["x05_stream", "x05_queue"])
            mc = {}
            # ---- model checking ----
            if quick:
                plan = [("MC_TermParse", "MC_TermParse_wfq.cfg"), ("MC_TermParse", "MC_TermParse_hostq.cfg"),
                        ("MC_TermParse", "MC_TermParse_fixed.cfg"),
                        ("TermStream", "MC_TermStream.cfg"), ("TermStream", "MC_TermStream_live.cfg"),
                        ("TermQueue", "MC_TermQueue.cfg"), ("TermQueue", "MC_TermQueue_live.cfg")]
                controls = [("MC_TermParse", "MC_TermParse_ctl_stale.cfg", "TimerFresh"),
                            ("MC_TermParse", "MC_TermParse_ctl_nolen2.cfg", "NoPanic"),
                            ("MC_TermParse", "MC_TermParse_ctl_escesc.cfg", "CutIsNeedMore"),
                            ("TermStream", "MC_TermStream_mut_timer.cfg", "EscResolves"),
                            ("TermQueue", "MC_TermQueue_ctl_cancel2.cfg", "ConservationStrict")]
            else:
                plan = [("MC_TermParse", "MC_TermParse_wf.cfg"), ("MC_TermParse", "MC_TermParse_wf_canon.cfg"),
                        ("MC_TermParseWfT", "MC_TermParse_wf_thorough.cfg"),
                        ("MC_TermParseHost", "MC_TermParse_host.cfg"), ("MC_TermParseH", "MC_TermParse_host_thorough.cfg"),
                        ("MC_TermParseMut", "MC_TermParse_mut.cfg"), ("MC_TermParseMut", "MC_TermParse_mut_canon.cfg"),
                        ("MC_TermParse", "MC_TermParse_fixed.cfg"), ("MC_TermParse", "MC_TermParse_live.cfg"),
                        ("TermStream", "MC_TermStream_thorough.cfg"), ("TermStream", "MC_TermStream_live.cfg"),
                        ("TermStream", "MC_TermStream_harmless.cfg"),
                        ("TermQueue", "MC_TermQueue_thorough.cfg"), ("TermQueue", "MC_TermQueue_fixed.cfg"),
                        ("TermQueue", "MC_TermQueue_live.cfg")]
                controls = [("MC_TermParse", "MC_TermParse_ctl_stale.cfg", "TimerFresh"),
                            ("MC_TermParse", "MC_TermParse_ctl_unbounded.cfg", "BufferBounded"),
                            ("MC_TermParse", "MC_TermParse_ctl_mouselen.cfg", "NoPanic"),
                            ("MC_TermParse", "MC_TermParse_ctl_nolen2.cfg", "NoPanic"),
                            ("MC_TermParse", "MC_TermParse_ctl_escesc.cfg", "CutIsNeedMore"),
                            ("MC_TermParse", "MC_TermParse_ctl_keep.cfg", "CutIsNeedMore"),
                            ("TermStream", "MC_TermStream_mut_timer.cfg", "EscResolves"),
                            ("TermStream", "MC_TermStream_mut_resize.cfg", "NoLostWinch"),
                            ("TermStream", "MC_TermStream_mut_input.cfg", "InputConsumed"),
                            ("TermQueue", "MC_TermQueue_ctl_cancel.cfg", "WrittenInRange"),
                            ("TermQueue", "MC_TermQueue_ctl_cancel2.cfg", "ConservationStrict")]
            # ---- behaviours ----
            if quick:
                gens = [("Gen_TermParse", "Gen_TermParse_wf1.cfg", "stream", {}), ("Gen_TermParse", "Gen_TermParse_hostq.cfg", "stream", {}),
                        ("Gen_TermParse", "Gen_TermParse_canon.cfg", "stream", {}), ("TermStream", "Gen_TermStream.cfg", "stream", {}),
                        ("TermQueue", "Gen_TermQueue.cfg", "queue", {}), ("TermQueue", "Gen_TermQueue_cancel.cfg", "queue", {})]
            else:
                gens = [("Gen_TermParse", "Gen_TermParse_wf1.cfg", "stream", {}), ("Gen_TermParse", "Gen_TermParse_wf2.cfg", "stream", {}),
                        ("Gen_TermParse", "Gen_TermParse_wf2all.cfg", "stream", {"limit": 4000}),
                        ("Gen_TermParse", "Gen_TermParse_host.cfg", "stream", {}),
                        ("Gen_TermParse", "Gen_TermParse_host4.cfg", "stream", {"keep": lambda o, i: i % 7 == 0, "limit": 5000}),
                        ("Gen_TermParse", "Gen_TermParse_canon.cfg", "stream", {}),
                        ("Gen_TermParse", "Gen_TermParse_sim_wf.cfg", "stream", {"simulate": 1500, "depth": 90, "limit": 2500}),
                        ("Gen_TermParse", "Gen_TermParse_sim_host.cfg", "stream", {"simulate": 2500, "depth": 40, "limit": 3500}),
                        ("TermStream", "Gen_TermStream_thorough.cfg", "stream", {}),
                        ("TermQueue", "Gen_TermQueue.cfg", "queue", {}), ("TermQueue", "Gen_TermQueue_cancel.cfg", "queue", {}),
                        ("TermQueue", "Gen_TermQueue_thorough.cfg", "queue", {"limit": 60000})]
            gj = {}
            for module, cfg, kind, kw in gens:
                path = os.path.join(tmp, cfg + ".jsonl")
                gj[cfg] = (pool.submit(_gen, module, cfg, path, T, **kw), path, kind)
            mcj = {}
            for module, cfg in plan:
                cov = module in ("TermStream", "TermQueue")
                mcj[cfg] = pool.submit(_mc, module, cfg, mc, 1 if quick else 2, T, cov)
            ctlj = [(pool.submit(_mc, module, cfg, mc, 1, 600, False), cfg, inv) for module, cfg, inv in controls]

            # ---- replay as soon as the behaviours and the binaries exist ----
            floods = os.path.join(tmp, "flood.jsonl")
            with open(floods, "w") as f:
                for what, n in (("paste", 50000 if quick else 1000000), ("csi", 50000 if quick else 1000000)):
                    f.write(json.dumps({"k": "flood", "what": what, "n": n}) + "\n")
            build.result()
            rj = []
            info = {}
            for cfg, (fut, path, kind) in gj.items():
                info[cfg] = fut.result()
                if kind == "queue":
                    rj.append((cfg, "queue", rpool.submit(_run_queue, path)))
                else:
                    for part in _shard(path, 1 if info[cfg]["cases"] < 400 else 2):
                        for drv in ("iour", "poll"):
                            rj.append((cfg, drv, rpool.submit(_run_stream, part, drv)))
            for drv in ("iour", "poll"):
                rj.append(("flood", drv, rpool.submit(_run_stream, floods, drv)))

            # ---- the models ----
            for cfg, fut in mcj.items():
                r = fut.result()
                vlib.require_model_ok(r, cfg)
                if cfg.startswith("MC_TermStream") or cfg.startswith("MC_TermQueue"):
                    z = [a for a, (d, t) in r.coverage.items() if t == 0 and a not in ("EStart", "Emit")]
                    need = (["Poll", "Wake", "Feed", "KernelRead", "TimerFire", "Winch"] if cfg.startswith("MC_TermStream")
                            else ["FlushStart", "WriteOk", "WriteFail", "WriterFlush"])
                    missing = [a for a in need if r.coverage.get(a, (0, 0))[1] == 0]
                    if missing and "live" not in cfg and "harmless" not in cfg:
                        raise vlib.ToolError("%s: vacuous, actions never taken: %s (zero: %s)" % (cfg, missing, z))
                run.add_model(cfg, r)
            for fut, cfg, inv in ctlj:
                fut.result()
                _expect_violation(mc[cfg], "control " + cfg, inv)
            run.note("controls_violating", ["%s:%s" % (c, i) for _, c, i in controls])

            # ---- binding ----
            drift = 0
            extra = {}
            per = {}
            for cfg, drv, fut in rj:
                total, details = fut.result()
                drift += _classify(run, total, details, "%s/%s" % (cfg, drv))
                run.add_traces(total["cases"])
                e = per.setdefault(cfg, {"cases_replayed": 0, "steps": 0})
                e["cases_replayed"] += total["cases"]
                e["steps"] += total["steps"]
                for k, v in total["extra"].items():
                    extra[k] = extra.get(k, 0) + v
            for cfg in info:
                per[cfg]["generator"] = info[cfg]
            run.note("binding", per)
            run.note("harness_counters", extra)
            run.note("drift_cases", drift)
            run.note("job_wall_s", dict(WALL))
            # vacuity of the parser model (TLC's coverage walk does not terminate on the nested case analysis of TermParse):
            # the printed behaviours contain reads, escape time-outs and ends of input
            kinds = {}
            for cfg, (fut, path, kind) in gj.items():
                if kind != "stream":
                    continue
                with open(path) as f:
                    for i, line in enumerate(f):
                        o = json.loads(line)
                        for s in o["steps"]:
                            kinds[s["a"]] = kinds.get(s["a"], 0) + 1
                        if i % 997 == 5:
                            run.sample(o, limit=4)
            missing = [a for a in ("read", "timeout", "eof", "winch", "drop", "new") if not kinds.get(a)]
            if missing:
                raise vlib.ToolError("vacuous: no generated behaviour contains the steps %s" % missing)
            run.note("step_kinds_replayed", kinds)
            late = extra.get("late_events", 0)
            if late > max(20, run.cov["traces_validated_against_impl"] // 50):
                raise vlib.ToolError("%d cases yielded their events later than the model says (binding too weak)" % late)
            if drift:
                raise vlib.ToolError("the implementation differs from the model in %d cases while the contract holds: "
                                     "re-synchronise spec/Term*.tla (see DRIFT lines)" % drift)
            _negative_controls(run, tmp, gj["Gen_TermParse_wf1.cfg"][1], gj["Gen_TermQueue.cfg"][1])
        finally:
            pool.shutdown(wait=True, cancel_futures=True)
            bpool.shutdown(wait=True, cancel_futures=True)
            rpool.shutdown(wait=True, cancel_futures=True)
        run.assumptions += [
            "the kernel's pseudo terminal delivers the bytes of one write to the master as written (raw mode) and the stream "
            "has consumed them when the harness goes on (wake-up, drain, empty input queue, idle driver round)",
            "Instant is monotonic; an escape time-out is judged premature only by time stamps that bracket it",
            "events are compared in a canonical form (code, modifiers, kind, state / kind, button, column, row / paste bytes)",
            "char::is_uppercase restricted to the characters of the alphabets used (ASCII, Latin-1 letters)",
        ]
    finally:
        shutil.rmtree(tmp, ignore_errors=True)
