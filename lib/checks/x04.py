"""X04 - operation futures and combinators of compio-runtime (extension check).

1. TLC checks the implementation-shaped model OpFut (Submit / SubmitMulti / SubmitMultiManaged poll arms, drop,
   try_take; Ext / ExtWaker / with_cancel / fail_fast / with_personality; CancelToken) on both driver variants:
   safety in every state with the kernel batch as a free action, liveness on the fair specification, control
   configurations and model mutations that must violate.
2. Gen_OpFut (Eager variant) prints one shortest path to every distinct model state; the maximal paths are
   replayed by extra/harness/hx04 (x04_replay) on the REAL futures, streams and combinators on the io_uring and
   the polling driver: after every step the model's expectation is compared (DRIFT) and the property's own
   predicates are evaluated on the real observation (VIOLATION unless a known finding).
"""
import concurrent.futures
import json
import os
import re
import shutil
import threading
import time

import vlib
import xlib

LEVEL = "model_checking"
TITLE = "Operation futures and combinators: what is submitted, seen, cancelled and yielded"
STATEMENT = (
    "For every nesting of with_cancel, with_cancel(..).fail_fast() and with_personality around submit(op), "
    "submit(op).with_extra(), submit_multi(op) and submit_multi(op).into_managed(pool), for every join of such branches "
    "under a common outer chain, on the io_uring and the polling driver, and for every order of polls, completions, "
    "token cancellations, try_take and drops: (a) an operation is submitted at the first poll of its future and never "
    "before, and is stamped with exactly the innermost cancel token and the innermost personality of its own path - "
    "nothing of a sibling's or an inner future's chain reaches it, nothing of its own path is lost; clones of the "
    "context's waker made on the runtime thread carry the same data, clones made or used on another thread carry none "
    "and can be woken and dropped there; (b) an operation reports ECANCELED only if its visible token was cancelled, "
    "EINVAL (unregistered personality) only if that personality is visible to it, and otherwise the bytes / connections "
    "the harness gave to this very operation, in order - a fail-slow future always yields the operation's own result, "
    "also when the token is cancelled after the completion; (c) a fail-fast level whose token is cancelled answers "
    "Err(Cancelled) at its next poll without polling anything below it, also when the token was cancelled before "
    "fail_fast() was called, and no legal poll panics; (d) a stream yields its items in order, then its final result, "
    "then None for ever (fused), is_terminated() says so, try_take returns the operation exactly when the stream was "
    "never polled or has finished; (e) dropping a submitted future or stream cancels its operation (input arriving "
    "afterwards stays with the descriptor); (f) every completion, every cancellation of a visible token and every "
    "cancelled fail-fast level wakes the task and is eventually observed. Anchored in compio-runtime/src/future/"
    "{future,stream,mod}.rs, future/combinator/{mod,cancel,personality}.rs, waker/ext.rs, cancel.rs and Runtime::submit / "
    "submit_multi in lib.rs.")
TEXT = ("TLC explores every interleaving of polls, feeds, token cancellations, try_take, drops and kernel batches for "
        "roots built from chains of the three combinators over the four operation futures and a waker probe (model with "
        "one action per poll arm / drop / cancel step of the code), checks the visibility, cancellation, fail-fast, "
        "fused-stream, try_take and drop invariants in every state and resolution under fairness. One shortest path to "
        "every distinct state of the generator variant is replayed on the real compio-runtime types on both drivers with "
        "the expected observation (result, item, token seen by the leaf, personality reported, is_terminated, exact number "
        "of task wake-ups) compared after every step and the contract evaluated on the real observation.")
NOTE = ("Bounds: chains up to depth 2 (quick) / 3 (thorough) over 2 tokens and 2 personalities (one not registered with the "
        "ring, observed as EINVAL), joins of 2 branches, <= 2 feeds per operation, <= 1-2 cancel() per token, 6-9 steps. "
        "Operations: Recv on a Unix socket pair, AcceptMulti on an abstract Unix listener, RecvMulti + buffer pool. The "
        "kernel is a batch per Proactor::poll; replayed schedules let every batch finish before the next step (the harness "
        "waits for the exact number of wake-ups the model predicts, watchdog 25 s). No hooks: observation through the "
        "public API (CancelToken::current, Extra::get_personality, FIONREAD, counting waker). Not covered: "
        "SubmitMultiStream re-submission, Asyncify operations, tokens of another runtime, listeners created between two "
        "cancel() calls of different roots, weak-memory effects of the Arc in OwnedExtWaker.")
TECHNIQUE = "TLA+ model (TLC safety + liveness + controls) + spec-to-impl behaviour replay with contract oracle, both drivers"

JVM = ["-XX:+UseSerialGC", "-XX:-UseParallelGC"]
INVS = ["TypeOK", "ExtInnermost", "RegSound", "CancelOnlyVisible", "BadPersOnlyVisible", "FailFastPrompt", "Fused",
        "TryTake", "DropCancels", "PanicOnlyKnown", "OwnResult"]
ACTIONS = ["PreCancel", "Build", "Cancel", "Feed", "Eof", "KernelStep", "Poll", "Take", "DropRoot"]


def _gen(cfg, path, simulate=None, depth=None, timeout=1500):
    """Run Gen_OpFut and keep the maximal printed paths (every printed path is a prefix-closed behaviour)."""
    cases = {}
    n = [0]

    def sink(o):
        n[0] += 1
        sh = json.dumps([o["o"], o["b"]], sort_keys=True)
        cases.pop((sh, json.dumps(o["steps"][:-1], sort_keys=True)), None)
        cases[(sh, json.dumps(o["steps"], sort_keys=True))] = o

    kw = dict(simulate=simulate, depth=depth) if simulate else {}
    g = vlib.tlc("Gen_OpFut", cfg, workers=1, timeout=timeout, coverage=False, sink=sink, jvm=JVM, **kw)
    if g.error or g.violated:
        raise vlib.ToolError("Gen_OpFut/%s: %s %s\n%s" % (cfg, g.error, g.violated, g.out[-2000:]))
    if not cases:
        raise vlib.ToolError("Gen_OpFut/%s printed no behaviours" % cfg)
    with open(path, "w") as f:
        for o in cases.values():
            f.write(json.dumps(o) + "\n")
    return {"printed": n[0], "cases": len(cases), "distinct_states": g.distinct, "wall_s": round(g.wall, 1)}


def _replay(path, env=None, timeout=2400):
    """Run x04_replay; a crash of the process is data: it is recorded and the run resumes behind the crashing case."""
    start = 0
    total = {"cases": 0, "steps": 0, "problems": {}, "extra": {}}
    details = {}
    crashes = []
    for _ in range(12):
        rc, out, err = xlib.run_bin("x04_replay", [path, "--from", start], check=False, timeout=timeout, env=env)
        lines = vlib.jsonl(out)
        for l in lines:
            if l.get("type") in ("contract", "panic", "mismatch", "hang"):
                details.setdefault((l["type"], json.dumps(l["sig"], sort_keys=True)), l)
        summ = [l for l in lines if l.get("type") == "summary"]
        if rc == 3:
            raise vlib.ToolError("x04_replay: %s" % (summ[0].get("fatal") if summ else err[-2000:]))
        if summ:
            s = summ[0]
            total["cases"] += s["cases"]
            total["steps"] += s["steps"]
            for p in s["problems"]:
                k = (p["type"], json.dumps(p["sig"], sort_keys=True))
                total["problems"][k] = total["problems"].get(k, 0) + p["count"]
            for k, v in s.items():
                if k not in ("type", "cases", "steps", "problems") and isinstance(v, int):
                    total["extra"][k] = total["extra"].get(k, 0) + v
            break
        m = re.findall(r"^case (\d+)$", err, flags=re.M)
        if not m:
            raise vlib.ToolError("x04_replay died (rc=%s) before its first case\n%s" % (rc, err[-2000:]))
        at = int(m[-1])
        crashes.append((at, rc))
        total["cases"] += at - start + 1
        start = at + 1
    else:
        raise vlib.ToolError("x04_replay keeps dying: %s" % crashes[:5])
    return total, details, crashes


def _classify(run, total, details, crashes, what, cases_path):
    drift = 0
    for (ty, sigj), count in sorted(total["problems"].items()):
        d = details.get((ty, sigj), {})
        sig = json.loads(sigj)
        if ty == "mismatch":
            drift += count
            vlib.log("DRIFT (%s): %d steps where implementation and model differ while the contract holds: %s %s" %
                     (what, count, sigj, d.get("desc", "")[:300]))
            continue
        for _ in range(count):
            if run.report(sig, d.get("desc", ""), d.get("case")) == "violation":
                break
    if crashes:
        lines = open(cases_path).read().splitlines()
        for at, rc in crashes:
            run.report({"kind": "process_died", "rc": rc}, "x04_replay died (rc=%s) inside case %d" % (rc, at),
                       json.loads(lines[at]) if at < len(lines) else None)
    return drift


JOB_WALL = {}


def _mc(run, name, cfg, workers, timeout, results, must_hold=True, coverage=True):
    r = vlib.tlc("OpFut", cfg, workers=workers, timeout=timeout, jvm=JVM, coverage=coverage)
    results[name] = r
    JOB_WALL[name] = round(r.wall, 1)
    return r


def _expect_violation(r, what, names):
    """Control runs: the model must violate every named invariant / property (else the check is vacuous)."""
    if r.error and "timeout" in str(r.error):
        raise vlib.ToolError("%s: %s" % (what, r.error))
    for n in names:
        if not re.search(r"(Invariant %s is violated|Temporal property %s was violated|Temporal properties were violated)" % (n, n),
                         r.out) and r.violated != n:
            raise vlib.ToolError("%s: expected the model to violate %s, got %s %s\n%s" %
                                 (what, n, r.violated, r.error, r.out[-1500:]))


def _negative_controls(run, tmp, path):
    """(1) corrupted expectations must be noticed step by step; (2) with the harness' own with_cancel wrappers wired to
    the wrong token the contract oracle must fire."""
    bad = os.path.join(tmp, "neg.jsonl")
    n = 0
    with open(path) as f, open(bad, "w") as g:
        for line in f:
            o = json.loads(line)
            polls = [s for s in o["steps"] if s["a"] == "poll" and s["x"]["lp"]]
            if not polls:
                continue
            polls[-1]["x"]["seen"] += 1
            o["steps"][0]["x"]["dw"] += 0
            g.write(json.dumps(o) + "\n")
            n += 1
            if n >= 60:
                break
    if n < 20:
        raise vlib.ToolError("negative control: too few cases with a polled leaf (%d)" % n)
    total, _, _ = _replay(bad)
    seen = sum(c for (ty, sj), c in total["problems"].items() if ty == "mismatch" and json.loads(sj).get("field") == "seen")
    if seen < n:
        raise vlib.ToolError("negative control: corrupted expectations were accepted (%d/%d noticed)" % (seen, n))
    swap = os.path.join(tmp, "swap.jsonl")
    m = 0
    with open(path) as f, open(swap, "w") as g:
        for line in f:
            o = json.loads(line)
            chain = o["o"] + [w for b in o["b"] for w in b["c"]]
            if any(w in ("C1", "C2") for w in chain) and any(s["a"] == "poll" and s["x"]["lp"] for s in o["steps"]):
                g.write(line)
                m += 1
                if m >= 60:
                    break
    total, _, _ = _replay(swap, env={"X04_FAULT": "swap_tokens"})
    fired = sum(c for (ty, sj), c in total["problems"].items() if ty == "contract" and json.loads(sj).get("kind") == "token_visibility")
    if m < 10 or fired < m // 2:
        raise vlib.ToolError("negative control: wrappers wired to the wrong token were not reported by the contract oracle "
                             "(%d cases, %d reports)" % (m, fired))
    run.note("negative_control", {"corrupted_expectations_noticed": "%d/%d" % (seen, n),
                                  "wrong_token_wiring_reported": "%d/%d" % (fired, m)})


def run(run, tier, replay):
    vlib.sany("OpFut")
    vlib.sany("Gen_OpFut")
    tmp = vlib.scratch()
    try:
        if replay:
            obj = json.load(open(replay))
            p = os.path.join(tmp, "one.jsonl")
            with open(p, "w") as f:
                f.write(json.dumps(obj["replay"]) + "\n")
            xlib.cargo_build("hx04", ["x04_replay"])
            total, details, crashes = _replay(p)
            _classify(run, total, details, crashes, "replay", p)
            run.add_traces(total["cases"])
            run.cov["states"] = run.cov["transitions"] = 1
            run.sample(obj["replay"])
            return
        quick = tier == "quick"
        built = threading.Event()
        build_err = []

        def build():
            try:
                xlib.cargo_build("hx04", ["x04_replay"])
            except Exception as e:  # noqa: BLE001 - re-raised on the main thread
                build_err.append(e)
            built.set()

        threading.Thread(target=build, daemon=True).start()
        mcres = {}
        replays = {}
        sfx = "" if quick else "_thorough"
        LIVE = ("iour",) if quick else ("iour", "poll")
        T = 900 if quick else 3000

        def gen_and_replay(tag, cfg, simulate=None, depth=None):
            path = os.path.join(tmp, tag + ".jsonl")
            info = _gen(cfg, path, simulate=simulate, depth=depth, timeout=T)
            built.wait()
            if build_err:
                return
            t0 = time.time()
            total, details, crashes = _replay(path)
            JOB_WALL[tag] = {"gen": info["wall_s"], "replay": round(time.time() - t0, 1)}
            replays[tag] = (path, info, total, details, crashes)

        jobs = []
        with concurrent.futures.ThreadPoolExecutor(max_workers=4) as ex:
            for d in ("iour", "poll"):
                jobs.append(ex.submit(gen_and_replay, "gen_" + d, "Gen_OpFut_%s.cfg" % d))
            # action coverage (vacuity) is measured on the io_uring run; the polling run has the same actions
            jobs.append(ex.submit(_mc, run, "mc_iour", "MC_OpFut_iour%s.cfg" % sfx, 2, T, mcres, True, True))
            jobs.append(ex.submit(_mc, run, "mc_poll", "MC_OpFut_poll%s.cfg" % sfx, 2, T, mcres, True, False))
            for d in LIVE:
                jobs.append(ex.submit(_mc, run, "live_" + d, "MC_OpFut_live_%s%s.cfg" % (d, sfx), 2, T, mcres, True, False))
            jobs.append(ex.submit(lambda: mcres.__setitem__("ctl", vlib.tlc(
                "OpFut", "MC_OpFut_ctl.cfg", workers=1, timeout=T, jvm=JVM, coverage=False, extra=["-continue"]))))
            jobs.append(ex.submit(_mc, run, "mut_pers", "MC_OpFut_mut_pers.cfg", 1, T, mcres, False, False))
            jobs.append(ex.submit(_mc, run, "live_ctl", "MC_OpFut_live_ctl.cfg", 1, T, mcres, False, False))
            if not quick:
                for d in ("iour", "poll"):
                    jobs.append(ex.submit(gen_and_replay, "edge_" + d, "Gen_OpFut_%s_edge.cfg" % d))
                    jobs.append(ex.submit(gen_and_replay, "vis3_" + d, "Gen_OpFut_%s_vis3.cfg" % d))
                    jobs.append(ex.submit(gen_and_replay, "sim_" + d, "Gen_OpFut_%s_sim.cfg" % d, 500, 9))
                    jobs.append(ex.submit(_mc, run, "join_" + d, "MC_OpFut_%s_join.cfg" % d, 2, T, mcres, True, False))
                jobs.append(ex.submit(_mc, run, "fixed", "MC_OpFut_fixed.cfg", 1, T, mcres, True, False))
                jobs.append(ex.submit(_mc, run, "live_fixed", "MC_OpFut_live_fixed.cfg", 1, T, mcres, True, False))
                jobs.append(ex.submit(_mc, run, "mut_drop", "MC_OpFut_mut_drop.cfg", 1, T, mcres, False, False))
                jobs.append(ex.submit(_mc, run, "live_mutwaker", "MC_OpFut_live_mutwaker.cfg", 1, T, mcres, False, False))
            for j in jobs:
                j.result()
        if build_err:
            raise build_err[0]
        # 1. the model: safety on both drivers, liveness on the fair specification, nothing vacuous
        for name in ["mc_iour", "mc_poll"] + ["live_" + d for d in LIVE] + \
                ([] if quick else ["join_iour", "join_poll", "fixed", "live_fixed"]):
            r = mcres[name]
            vlib.require_model_ok(r, "OpFut/" + name)
            if name == "mc_iour":
                z = [a for a in ACTIONS if r.coverage.get(a, (0, 0))[1] == 0]
                if z:
                    raise vlib.ToolError("OpFut/%s: actions never taken: %s" % (name, z))
            run.add_model("OpFut/" + name, r)
        _expect_violation(mcres["ctl"], "control (strict fail-fast / no panic)", ["ListenCoversPast", "NoPanic"])
        _expect_violation(mcres["mut_pers"], "model mutation with_personality drops the token", ["ExtInnermost"])
        _expect_violation(mcres["live_ctl"], "control (strict fail-fast liveness)", ["FailFastResolvesStrict"])
        if not quick:
            _expect_violation(mcres["mut_drop"], "model mutation drop does not cancel", ["DropCancels"])
            _expect_violation(mcres["live_mutwaker"], "model mutation waker not registered", ["CompletionSeen"])
        run.note("controls_violating", sorted(k for k in mcres if k in ("ctl", "mut_pers", "live_ctl", "mut_drop", "live_mutwaker")))
        # 2. binding
        drift = 0
        for tag in sorted(replays):
            path, info, total, details, crashes = replays[tag]
            drift += _classify(run, total, details, crashes, tag, path)
            run.add_traces(total["cases"])
            run.note(tag, {"generator": info, "cases_replayed": total["cases"], "steps": total["steps"], **total["extra"]})
            with open(path) as f:
                for i, line in enumerate(f):
                    if i % 1500 == 700:
                        run.sample(json.loads(line), limit=3)
        run.note("drift_steps", drift)
        run.note("job_wall_s", dict(JOB_WALL))
        run.note("exhaustive_state_cover", True)
        if drift:
            raise vlib.ToolError("the implementation differs from the model in %d steps while the contract holds: "
                                 "re-synchronise spec/OpFut.tla (see DRIFT lines)" % drift)
        _negative_controls(run, tmp, replays["gen_iour"][0])
        run.assumptions += ["the kernel completes a batch of requests before the next harness step (replayed schedules); "
                            "TLC additionally explores polls between a request and its completion",
                            "Box<dyn Future/Stream> used to nest the combinators dynamically does not change their code",
                            "an unregistered io_uring personality id makes the kernel fail the request with EINVAL"]
    finally:
        shutil.rmtree(tmp, ignore_errors=True)
