"""C13 - framing and ancillary codecs: round trip and hostile-input safety (compio-io framed/*, ancillary/*).

1. TLC checks, on a transcription of every built-in framer (LengthDelimited lfl 1..8 both endiannesses,
   Char/AnyDelimited, NoopFramer), of the Sink side and of the poll_next state machine (spec/Framing.tla):
   the writer receives exactly the enclosed frames; decoded list = encoded list for every fragmentation of
   the byte stream (also with a spurious empty read, a read error, a poll after the end); against a hostile
   peer every extraction step is Frame | NeedMore | an error, every frame lies inside the buffer,
   a progress measure strictly decreases on every step and no state but the final ones lacks a successor.
   spec/Ancillary.tla does the same for the CMSG_SPACE/CMSG_LEN accounting of the control-message builder
   and iterator.
2. Gen_Framing / Gen_Ancillary print behaviours with the model's prediction of every I/O-visible event;
   harness/hio replay_framing / replay_ancillary drive the REAL framers, Framed (Sink + Stream) over scripted
   in-memory I/O, AncillaryBuilder and AncillaryIter, compare every event with the model (drift) and evaluate the
   property itself on the real observation (violation): decoded == encoded, no panic, no error on a
   well-formed stream, termination within a step bound (plus a watchdog), refusal exactly when a message
   does not fit, every slice inside the control buffer.
"""
import concurrent.futures as cf
import json
import os
import shutil
import time

import vlib

LEVEL = "model_checking"
TITLE = "Framing and ancillary codecs: round-trip and hostile-input safety"
TEXT = ("TLC explores, on a transcription of every built-in framer's enclose/extract, of Framed's sink and of its "
        "poll_next state machine, every fragmentation of every small frame list and every short hostile byte string "
        "(lengths symbolic: small(n) | huge | wraps-usize) and checks round trip, in-range indexing, no panic, a strictly "
        "decreasing progress measure and deadlock freedom; a second model does the same for the CMSG_SPACE accounting "
        "of the ancillary builder/iterator. Every printed behaviour is replayed on the real framers, Framed over "
        "scripted I/O and AncillaryBuilder/AncillaryIter, event by event against the model and against the property "
        "itself (decoded == encoded, no panic, bounded termination, refusal iff it does not fit).")
NOTE = ("Bounds (quick): frame lists <= 3 (lfl 1..2, delimiters, noop) / <= 2 (lfl 3..8), payload <= 2 bytes, plus 255/256 "
        "byte payloads behind lfl = 1; every fragmentation of wires <= 4 bytes, else byte-wise, whole and every split "
        "point; hostile strings over {00,01,02,FF} up to header + 2 (lfl 3..8: over {00,FF}, model: header + 2, replay: "
        "header); reads deliver <= 16 bytes (what reserve(16) guarantees). Ancillary: <= 3 messages, payload sizes "
        "0..17, 18 capacities, 64-bit Linux cmsghdr layout only. Trusted: scripted reader/writer of the harness, "
        "BytesCodec/serde_json as codecs, Vec<u8> and BytesMut as buffers. The Err arm of Framer::extract is exercised "
        "with one harness-defined framer (length-limited LengthDelimited). Payloads containing the delimiter are a "
        "precondition of delimiter framing, lfl = 0 and an empty delimiter are outside the quantifier. Hostile control "
        "buffers for AncillaryIter are excluded (its constructor is unsafe and requires valid messages).")
TECHNIQUE = "TLA+ models (TLC exhaustive, progress measure) + spec-to-impl behaviour replay with contract oracle"
DESIGN_REF = "3/C13"

# ------------------------------------------------------------------------------------------------
def _replay_file(binname, path, timeout=900):
    rc, out, err = vlib.run_bin(binname, [path], timeout=timeout)
    lines = vlib.jsonl(out)
    summary = [l for l in lines if l.get("type") == "summary"]
    if not summary:
        raise vlib.ToolError("%s produced no summary\n%s" % (binname, err[-2000:]))
    details = {}
    for l in lines:
        if l.get("type") in ("contract", "panic", "mismatch", "hang"):
            details.setdefault((l["type"], json.dumps(l["sig"], sort_keys=True)), l)
    return summary[0], details


def _classify(run, summary, details, what):
    """contract / panic / hang = the property's own predicate failed on the real observation: a violation unless it
    is a listed known finding.  mismatch = implementation and model differ while the contract holds: drift."""
    drift = 0
    for p in summary["problems"]:
        key = (p["type"], json.dumps(p["sig"], sort_keys=True))
        d = details.get(key, {})
        if p["type"] == "mismatch":
            drift += p["count"]
            vlib.log("DRIFT (%s): %d cases where implementation and model differ but the contract holds: %s %s" %
                     (what, p["count"], json.dumps(p["sig"], sort_keys=True), d.get("desc", "")[:300]))
            continue
        sig = dict(p["sig"])
        sig["type"] = p["type"]
        for _ in range(p["count"]):
            if run.report(sig, "%s: %s" % (p["type"], d.get("desc", "")), d.get("case")) == "violation":
                break
    return drift


def _sany(module, tmpdir):
    """vlib.sany with the JVM's temporary directory inside our scratch directory (SANY and TLC unpack the
    standard modules into java.io.tmpdir and do not always remove them)."""
    import subprocess
    p = subprocess.run(["java", "-Djava.io.tmpdir=" + tmpdir, "-cp", vlib._classpath(), "tla2sany.SANY", module + ".tla"],
                       cwd=vlib.SPEC, stdout=subprocess.PIPE, stderr=subprocess.STDOUT, text=True)
    if p.returncode != 0 or "Semantic errors" in p.stdout or "***Parse Error***" in p.stdout:
        raise vlib.ToolError("SANY failed on %s:\n%s" % (module, p.stdout[-3000:]))


def _timed(what, fn, *a, **kw):
    t0 = time.time()
    try:
        return fn(*a, **kw)
    finally:
        vlib.log("  [%6.1fs] %s" % (time.time() - t0, what))


def _gen(module, cfg, path, **kw):
    """Run a Gen_* config and stream its behaviours into `path`; returns (TlcResult, count)."""
    n = 0
    with open(path, "w") as f:
        def sink(o):
            nonlocal n
            n += 1
            f.write(json.dumps(o) + "\n")
        r = vlib.tlc(module, cfg, coverage=False, sink=sink, **kw)
    if r.error or r.violated:
        raise vlib.ToolError("%s/%s: %s %s\n%s" % (module, cfg, r.error, r.violated, r.out[-2500:]))
    if n == 0:
        raise vlib.ToolError("%s/%s printed no behaviours" % (module, cfg))
    return r, n


def _mc(module, cfg, *, expect=None, ignore_zero=(), **kw):
    r = vlib.tlc(module, cfg, **kw)
    name = "%s/%s" % (module, cfg)
    if expect is not None:
        if r.violated != expect:
            raise vlib.ToolError("%s: control run expected the model to violate %s, got violated=%s error=%s\n%s" %
                                 (name, expect, r.violated, r.error, r.out[-2000:]))
        return r
    vlib.require_model_ok(r, name)
    z = vlib.zero_actions(r, ignore=ignore_zero)
    if z:
        raise vlib.ToolError("%s: vacuous, actions never taken: %s" % (name, z))
    return r


def _negative_control(tmp, src, binname, mutate, want, what):
    bad = os.path.join(tmp, "neg_" + os.path.basename(src))
    k = 0
    with open(src) as f, open(bad, "w") as g:
        for line in f:
            o = json.loads(line)
            if mutate(o):
                g.write(json.dumps(o) + "\n")
                k += 1
                if k >= want:
                    break
    if k == 0:
        raise vlib.ToolError("negative control (%s): no behaviour to corrupt" % what)
    s, _ = _replay_file(binname, bad)
    seen = sum(p["count"] for p in s["problems"] if p["type"] == "mismatch")
    if seen < k:
        raise vlib.ToolError("negative control (%s): %d corrupted expectations, only %d noticed" % (what, k, seen))
    return k


def _corrupt_item(o):
    for e in o["ev"]:
        if e["e"] == "it":
            e["p"] = list(e["p"]) + [7]
            return True
    return False


def _corrupt_blen(o):
    if o["phase"] != "done":
        return False
    o["blen"] += 8
    return True


# ------------------------------------------------------------------------------------------------
def run(run, tier, replay):
    tmp = vlib.scratch()
    try:
        if replay:
            obj = json.load(open(replay))
            case = obj["replay"]
            p = os.path.join(tmp, "one.jsonl")
            with open(p, "w") as f:
                f.write(json.dumps(case) + "\n")
            binname = "replay_ancillary" if "cap" in case else "replay_framing"
            vlib.cargo_build("hio", [binname])
            s, d = _replay_file(binname, p)
            _classify(run, s, d, "replay")
            run.add_traces(s["cases"])
            run.cov["states"] = run.cov["transitions"] = 1
            run.sample(case)
            return

        quick = tier == "quick"
        jtmp = os.path.join(tmp, "jvm")
        os.makedirs(jtmp, exist_ok=True)
        JVM = ["-Djava.io.tmpdir=" + jtmp]
        pool = cf.ThreadPoolExecutor(max_workers=4)      # <= 4 TLC processes, one worker each
        bpool = cf.ThreadPoolExecutor(max_workers=1)     # cargo mostly waits for the shared build lock
        try:
            # SANY on the Gen_* modules also parses and checks the modules they extend (Framing, Ancillary)
            mods = ("Gen_Framing", "Gen_Ancillary") if quick else ("Framing", "Gen_Framing", "Ancillary", "Gen_Ancillary")
            fs = [pool.submit(_timed, "sany " + m, _sany, m, jtmp) for m in mods]
            build = bpool.submit(_timed, "cargo build", vlib.cargo_build, "hio", ["replay_framing", "replay_ancillary"])
            for f in fs:
                f.result()

            # ---- 1. model checking (all runs in parallel, <= 4 TLC workers in total) ----
            T = 900 if quick else 1700
            # actions of the pinned (unrepaired) code fire only in the control configurations
            OLD = ("IdleExtractPanics", "PollPoisoned")
            RT_ONLY = OLD + ("IdleExtractErr", "PollErrored", "PollAfterFailed", "ReadDataLazy")
            if quick:
                mcplan = [("Framing", "MC_Framing.cfg", 1, OLD + ("ReadErr", "PollAfterDone", "PollAfterFailed")),
                          ("Framing", "MC_Framing_env.cfg", 1, OLD),
                          ("Ancillary", "MC_Ancillary.cfg", 1, ())]
            else:
                mcplan = [("Framing", "MC_Framing_thorough.cfg", 1, RT_ONLY),
                          ("Framing", "MC_Framing_hostile_thorough.cfg", 1,
                           OLD + ("StartSend", "WriteSome", "WriteDone", "Close", "ReadData", "ReadErr", "PollAfterDone",
                                  "PollAfterFailed")),
                          ("Framing", "MC_Framing_env.cfg", 1, OLD),
                          ("Framing", "MC_Framing_trunc.cfg", 1, RT_ONLY + ("ReadErr", "PollAfterDone")),
                          ("Ancillary", "MC_Ancillary_thorough.cfg", 1, ())]
            mc = {}
            for module, cfg, w, ign in mcplan:
                mc["%s/%s" % (module, cfg)] = pool.submit(_timed, cfg, _mc, module, cfg, workers=w, timeout=T,
                                                         deadlock=True, ignore_zero=ign, jvm=JVM)
            # controls: with the switch of a repaired defect set to the pinned behaviour (Fix... = FALSE) and
            # without the remaining named deviation the strict invariant must fail
            controls = []
            if not quick:
                controls += [("Framing", "MC_Framing_strict.cfg", "NoPanic"),          # FixExtractOverflow = FALSE
                             ("Framing", "MC_Framing_strict2.cfg", "NoPanic"),         # FixFramerError = FALSE
                             ("Framing", "MC_Framing_trunc_strict.cfg", "RoundTrip"),  # EncloseTruncates (still known)
                             ("Framing", "MC_Framing_lfl0.cfg", "Progress"),
                             ("Ancillary", "MC_Ancillary_strict.cfg", "DataSliceExact"),     # FixDataSlice = FALSE
                             ("Ancillary", "MC_Ancillary_strict2.cfg", "IterNeverPanics")]   # FixIterShort = FALSE
            ctl = [pool.submit(_mc, m, c, expect=e, workers=1, timeout=600, coverage=False, jvm=JVM) for m, c, e in controls]

            # ---- 2. behaviours ----
            gens = {}
            if quick:
                plan = [("Gen_Framing", "Gen_Framing.cfg", "replay_framing", {}),
                        ("Gen_Framing", "Gen_Framing_env.cfg", "replay_framing", {}),
                        ("Gen_Framing", "Gen_Framing_trunc.cfg", "replay_framing", {}),
                        ("Gen_Ancillary", "Gen_Ancillary.cfg", "replay_ancillary", {})]
            else:
                plan = [("Gen_Framing", "Gen_Framing_thorough.cfg", "replay_framing", {}),
                        ("Gen_Framing", "Gen_Framing_sim.cfg", "replay_framing", {"simulate": 30000, "depth": 400}),
                        ("Gen_Framing", "Gen_Framing_simh.cfg", "replay_framing", {"simulate": 30000, "depth": 400}),
                        ("Gen_Framing", "Gen_Framing_env.cfg", "replay_framing", {}),
                        ("Gen_Framing", "Gen_Framing_trunc.cfg", "replay_framing", {}),
                        ("Gen_Ancillary", "Gen_Ancillary_thorough.cfg", "replay_ancillary", {})]
            for module, cfg, binname, kw in plan:
                path = os.path.join(tmp, cfg + ".jsonl")
                gens[cfg] = (pool.submit(_timed, cfg, _gen, module, cfg, path, workers=1, timeout=T, jvm=JVM, **kw),
                             path, binname, module)

            for name, f in mc.items():
                r = f.result()
                run.add_model(name, r)
            # the error arm of the read machine (framer error, then the stream ends) is reachable in the checked
            # model, else NoPanic / Progress would say nothing about it
            for act in ("IdleExtractErr", "PollErrored"):
                if not any(f.result().coverage.get(act, (0, 0))[1] > 0 for f in mc.values()):
                    raise vlib.ToolError("Framing: the action %s never fired in any checked model" % act)
            for f in ctl:
                f.result()
            run.note("strict_controls_violated_as_required", ["%s/%s:%s" % c for c in controls])
            build.result()

            # ---- 3. replay on the real code ----
            total_drift = 0
            beh = {}
            for cfg, (f, path, binname, module) in gens.items():
                g, n = f.result()
                beh[cfg] = n
                s, d = _timed("replay " + cfg, _replay_file, binname, path, timeout=1500)
                if s.get("aborted"):
                    vlib.log("replay of %s aborted by the watchdog (endless loop in the code under test)" % cfg)
                total_drift += _classify(run, s, d, cfg)
                run.add_traces(s["cases"])
                run.note("steps_" + cfg, s["steps"])
                with open(path) as fh:
                    for i, line in enumerate(fh):
                        if i in (0, n // 2):
                            run.sample(json.loads(line), limit=4)
            run.note("behaviours", beh)
            run.note("drift_cases", total_drift)
            run.note("exhaustive", quick)

            # ---- 4. negative controls: corrupted expectations must be rejected ----
            fr_src = gens[plan[0][1]][1]
            an_src = gens[plan[-1][1]][1]
            k1 = _negative_control(tmp, fr_src, "replay_framing", _corrupt_item, 40, "framing item payload")
            k2 = _negative_control(tmp, an_src, "replay_ancillary", _corrupt_blen, 40, "ancillary buf_len")
            run.note("negative_control_cases", k1 + k2)
        finally:
            pool.shutdown(wait=True, cancel_futures=True)
            bpool.shutdown(wait=True, cancel_futures=True)
        run.assumptions += [
            "the scripted reader/writer of the harness implement AsyncRead/AsyncWrite faithfully (set_len after a fill)",
            "framing logic is independent of payload byte values other than those of the tiny alphabets used",
            "lengths of 2^24 and more are represented by the classes huge / wraps-usize (64-bit usize)",
            "cmsghdr layout of the build target (16 byte header, 8 byte alignment); other layouts only as model constants",
        ]
    finally:
        shutil.rmtree(tmp, ignore_errors=True)
