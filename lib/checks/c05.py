"""C05 - cancellation is prompt, honest and local."""
import drvcheck

LEVEL = "model_checking"
TITLE = "Cancellation is prompt, honest and local"
TEXT = ("The driver model (Driver::cancel as written, cancel tokens, future-drop route, full submission queues) is checked "
        "by TLC with the OpAbs monitor; schedules mixing cancel / token / key-drop with completions are replayed on the real "
        "Proactor and, after each schedule, every cancelled interruptible operation must complete although the awaited event "
        "never happens, with ECANCELED or its genuine data, while the other operations' event streams stay exactly as the model "
        "predicts (locality).")
NOTE = ("Bounds as C01; promptness = completion within 400 ms of polling after the schedule (no tight timing); thread-pool "
        "operations are excluded as documented. The timeout route is covered through the same Driver::cancel path.")
TECHNIQUE = "TLA+ model + contract monitor (TLC exhaustive), schedule replay with promptness oracle, TLC trace validation"
DESIGN_REF = "3/C05"


def run(run, tier, replay):
    drvcheck.run_all(run, tier, "C05", replay)
