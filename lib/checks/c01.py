"""C01 - in-flight operations keep their memory and descriptors alive."""
import drvcheck

LEVEL = "model_checking"
TITLE = "In-flight operations keep their memory and descriptors alive"
TEXT = ("An implementation-shaped TLA+ model of the driver (reference counts, leaked key per submission, SQ overflow, "
        "AsyncCancel, thread-pool hand-over, the three phases of Driver::drop) is composed with the OpAbs ownership "
        "monitor and checked exhaustively by TLC; TLC-generated schedules are replayed on the real Proactor with the hook "
        "events compared step by step, and every recorded event stream is validated by TLC against the monitor "
        "(free / buffer drop only after the OS's final completion or ring close, exactly once, no leak).")
NOTE = ("Bounds: <= 3 operations (single-shot read, multishot accept, thread-pool job), SQ capacity 1-2, <= 2 MORE "
        "completions; schedules are sampled (seeded). Ownership is observed as ordered events (alloc, submit, cqe, free, "
        "buffer drop, ring closed), not as heap bytes; 'unmoved' is not observable. io_uring driver; the polling driver "
        "is covered by PollDriver where registered in the evidence.")
TECHNIQUE = "TLA+ model + contract monitor (TLC exhaustive), schedule replay and TLC trace validation of hook events"
DESIGN_REF = "3/C01"


def run(run, tier, replay):
    drvcheck.run_all(run, tier, "C01", replay)
