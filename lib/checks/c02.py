"""C02 - every operation completes exactly once, with its own result."""
import drvcheck
from checks import x03

LEVEL = "model_checking"
TITLE = "Every operation completes exactly once, with its own result"
TEXT = ("The driver model composed with the OpAbs monitor is checked exhaustively (one stored result per operation, one "
        "delivery, completions only for operations the OS holds, nothing lost on SQ overflow); TLC-generated schedules "
        "with harness-chosen completion orders are replayed on the real Proactor: per step the hook events must equal the "
        "model's, delivered results are compared with what the harness made the OS do (distinct data per operation), and "
        "after each schedule every operation whose awaited event happened must have been delivered. For a runtime driven "
        "by an external event loop the schedules of CompatLoop.tla that pass through the two windows in which the driver "
        "used to strand a finished completion (thread-pool entry invisible to flush(); completion queue not drained after "
        "poll_blocking) are steered through the real compio-compat loop: execute() must return.")
NOTE = ("Bounds as C01. Result identity is checked through distinct byte patterns per operation and the identity of the "
        "returned buffer object; completion delivery is checked under a polling watchdog (400 ms of polling, no wall-clock "
        "ordering). io_uring driver; polling driver where registered in the evidence.")
TECHNIQUE = "TLA+ model + contract monitor (TLC exhaustive), schedule replay and TLC trace validation of hook events"
DESIGN_REF = "3/C02"


def run(run, tier, replay):
    if replay and x03.is_compat_replay(replay):
        x03.compat_leg(run, tier, replay, prefix="compat_")
        return
    drvcheck.run_all(run, tier, "C02", replay)
    if not replay:
        # outcomes left undelivered although the OS has finished them, externally driven runtime (the whole
        # compio-compat leg belongs to ./check C03; this is its stranded-completion share)
        x03.stranded_leg(run, tier)
