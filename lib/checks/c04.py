"""C04 - task and join-handle lifecycle (compio-executor, compio-runtime drop / panic paths).

1. TLC checks the implementation-shaped single-threaded model Task (state word as bit set + reference
   count, hot/cold queue with the snapshot iterator of tick, cell, waker slot) for: poll only while
   neither finished nor cancelled, future / output / allocation dropped exactly once, handle drop
   cancels, detach keeps running, panic isolation, bounded starvation; liveness on the fair spec.
2. TLC checks the cross-thread model TaskRemote (one action per atomic access announced by a hook)
   for: future polled / dropped on the home thread only, result taken exactly once across threads,
   the Shared block never freed under a remote scheduler, a completion reaches a parked joiner,
   no leaked joiner waker. Four genuine defects of the pinned code (D10a, D10b, D11, D12) were found
   with this model, reproduced by the replay and repaired in /repo; the normal configurations model
   the repaired code, control configurations switch one repair off and must violate again.
3. Gen_Task programs are replayed on the real Executor (and through compio-runtime) with instrumented
   futures; Gen_TaskRemote interleavings are replayed with the schedule controller on real threads.
"""
import concurrent.futures
import json
import os
import shutil

import vlib

LEVEL = "model_checking"
TITLE = "Task and join-handle lifecycle"
TEXT = ("TLC explores every program of spawn / wake / self-wake / tick / cancel / detach / handle-drop / panic / clear / "
        "executor-drop on a transcription of compio-executor's task state word, reference count and hot/cold queue, and "
        "every interleaving of a remote JoinHandle, remote wakers and the home thread's tick / clear / drop with one action "
        "per atomic access; the programs are replayed on the real Executor and Runtime with instrumented futures (order of "
        "polls inside each tick, all counters, thread ids), the interleavings on real threads parked at hook points by a "
        "schedule controller, with the property's predicates evaluated on the real observation independently of the model.")
NOTE = ("Bounds: <= 3 tasks, <= 7 commands, max_interval 1-2 (single-threaded); one task, one joiner thread, <= 2 remote "
        "wakers, sync queue 1-2, <= 2 ticks (cross-thread). Sequentially consistent interleavings at hook granularity "
        "(weak-memory reorderings are not decided). A use of freed memory is established from the order of hook events and "
        "the offending thread is never released, so it does not physically happen. Trusted: the add-only hooks sit "
        "immediately before the access they announce. Four genuine defects found by this check were repaired in /repo "
        "(fix: commits 34e0cbc, e47288e, e3e06d8, f63d8e1) and are kept as control configurations of the model.")
TECHNIQUE = "TLA+ models (TLC exhaustive + liveness) + program replay + schedule-controlled interleaving replay"
DESIGN_REF = "3/C04"

ALL_INV_TASK = "hold"

# (module, cfg, expectation) -- expectation: "hold" or a set of invariant/property names one of which must be violated
QUICK_MODELS = [
    ("Task", "MC_Task.cfg", "hold"),
    ("Task", "MC_Task_two.cfg", "hold"),
    ("Task", "MC_Task_live.cfg", "hold"),
    ("Task", "MC_Task_ctl_drop_result_in_taskdrop.cfg", {"WordOk", "NoErr", "ExactlyOnce"}),
    ("Task", "MC_Task_ctl_take_one_less.cfg", {"NoStarvation"}),
    # TaskRemote: the normal configurations model the code as it is now (Fix = all four repairs, Strict)
    ("TaskRemote", "MC_TaskRemote_join.cfg", "hold"),
    ("TaskRemote", "MC_TaskRemote_w1.cfg", "hold"),
    ("TaskRemote", "MC_TaskRemote_w2.cfg", "hold"),
    ("TaskRemote", "MC_TaskRemote_live.cfg", "hold"),
    ("TaskRemote", "MC_TaskRemote_live_w1.cfg", "hold"),
    # controls: with one repair switched off (= the code before that fix) the invariant must fail again
    ("TaskRemote", "MC_TaskRemote_old_d11.cfg", {"NoLostJoinWake"}),
    ("TaskRemote", "MC_TaskRemote_old_d12.cfg", {"NoWakerLeak"}),
    ("TaskRemote", "MC_TaskRemote_old_d10b.cfg", {"NoErr"}),
    ("TaskRemote", "MC_TaskRemote_old_d10a.cfg", {"NoErr"}),
    ("TaskRemote", "MC_TaskRemote_old_d11_live.cfg", {"JoinCompletes", "temporal"}),
]
THOROUGH_MODELS = QUICK_MODELS + [
    ("Task", "MC_Task_mi1_thorough.cfg", "hold"),
    ("Task", "MC_Task_mi2_thorough.cfg", "hold"),
    ("Task", "MC_Task_three_thorough.cfg", "hold"),
    ("Task", "MC_Task_live_thorough.cfg", "hold"),
    ("TaskRemote", "MC_TaskRemote_join_thorough.cfg", "hold"),
    ("TaskRemote", "MC_TaskRemote_w2_thorough.cfg", "hold"),
    ("TaskRemote", "MC_TaskRemote_wake_thorough.cfg", "hold"),
    ("TaskRemote", "MC_TaskRemote_full_thorough.cfg", "hold"),
    ("TaskRemote", "MC_TaskRemote_live_wait_thorough.cfg", "hold"),
]
GEN_TASK_EXH = ["Gen_Task.cfg", "Gen_Task_mi2.cfg"]
GEN_TASK_SIM = ["Gen_Task_sim1.cfg", "Gen_Task_sim2.cfg"]
GEN_REMOTE = ["Gen_TaskRemote_join.cfg", "Gen_TaskRemote_await.cfg", "Gen_TaskRemote_wake.cfg",
              "Gen_TaskRemote_wake2.cfg", "Gen_TaskRemote_full.cfg"]

# hook sites that are scheduling points of TaskRemote; each must be exercised by the replayed schedules
POINTS = ["exec.drain.load", "exec.drain.popped", "exec.drain.sub", "exec.state.unschedule", "exec.state.finish_running",
          "exec.task.wake_joiner", "exec.state.set_dropped", "exec.task.null_shared", "exec.task.drop_waker",
          "exec.state.load", "exec.state.dec", "exec.clear", "exec.free_shared", "exec.state.start_scheduling",
          "exec.state.finish_scheduling", "exec.remote.load_shared", "exec.remote.reserve", "exec.remote.push",
          "exec.remote.push_retry", "exec.remote.unreserve", "exec.remote.wake_driver", "exec.state.set_has_result",
          "exec.state.start_setting_waker", "exec.state.finish_setting_waker", "exec.remote.write_waker",
          "exec.state.set_cancelled", "exec.remote.enter", "exec.remote.leave", "exec.remote.drop_stale_waker",
          "exec.task.wait_scheduling", "exec.task.wait_spin"]


# control configurations whose counterexample is kept as a regression schedule: constants of the configuration
REGRESSION = {
    "MC_TaskRemote_old_d11.cfg": dict(Setup="fresh", NW=0, SyncCap=1),
    "MC_TaskRemote_old_d12.cfg": dict(Setup="fresh", NW=0, SyncCap=1),
    "MC_TaskRemote_old_d10b.cfg": dict(Setup="hot", NW=1, SyncCap=1),
    "MC_TaskRemote_old_d10a.cfg": dict(Setup="hot", NW=2, SyncCap=1),
}
_DUMPDIR = [None]


def _model(job):
    module, cfg, expect = job
    live = "live" in cfg
    extra = None
    if cfg in REGRESSION and _DUMPDIR[0]:
        extra = ["-dumpTrace", "json", os.path.join(_DUMPDIR[0], cfg + ".trace.json")]
    r = vlib.tlc(module, cfg, workers=2, timeout=3000, coverage=(expect == "hold" and not live), extra=extra)
    return job, r


def run_models(run, jobs, dumpdir=None):
    """Run the TLC jobs (a few at a time); the counterexamples of the REGRESSION controls are dumped as json."""
    fired = {}
    declared = {}
    _DUMPDIR[0] = dumpdir
    with concurrent.futures.ThreadPoolExecutor(max_workers=3) as ex:
        for (module, cfg, expect), r in ex.map(_model, jobs):
            name = "%s/%s" % (module, cfg)
            if expect == "hold":
                vlib.require_model_ok(r, name)
                run.add_model(name, r)
                for a, (d, t) in r.coverage.items():
                    declared.setdefault(module, set()).add(a)
                    if t > 0:
                        fired.setdefault(module, set()).add(a)
            else:
                if r.error:
                    raise vlib.ToolError("%s: TLC error: %s\n%s" % (name, r.error, r.out[-2000:]))
                if r.violated is None or (r.violated not in expect and "temporal" not in expect):
                    raise vlib.ToolError("control %s: expected a violation of one of %s, got %s" %
                                         (name, sorted(expect), r.violated))
                run.cov.setdefault("controls", []).append({"cfg": cfg, "violated": r.violated, "states": r.distinct})
    for module, names in declared.items():
        # invariants / properties also appear in the coverage listing: only real actions are declared in Next
        zero = sorted(a for a in names - fired.get(module, set())
                      if not a.startswith(("NoErr", "Exactly", "Rc", "Word", "Detach", "Joiner", "NoStarv", "Queue",
                                           "HomeOnly", "NoWaker", "NoLost", "Pending", "Scnt", "Init", "PanicIsolated")))
        if zero:
            raise vlib.ToolError("%s: vacuous, actions never taken in any configuration: %s" % (module, zero))


class Killed(Exception):
    """The replay process was killed by a signal (the allocator detected heap corruption, SIGSEGV ...)."""

    def __init__(self, sig, case_index, path, mode):
        self.sig, self.case_index, self.path, self.mode = sig, case_index, path, mode


def _bin_lines(binname, args, timeout=3000):
    rc, out, err = vlib.run_bin(binname, args, timeout=timeout, check=False)
    if rc < 0:
        # the code under test corrupted memory (e.g. a double drop of a boxed panic payload): data, not a tool error
        idx = [int(l.split()[1]) for l in err.splitlines() if l.startswith("@case ")]
        raise Killed(-rc, idx[-1] if idx else None, str(args[0]), "runtime" if "--runtime" in args else "executor")
    if rc != 0:
        raise vlib.ToolError("harness binary %s failed rc=%s\n%s" % (binname, rc, err[-3000:]))
    lines = vlib.jsonl(out)
    summ = [l for l in lines if l.get("type") == "summary"]
    if not summ:
        raise vlib.ToolError("%s produced no summary\n%s" % (binname, err[-2000:]))
    if summ[0].get("cases_skipped", 0) and not any(p["type"] in ("contract", "hang", "panic") for p in summ[0]["problems"]):
        # the binary gives up after a dozen abandoned cases; without any reported problem that is a harness fault
        raise vlib.ToolError("%s skipped %d cases after abandoning %d without reporting a problem" %
                             (binname, summ[0]["cases_skipped"], summ[0].get("cases_abandoned", 0)))
    details = {}
    for l in lines:
        if l.get("type") in ("contract", "panic", "mismatch", "hang"):
            details.setdefault((l["type"], json.dumps(l["sig"], sort_keys=True)), l)
    return summ[0], details


def classify(run, summary, details, what):
    """contract / hang / panic problems are property violations unless listed as known findings;
    mismatches (model and implementation differ while the contract holds) are spec drift."""
    drift = 0
    for p in summary["problems"]:
        d = details.get((p["type"], json.dumps(p["sig"], sort_keys=True)), {})
        if p["type"] == "mismatch":
            drift += p["count"]
            vlib.log("DRIFT (%s): %d cases where implementation and model differ but the contract holds: %s" %
                     (what, p["count"], d.get("desc", "")[:400]))
            continue
        for _ in range(p["count"]):
            if run.report(p["sig"], "%s: %s" % (what, d.get("desc", "")), d.get("case")) == "violation":
                break
    return drift


def replay_bin(run, binname, args, what):
    """Run a replay binary; a process killed by a signal while replaying is reported as a violation."""
    try:
        return _bin_lines(binname, args, timeout=6000)
    except Killed as k:
        case = None
        if k.case_index is not None and os.path.exists(k.path):
            with open(k.path) as f:
                for i, line in enumerate(f):
                    if i == k.case_index:
                        case = json.loads(line)
                        break
        run.report({"site": "remote" if binname == "replay_remote" else "task", "what": "process-killed-by-signal",
                    "signal": k.sig, "mode": k.mode},
                   "%s: the replay process was killed by signal %d while replaying case %s (heap corruption / invalid "
                   "memory access caused by the code under test, e.g. a value dropped twice)" % (what, k.sig, k.case_index),
                   case)
        return {"cases": 0, "steps": 0, "problems": [], "actions_released": 0, "threads_quarantined": 0,
                "sites_released": {}}, {}


def generate(module, cfg, path, *, simulate=None, depth=None, timeout=3000):
    n = 0
    with open(path, "w") as f:
        def sink(o):
            nonlocal n
            n += 1
            f.write(json.dumps(o) + "\n")
        g = vlib.tlc(module, cfg, timeout=timeout, coverage=False, sink=sink, simulate=simulate, depth=depth,
                     workers=2)
    if g.error or g.violated:
        raise vlib.ToolError("%s/%s: %s %s\n%s" % (module, cfg, g.error, g.violated, g.out[-2000:]))
    if n == 0:
        raise vlib.ToolError("%s/%s printed no behaviours" % (module, cfg))
    return n


TARGET_BASES = {
    # constants of the two base configurations used for targeted schedules
    "join": dict(Setup="fresh", NW=0, SyncCap=1, MaxTicks=2, MaxJPolls=2, JCmds='{"poll", "hdrop", "cancel", "detach"}'),
    "fullq": dict(Setup="hot", NW=2, SyncCap=1, MaxTicks=1, MaxJPolls=1, JCmds="{}"),
}


# pattern schedules that are replayed in every run: (invariant of Gen_TaskRemote_target whose shortest counterexample
# is the schedule, base constants)
PATTERNS = [
    ("NeverWakeAfterPoll", dict(Setup="cold", NW=2, SyncCap=2, MaxTicks=2, MaxJPolls=1, JCmds="{}")),
]


def targeted_schedule(site, tmp, inv="NeverAt", bases=None):
    """Shortest schedule (from TLC's counterexample to `inv`) e.g. one that parks a thread at `site`; None if unreachable."""
    for base, c in (bases or TARGET_BASES).items():
        cfg = os.path.join(tmp, "target_%s_%s.cfg" % (base, (site or inv).replace(".", "_")))
        with open(cfg, "w") as f:
            f.write("CONSTANTS\n  Setup = \"%s\"\n  NW = %d\n  SyncCap = %d\n  MaxTicks = %d\n  MaxJPolls = %d\n"
                    "  MaxWakes = 1\n  JCmds = %s\n  HCmds = {\"tick\", \"clear\", \"execdrop\"}\n  Spurious = TRUE\n"
                    "  Strict = TRUE\n  Fix = {\"D10a\", \"D10b\", \"D11\", \"D12\"}\n  Site = \"%s\"\n"
                    "SPECIFICATION Spec\nINVARIANTS %s\n" %
                    (c["Setup"], c["NW"], c["SyncCap"], c["MaxTicks"], c["MaxJPolls"], c["JCmds"], site or "none", inv))
        dump = os.path.join(tmp, "trace_%s.json" % (site or inv).replace(".", "_"))
        if os.path.exists(dump):
            os.unlink(dump)
        r = vlib.tlc("Gen_TaskRemote_target", cfg, coverage=False, workers=2, timeout=900,
                     extra=["-dumpTrace", "json", dump])
        if r.error:
            raise vlib.ToolError("targeted schedule for %s: %s\n%s" % (site, r.error, r.out[-1500:]))
        if r.violated == inv and os.path.exists(dump):
            return trace_to_schedule(json.load(open(dump)), c)
    return None


def trace_to_schedule(trace, c):
    """TLC json counterexample -> the schedule format printed by Gen_TaskRemote."""
    steps = []
    last = None
    for pre, act, post in trace["counterexample"]["action"]:
        a, b, name = pre[1], post[1], act["name"]
        last = b
        if name.startswith("H"):
            th = "H"
        elif name.startswith("J"):
            th = "J"
        else:
            ch = [t for t in a["pc"] if a["pc"][t] != b["pc"][t] or a["loc"][t] != b["loc"][t]]
            if len(ch) != 1:
                raise vlib.ToolError("cannot attribute action %s to a thread (%s)" % (name, ch))
            th = ch[0]
        pcs = {t: a["pc"].get(t, "-") for t in ("H", "J", "W1", "W2")}
        if "Cmd" in name:
            arg = ""
            if name == "HCmdTick":
                cmd = "tick"
            elif name == "HCmdClear":
                cmd = "clear" if b["loc"]["H"]["ctx"] == "clear" else "execdrop"
            elif name == "WCmdWake":
                cmd = "wake"
            elif name == "WCmdDrop":
                cmd = "wdrop"
            elif name == "JCmdPoll":
                cmd, arg = "poll", str(b["loc"]["J"]["jw"])
            elif name == "JCmdCancel":
                cmd = "hdrop" if b["loc"]["J"]["dropres"] else "cancel"
            elif name == "JCmdDetach":
                cmd = "detach"
            else:
                raise vlib.ToolError("unknown command action " + name)
            steps.append({"th": th, "k": "cmd", "a": cmd, "arg": arg, "next": b["pc"][th], "pcs": pcs})
        else:
            arg = ""
            if name == "HUnschedule":
                arg = "ready" if b["pc"]["H"] == "exec.state.finish_running" else "pend"
            steps.append({"th": th, "k": "step", "a": a["pc"][th], "arg": arg, "next": b["pc"][th], "pcs": pcs})
    g = last["g"]
    parked = ("COMPLETED" in last["bits"] and last["pc"]["H"] != "exec.task.wake_joiner" and last["pc"]["J"] == "idle"
              and last["hd"] == "held" and g["jres"] == "pending" and not g["woken"])
    fin = {"polls": g["polls"], "fdrops": g["fdrops"], "rdrops": g["rdrops"], "rtaken": g["rtaken"],
           "deallocs": g["deallocs"], "jwoken": g["jwoken"], "jres": g["jres"], "produced": g["produced"],
           "err": g["err"], "known": g["known"], "dev": g["dev"], "freed": last["shared"] == "freed",
           "parked": parked, "leak": last["alloc"] == "freed" and last["wslot"] != 0}
    return {"setup": c["Setup"], "nw": c["NW"], "cap": c["SyncCap"], "steps": steps, "fin": fin, "targeted": True}


def pair_coverage(paths):
    """(thread, released-from, arrives-at, other thread, other thread's site) pairs in the schedules."""
    pairs = set()
    edges = set()
    for p in paths:
        with open(p) as f:
            for line in f:
                o = json.loads(line)
                for s in o["steps"]:
                    kind = "W" if s["th"].startswith("W") else s["th"]
                    edges.add((kind, s["k"], s["a"], s["next"]))
                    for u, pcu in s["pcs"].items():
                        if u != s["th"] and pcu != "-":
                            pairs.add((kind, s["a"], s["next"], "W" if u.startswith("W") else u, pcu))
    return len(edges), len(pairs)


def run(run, tier, replay):
    for m in ("Task", "Gen_Task", "TaskRemote", "Gen_TaskRemote", "Gen_TaskRemote_target"):
        vlib.sany(m)
    tmp = vlib.scratch()
    try:
        if replay:
            obj = json.load(open(replay))
            case = obj["replay"]
            p = os.path.join(tmp, "one.jsonl")
            with open(p, "w") as f:
                f.write(json.dumps(case) + "\n")
            remote = "setup" in case
            binname = "replay_remote" if remote else "replay_task"
            vlib.cargo_build("hexec", [binname])
            args = [p] + (["--runtime"] if obj.get("signature", {}).get("mode") == "runtime" else [])
            s, d = replay_bin(run, binname, args, "replay")
            classify(run, s, d, "replay")
            run.add_traces(s["cases"])
            run.cov["states"] = run.cov["transitions"] = 1
            run.sample(case["steps"][:6])
            return
        quick = tier == "quick"
        # 1. model checking (invariants, liveness, controls, repairs)
        run_models(run, QUICK_MODELS if quick else THOROUGH_MODELS, tmp)
        run.note("repaired_deviations_kept_as_controls",
                 ["D10a SCHEDULING is one bit (f63d8e1)", "D10b no wait_for_scheduling on the tick path (e3e06d8)",
                  "D11 completion inside SETTING_WAKER is never announced (34e0cbc)",
                  "D12 waker left to the joiner is never dropped (e47288e)"])
        # 2. build the harness while nothing else competes for the cores
        vlib.cargo_build("hexec", ["replay_task", "replay_remote"])
        total_drift = 0

        # 3. behaviours: all generator runs first (a few TLC processes at a time)
        nsim = 1500 if quick else 30000
        nsched = 400 if quick else 4000
        gjobs = [("Gen_Task", cfg, None, None) for cfg in GEN_TASK_EXH] + \
                [("Gen_Task", cfg, nsim, 140) for cfg in GEN_TASK_SIM] + \
                [("Gen_TaskRemote", cfg, nsched, 110) for cfg in GEN_REMOTE]

        def gen(job):
            module, cfg, sim, depth = job
            path = os.path.join(tmp, cfg + ".jsonl")
            return cfg, path, generate(module, cfg, path, simulate=sim, depth=depth)
        with concurrent.futures.ThreadPoolExecutor(max_workers=3) as ex:
            gens = {cfg: (cfg, path, n) for cfg, path, n in ex.map(gen, gjobs)}
        files = [gens[c] for c in GEN_TASK_EXH + GEN_TASK_SIM]
        rfiles = [gens[c] for c in GEN_REMOTE]
        for cfg in GEN_TASK_EXH:
            run.note(cfg + "_programs_exhaustive", gens[cfg][2])
        for cfg in GEN_TASK_SIM:
            run.note(cfg + "_programs_simulated", gens[cfg][2])

        # 4. single-threaded programs on the real Executor and through compio-runtime
        nprog = 0
        for cfg, path, n in files:
            s, d = replay_bin(run, "replay_task", [path], "executor " + cfg)
            total_drift += classify(run, s, d, "executor " + cfg)
            run.add_traces(s["cases"])
            nprog += s["cases"]
            every = max(1, n // (600 if quick else 4000))
            s2, d2 = replay_bin(run, "replay_task", [path, "--runtime", "--every", every], "runtime " + cfg)
            total_drift += classify(run, s2, d2, "runtime " + cfg)
            run.add_traces(s2["cases"])
            run.note(cfg + "_steps", s["steps"] + s2["steps"])
            run.note(cfg + "_runtime_cases", s2["cases"])
        with open(files[0][1]) as f:
            first = json.loads(f.readline())
        run.sample({"program": [(x["a"], x["t"], x["polls"]) for x in first["steps"]]})
        # negative control: corrupt expectations, the replay must notice every one of them
        bad = os.path.join(tmp, "task_neg.jsonl")
        with open(files[0][1]) as f, open(bad, "w") as g2:
            for i, line in enumerate(f):
                if i >= 40:
                    break
                o = json.loads(line)
                o["steps"][-1]["x"]["fdrops"][0] += 1
                g2.write(json.dumps(o) + "\n")
        try:
            sneg, _ = _bin_lines("replay_task", [bad])
            nm = sum(p["count"] for p in sneg["problems"] if p["type"] == "mismatch")
        except Killed:
            nm = 40 if run.violations else 0     # the code under test already crashed the replay above
        if nm < 40:
            raise vlib.ToolError("negative control (replay_task): corrupted expectations accepted (%d/40 noticed)" % nm)

        # 5. cross-thread interleavings with the schedule controller
        edges, pairs = pair_coverage([p for _, p, _ in rfiles])
        run.note("remote_thread_edges_covered", edges)
        run.note("remote_step_x_other_thread_site_pairs_covered", pairs)
        sites = {}
        diverged = None
        released = quarantined = nrem = 0
        for cfg, path, n in rfiles:
            s, d = replay_bin(run, "replay_remote", [path], "remote " + cfg)
            dr = classify(run, s, d, "remote " + cfg)
            total_drift += dr
            if s["cases"] and dr * 2 > s["cases"] and diverged is None:
                # decided at the very end: a divergence must never hide a contract violation found by a later leg
                diverged = ("replay_remote %s: %d of %d schedules diverged from the model: the spec no longer "
                            "describes the code (re-synchronise TaskRemote.tla)" % (cfg, dr, s["cases"]))
            run.add_traces(s["cases"])
            nrem += s["cases"]
            released += s["actions_released"]
            quarantined += s["threads_quarantined"]
            for k, v in s["sites_released"].items():
                sites[k] = sites.get(k, 0) + v
        run.note("remote_actions_released", released)
        run.note("remote_threads_quarantined_before_use_of_freed_memory", quarantined)
        # every scheduling point must be bound in every run: for the points the seeded sample did not exercise
        # TLC produces a shortest schedule that reaches them (edge cover completed deterministically)
        missing = [p for p in POINTS if sites.get(p, 0) == 0]
        targeted = []
        if missing and not run.violations:
            tpath = os.path.join(tmp, "targeted.jsonl")
            with open(tpath, "w") as f:
                for site in missing:
                    sch = targeted_schedule(site, tmp)
                    if sch is None:
                        raise vlib.ToolError("hook point %s is unreachable in the model (vacuous scheduling point)" % site)
                    f.write(json.dumps(sch) + "\n")
                    targeted.append(site)
            s, d = replay_bin(run, "replay_remote", [tpath], "remote targeted")
            total_drift += classify(run, s, d, "remote targeted")
            run.add_traces(s["cases"])
            nrem += s["cases"]
            for k, v in s["sites_released"].items():
                sites[k] = sites.get(k, 0) + v
            missing = [p for p in POINTS if sites.get(p, 0) == 0]
        run.note("remote_points_reached_by_targeted_schedules", targeted)
        # regression schedules: the counterexamples of the control configurations (the code BEFORE each repair) are
        # replayed leniently on the current code: the repaired code must not show the old violation (a revert does)
        rpath = os.path.join(tmp, "regression.jsonl")
        nreg = 0
        with open(rpath, "w") as f:
            for inv, consts in PATTERNS:
                sch = targeted_schedule("", tmp, inv=inv, bases={"pattern": consts})
                if sch is None:
                    raise vlib.ToolError("pattern schedule %s: the model has no such behaviour" % inv)
                sch["pattern"] = inv
                f.write(json.dumps(sch) + "\n")
                nreg += 1
            for cfg, c in REGRESSION.items():
                dump = os.path.join(tmp, cfg + ".trace.json")
                if not os.path.exists(dump):
                    raise vlib.ToolError("control %s left no counterexample trace" % cfg)
                sch = trace_to_schedule(json.load(open(dump)), c)
                sch["lenient"] = True
                sch["regression_of"] = cfg
                f.write(json.dumps(sch) + "\n")
                nreg += 1
        s, d = replay_bin(run, "replay_remote", [rpath], "remote pattern and regression schedules")
        total_drift += classify(run, s, d, "remote pattern schedules and regression schedules (counterexamples of the repaired defects)")
        run.add_traces(s["cases"])
        run.note("remote_pattern_and_regression_schedules_replayed", nreg)
        run.note("remote_schedules_replayed", nrem)
        if missing and diverged is None:
            diverged = "binding lost: hook points never exercised by the replayed schedules: %s" % missing
        with open(rfiles[1][1]) as f:
            first = json.loads(f.readline())
        run.sample({"schedule": [(x["th"], x["a"], x["arg"]) for x in first["steps"][:14]]})
        # negative control: a schedule whose predicted arrival site is wrong must be reported as divergence
        bad = os.path.join(tmp, "remote_neg.jsonl")
        k = 0
        with open(rfiles[0][1]) as f, open(bad, "w") as g2:
            for line in f:
                o = json.loads(line)
                idx = [i for i, x in enumerate(o["steps"]) if x["k"] == "step" and x["next"] not in ("idle",)]
                if not idx:
                    continue
                x = o["steps"][idx[0]]
                x["next"] = "exec.state.dec" if x["next"] != "exec.state.dec" else "exec.clear"
                g2.write(json.dumps(o) + "\n")
                k += 1
                if k >= 12:
                    break
        try:
            sneg, _ = _bin_lines("replay_remote", [bad])
            nm = sum(p["count"] for p in sneg["problems"] if p["type"] == "mismatch")
        except Killed:
            nm = k if run.violations else 0
        if nm < k or k == 0:
            raise vlib.ToolError("negative control (replay_remote): %d corrupted schedules, %d divergences noticed" % (k, nm))
        # teardown family, generated from a probe of the REAL code (independent of the model): a remote scheduler is
        # parked at every hook site of its call in turn while the home thread clears / drops the executor
        s, d = replay_bin(run, "replay_remote", ["--teardown"], "remote teardown family")
        total_drift += classify(run, s, d, "remote teardown family (scheduler parked at each of its hook sites while the "
                                           "executor is torn down)")
        run.add_traces(s["cases"])
        quarantined += s["threads_quarantined"]
        run.note("remote_threads_quarantined_before_use_of_freed_memory", quarantined)
        run.note("remote_teardown_family_members", s.get("teardown_members", 0))
        run.note("remote_teardown_sites_probed", s.get("teardown_sites", {}))
        tsites = s.get("teardown_sites", {})
        if not run.violations and not all("exec.remote.load_shared" in tsites.get(v, []) for v in ("wake", "hdrop", "fullq")):
            raise vlib.ToolError("teardown family: the probe did not see exec.remote.load_shared in every variant: %s" % tsites)
        # free-running leg (no controller): an awaiting joiner on another thread against completion
        nst = 200 if quick else 2000
        s, d = _bin_lines("replay_remote", ["--stress", nst, vlib.seed()], timeout=6000)
        total_drift += classify(run, s, d, "free-running join stress")
        run.add_traces(s["cases"])
        run.note("free_running_join_iterations", s["cases"])
        run.note("negative_controls", "corrupted expectation (replay_task) and corrupted arrival site (replay_remote) rejected")
        if diverged and not run.violations:
            raise vlib.ToolError(diverged)
        run.note("drift_cases", total_drift)
        run.note("programs_replayed", nprog)
        run.note("exhaustive", False)
        run.assumptions += [
            "sequentially consistent interleavings at the granularity of the hook points (one atomic access each)",
            "the instrumented future's behaviour per poll is chosen by the program; join wakers are plain counters",
            "a thread about to touch freed memory is stopped for ever instead of being allowed to do it",
        ]
    finally:
        shutil.rmtree(tmp, ignore_errors=True)
