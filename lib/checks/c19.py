"""C19 - Actors: serial FIFO handling, ordered lifecycle, unique names (compio-actor).

1. TLC checks the implementation-shaped model Actor (mailbox + stop channel + stopping flag, run loop,
   calls, registry, process group, supervision) on several small configurations: safety invariants in
   every state, liveness on the fair specification.  The single recorded deviation (a Call that is still
   queued when the actor exits never returns) is a named action; a strict control run must find it and
   the repaired variant must satisfy the strict property.
2. The recorder (harness/hactor record_actor) runs seeded random programs on the REAL compio-actor API
   (1..3 workers, several client threads, stop racing sends, failing hooks and handlers, named spawns,
   lookups racing start-up, supervisor respawn, group join/leave/send) and writes one ndjson trace.
3. The property's predicates are evaluated directly on every recorded history (contract oracle below):
   these are the VIOLATIONs.  Independently TLC validates the trace against Trace_Actor (same actions as
   the model, call/return brackets, silent internal steps).  A history the oracle accepts but the spec
   rejects is DRIFT (exit 2), never a VIOLATION.
"""
import concurrent.futures
import json
import os
import shutil

import vlib

LEVEL = "model_checking"
TITLE = "Actors: serial FIFO handling, ordered lifecycle, unique names"
TEXT = ("TLC explores every interleaving of senders, callers, stop requests, the actor run loop, registry reserve/"
        "activate/release, process-group routing and supervision on a transcription of compio-actor with one action per "
        "critical section, and checks FIFO/at-most-once/serial handling, hook order, call soundness and completion "
        "(liveness), name uniqueness/visibility and exactly-one group delivery. Histories recorded from the real crate under "
        "seeded random multi-threaded programs are checked against the same predicates directly and validated by TLC "
        "against the model's actions (call/return linearization).")
NOTE = ("Directed programs every batch: 18 group layouts (member full / closed-unpruned / live x join order x cursor) and 6 "
        "failed-start-then-respawn programs (Drop gated), 4 spawn races inside a gated pre_start. A recorder process that dies is reported as a violation of the program in progress. Model bounds: capacity 1..2, 2 senders x 2 messages + stop (casts; calls), 3 messages with failures, 2 racing named "
        "spawns + lookups, supervisor respawn, 2 group members x 3 group sends. Recorded programs: <= 8 actors, <= 4 client "
        "threads, 1..3 workers. No hook in /repo: actors and clients log themselves, ordering by sequence number at the "
        "logging point. A hang is declared only after a 20 s watchdog counted from the observed actor exit. Not covered: "
        "dropping the spawn future before start-up completed, Cluster::join with live actors, group calls, a closed or full "
        "supervisor mailbox. Trusted: flume try_send/recv and futures oneshot semantics as modelled.")
TECHNIQUE = "TLA+ model (TLC safety + liveness) + trace validation of recorded histories with contract oracle"
DESIGN_REF = "3/C19"

QUICK_CFGS = ["MC_Actor.cfg", "MC_Actor_fail.cfg", "MC_Actor_registry.cfg", "MC_Actor_sup.cfg",
              "MC_Actor_group.cfg", "MC_Actor_group_join.cfg", "MC_Actor_live.cfg"]
THOROUGH_CFGS = ["MC_Actor_thorough.cfg", "MC_Actor_call.cfg", "MC_Actor_fail_thorough.cfg", "MC_Actor_registry_thorough.cfg",
                 "MC_Actor_sup.cfg", "MC_Actor_group_thorough.cfg", "MC_Actor_group_join.cfg", "MC_Actor_live.cfg",
                 "MC_Actor_call_fixed.cfg", "MC_Actor_call_live_thorough.cfg", "MC_Actor_fail_live_thorough.cfg"]
# actions of the model that only occur in recorded traces (observations), never in the bounded Next
TRACE_ONLY = {"CallHangs", "ExitObs"}
# serial collector + C1 only: the runs are short, so JVM start-up, GC threads and JIT dominate on a shared machine
JVM_FAST = ["-XX:+UseSerialGC", "-XX:-UseParallelGC", "-XX:TieredStopAtLevel=1"]


def validate_trace(path, timeout):
    """vlib.validate_trace with the cheaper JVM flags (same TRACE / StateDeque / -Xss1g / workers 1 protocol)."""
    env = {"TRACE": os.path.abspath(path), "JAVA_TOOL_OPTIONS": "-Xss1g -Dtlc2.tool.queue.IStateQueue=StateDeque"}
    r = vlib.tlc("Trace_Actor", "Trace_Actor.cfg", workers=1, timeout=timeout, coverage=False, env=env,
                 jvm=["-Xmx4g"] + JVM_FAST, marker="TRACE")
    return ("TRACE_ACCEPTED" in r.out) and r.violated is None and r.error is None, r


# ---------------------------------------------------------------------------------------------------
# contract oracle: the property's predicates on one recorded run
# ---------------------------------------------------------------------------------------------------
CALL_KINDS = ("call", "noreply", "callfail")


def oracle(ev):
    """ev: list of events of one run (ordered by i). Returns list of (pred, description)."""
    bad = []

    def v(pred, desc):
        bad.append((pred, desc))

    spawns = {}            # a -> dict(name, cap, sup, call_i, ret_i, res, p)
    pending_spawn = {}     # p -> a
    hooks = {}             # a -> [(h, ok, i)]
    sends = {}             # (p, n) -> dict(a or None, k, call_i, ret_i, res, group)
    pending_send = {}      # p -> (p, n)
    begins = {}            # (p, n) -> [(a, i, k)]
    per_actor = {}         # a -> list of ("b"/"e", p, n, i, ok)
    exits = {}             # a -> (res, i)
    stops_true = {}        # a -> count
    pending_stop = {}      # p -> a
    lookups = []           # (name, call_i, ret_i, found)
    pending_lookup = {}
    joins = {}             # a -> first gjoin.call i
    sup_events = {}        # a -> [(k, i)]
    trouble = {}           # a -> first i of anything that may close the mailbox
    admitted = {}          # a -> i of start.enter (the actor task runs: its spawn was admitted)
    for e in ev:
        t = e["e"]
        i = e["i"]
        if t == "spawn.call":
            spawns[e["a"]] = dict(name=e["name"], cap=e["cap"], sup=e["sup"], call_i=i, ret_i=None, res=None, p=e["p"])
            pending_spawn[e["p"]] = e["a"]
        elif t == "spawn.ret":
            a = pending_spawn.pop(e["p"], None)
            if a is None:
                v("log-shape", "spawn.ret without spawn.call")
                continue
            spawns[a]["ret_i"] = i
            spawns[a]["res"] = e["res"]
            if e["res"] in ("unavailable", "workerstopped"):
                v("spawn-unexpected", "spawn of actor %s returned %s on a running cluster" % (a, e["res"]))
        elif t == "start.enter":
            admitted.setdefault(e["a"], i)
        elif t == "hook":
            hooks.setdefault(e["a"], []).append((e["h"], e["ok"], i))
            if not e["ok"] or e["h"] == "pre_stop":
                trouble.setdefault(e["a"], i)
        elif t in ("send.call", "gsend.call"):
            key = (e["p"], e["n"])
            if key in sends:
                v("log-shape", "message %s sent twice" % (key,))
            sends[key] = dict(a=e.get("a"), k=e["k"], call_i=i, ret_i=None, res=None, group=(t == "gsend.call"))
            pending_send[e["p"]] = key
        elif t in ("send.ret", "call.ret"):
            key = pending_send.pop(e["p"], None)
            if key is None:
                v("log-shape", "%s without call" % t)
                continue
            sends[key]["ret_i"] = i
            sends[key]["res"] = e["res"]
            sends[key]["v"] = e.get("v", True)
        elif t == "handle.begin":
            key = (e["p"], e["n"])
            begins.setdefault(key, []).append((e["a"], i, e["k"]))
            per_actor.setdefault(e["a"], []).append(("b", e["p"], e["n"], i, True))
            if e["k"] in ("fail", "callfail", "stopself"):
                trouble.setdefault(e["a"], i)
        elif t == "handle.end":
            per_actor.setdefault(e["a"], []).append(("e", e["p"], e["n"], i, e["ok"]))
            if e.get("ss") == "true":
                stops_true[e["a"]] = stops_true.get(e["a"], 0) + 1
        elif t == "stop.call":
            pending_stop[e["p"]] = e["a"]
            trouble.setdefault(e["a"], i)
        elif t == "stop.ret":
            a = pending_stop.pop(e["p"], None)
            if a is not None and e["res"] == "true":
                stops_true[a] = stops_true.get(a, 0) + 1
        elif t == "lookup.call":
            pending_lookup[e["p"]] = (e["name"], i)
        elif t == "lookup.ret":
            nm, ci = pending_lookup.pop(e["p"], (None, None))
            lookups.append((nm, ci, i, e["found"]))
        elif t == "gjoin.call":
            joins.setdefault(e["a"], i)
        elif t == "sup.event":
            sup_events.setdefault(e["a"], []).append((e["k"], i))
        elif t == "exit":
            exits[e["a"]] = (e["res"], i)
            if e["res"] == "lost":
                v("actor-lost", "the task of actor %s ended without reporting an exit" % e["a"])

    def hook_i(a, h):
        for (hh, ok, i) in hooks.get(a, []):
            if hh == h:
                return i
        return None

    # ---- handled one at a time (no overlap of handle.begin / handle.end per actor) -----------------
    for a, seq in per_actor.items():
        open_ = None
        for (kind, p, n, i, ok) in seq:
            if kind == "b":
                if open_ is not None:
                    v("one-at-a-time", "actor %s began handling (%s,%s) while (%s,%s) was still being handled" %
                      (a, p, n, open_[0], open_[1]))
                open_ = (p, n)
            else:
                if open_ != (p, n):
                    v("one-at-a-time", "actor %s: handle.end (%s,%s) does not close the open handler %s" % (a, p, n, open_))
                open_ = None
    # ---- each at most once, only accepted messages, by the addressed actor -------------------------
    for key, bs in begins.items():
        if len(bs) > 1:
            v("at-most-once", "message %s handled %d times (actors %s)" % (key, len(bs), [b[0] for b in bs]))
        s = sends.get(key)
        if s is None:
            v("only-accepted", "actor %s handled message %s that was never sent" % (bs[0][0], key))
            continue
        for (a, i, k) in bs:
            if i < s["call_i"]:
                v("only-accepted", "message %s handled before it was sent" % (key,))
            if k != s["k"]:
                v("only-accepted", "message %s handled with kind %s, sent as %s" % (key, k, s["k"]))
            if s["res"] in ("full", "closed"):
                v("handed-back-not-handled" if s["group"] else "only-accepted",
                  "message %s was rejected (%s) and yet handled by actor %s" % (key, s["res"], a))
            if not s["group"] and s["a"] != a:
                v("only-accepted", "message %s addressed to actor %s handled by actor %s" % (key, s["a"], a))
            if s["group"] and (a not in joins or joins[a] > i):
                v("group-member", "group message %s handled by actor %s that had not joined the group" % (key, a))
            # only while running: after post_start succeeded and before pre_stop
            ps, pst = hook_i(a, "post_start"), hook_i(a, "pre_stop")
            if ps is None or ps > i:
                v("handled-while-running", "actor %s handled %s before post_start" % (a, key))
            if pst is not None and pst < i:
                v("handled-while-running", "actor %s handled %s after pre_stop" % (a, key))
    # ---- acceptance order: per sender, and across senders where real time orders the sends ---------
    acc = {}   # a -> list of (key, call_i, ret_i, begin_i or None)
    for key, s in sends.items():
        if s["res"] in ("ok", "reply", "noreply", "hang"):
            bs = begins.get(key, [])
            a = s["a"] if not s["group"] else (bs[0][0] if bs else None)
            if a is None:
                continue
            acc.setdefault(a, []).append((key, s["call_i"], s["ret_i"], bs[0][1] if bs else None))
    for a, lst in acc.items():
        for (k1, c1, r1, b1) in lst:
            for (k2, c2, r2, b2) in lst:
                if k1 == k2 or b2 is None:
                    continue
                same_sender = k1[0] == k2[0] and k1[1] < k2[1]
                if same_sender or (r1 is not None and r1 < c2):
                    if b1 is None:
                        # a group message that was accepted by another member is not in this list, direct ones are
                        v("fifo-gap", "actor %s handled %s but never the earlier accepted %s" % (a, k2, k1))
                    elif b1 > b2:
                        v("fifo-order", "actor %s handled %s before the earlier accepted %s" % (a, k2, k1))
    # ---- lifecycle hooks: documented order, each exactly once ---------------------------------------
    full = ["pre_start", "post_start", "pre_stop", "post_stop"]
    for a, sp in spawns.items():
        hs = [h for (h, ok, i) in hooks.get(a, [])]
        oks = {h: ok for (h, ok, i) in hooks.get(a, [])}
        if sp["res"] == "nametaken":
            if hs:
                v("hook-order", "actor %s was refused (name taken) but ran hooks %s" % (a, hs))
            continue
        if hs[:1] != ["pre_start"] and sp["res"] is not None:
            v("hook-order", "actor %s: spawn returned %s without pre_start having run (%s)" % (a, sp["res"], hs))
            continue
        if oks.get("pre_start") is False:
            if hs != ["pre_start"]:
                v("hook-order", "actor %s: hooks after a failed pre_start: %s" % (a, hs))
            if sp["res"] not in (None, "startfail"):
                v("spawn-result", "actor %s: pre_start failed but spawn returned %s" % (a, sp["res"]))
            continue
        if sp["res"] == "startfail":
            v("spawn-result", "actor %s: spawn reported a start failure although pre_start succeeded" % a)
        if a in exits:
            if hs != full:
                v("hook-order", "actor %s exited with hooks %s (documented: %s, each once)" % (a, hs, full))
            failed = any(ok is False for ok in oks.values()) or any(
                kind == "e" and not ok for (kind, p, n, i, ok) in per_actor.get(a, []))
            want = "failed" if failed else "stopped"
            if exits[a][0] in ("stopped", "failed") and exits[a][0] != want:
                v("exit-result", "actor %s reported %s, expected %s" % (a, exits[a][0], want))
            if hs == full and hooks[a][3][2] > exits[a][1]:
                v("hook-order", "actor %s: post_stop after the exit was reported" % a)
        elif hs != full[:len(hs)] or len(set(hs)) != len(hs):
            v("hook-order", "actor %s ran hooks %s" % (a, hs))
        if oks.get("post_start") is False and per_actor.get(a):
            v("handled-while-running", "actor %s handled messages although post_start failed" % a)
    for a in hooks:
        if a not in spawns:
            v("log-shape", "hooks of unknown actor %s" % a)
    # ---- stop: at most one call is told that it requested the stop ------------------------------------
    for a, c in stops_true.items():
        if c > 1:
            v("stop-once", "%d stop() calls on actor %s returned true" % (c, a))
    # ---- a requested stop wins over queued messages (biased select, "stop lets the current handler finish") ----
    stop_true_i = {}
    pend = {}
    for e in ev:
        if e["e"] == "stop.call":
            pend[e["p"]] = e["a"]
        elif e["e"] == "stop.ret":
            a = pend.pop(e["p"], None)
            if a is not None and e["res"] == "true":
                stop_true_i.setdefault(a, e["i"])
    for a, s_i in stop_true_i.items():
        prev_end = hook_i(a, "post_start")
        for (kind, p, n, i, ok) in per_actor.get(a, []):
            if kind == "b":
                if prev_end is not None and prev_end > s_i:
                    v("stop-not-preferred", "actor %s received and handled (%s,%s) although a stop request had been accepted "
                      "before it finished the previous handler (stop does not bypass the mailbox)" % (a, p, n))
                    break
            else:
                prev_end = i
    # ---- calls -----------------------------------------------------------------------------------------
    for key, s in sends.items():
        if s["k"] not in CALL_KINDS or s["res"] is None:
            continue
        bs = begins.get(key, [])
        if s["res"] == "hang" and bs:
            v("call-hangs-although-handled", "call %s was handled by actor %s (kind %s) and still did not return within the "
              "watchdog after the actor had exited" % (key, bs[0][0], bs[0][2]))
        elif s["res"] == "hang":
            v("call-hangs-after-exit", "call %s to actor %s was accepted, never handled and did not return within the "
              "watchdog after the actor had exited (its Call is still queued in the closed mailbox)" % (key, s["a"]))
        elif s["res"] == "reply":
            if not s.get("v", True):
                v("call-reply", "call %s received a reply that is not its handler's" % (key,))
            if not bs or bs[0][2] != "call" or bs[0][1] > s["ret_i"]:
                v("call-reply", "call %s returned a reply without its handler having run" % (key,))
        elif s["res"] == "noreply":
            if bs and bs[0][2] == "call":
                v("call-reply", "call %s was answered by its handler but returned NoReply" % (key,))
        elif s["res"] in ("full", "closed"):
            pass   # handled-after-rejection is checked above
    # ---- send results: Closed needs a reason ------------------------------------------------------------
    for key, s in sends.items():
        if s["res"] == "closed" and not s["group"]:
            t0 = trouble.get(s["a"])
            if t0 is None or t0 > s["ret_i"]:
                v("closed-without-cause", "send %s to actor %s returned Closed although nothing had stopped or failed it" %
                  (key, s["a"]))
    # ---- registry ---------------------------------------------------------------------------------------
    named = {a: sp for a, sp in spawns.items() if sp["name"]}

    def released_i(a):
        """first event index at which the recorder knows the name of actor a to be free again"""
        sp = spawns[a]
        cands = []
        if sp["res"] in ("nametaken", "startfail") and sp["ret_i"] is not None:
            cands.append(sp["ret_i"])
        if a in exits:
            cands.append(exits[a][1])
        for (k, i) in sup_events.get(a, []):
            if k in ("terminated", "failed"):
                cands.append(i)
        return min(cands) if cands else None

    for (nm, ci, ri, found) in lookups:
        if found == -2:
            v("lookup-unknown", "lookup(%s) returned a mailbox no spawn of this run created" % nm)
        if found is None or found < 0:
            continue
        sp = spawns.get(found)
        if sp is None or sp["name"] != nm:
            v("lookup-wrong", "lookup(%s) returned actor %s" % (nm, found))
            continue
        pre = [(ok, i) for (h, ok, i) in hooks.get(found, []) if h == "pre_start"]
        if not pre or not pre[0][0] or pre[0][1] > ri:
            v("visible-before-start", "lookup(%s) found actor %s before its start-up succeeded" % (nm, found))
        rel = released_i(found)
        if rel is not None and rel < ci:
            v("visible-after-exit", "lookup(%s) found actor %s after its exit / failed start was reported" % (nm, found))
    # two actors of one name must never both hold it: an actor certainly holds its name from the moment its task
    # runs (start.enter, the reservation precedes it) until it logs a failing pre_start resp. its post_stop
    def holds(a):
        lo = admitted.get(a)
        if lo is None:
            return None
        pre = [(ok, i) for (h, ok, i) in hooks.get(a, []) if h == "pre_start"]
        if pre and not pre[0][0]:
            return (lo, pre[0][1])
        hi = hook_i(a, "post_stop")
        return (lo, hi if hi is not None else 10 ** 9)
    ids_named = sorted(named)
    for x in range(len(ids_named)):
        for y in range(x + 1, len(ids_named)):
            a, b = ids_named[x], ids_named[y]
            if named[a]["name"] != named[b]["name"]:
                continue
            ha, hb = holds(a), holds(b)
            if ha and hb and ha[0] < hb[1] and hb[0] < ha[1]:
                v("two-live-actors-one-name", "name %s: actors %s and %s were both admitted and alive at the same time "
                  "(events %s..%s and %s..%s)" % (named[a]["name"], a, b, ha[0], ha[1], hb[0], hb[1]))
    # a started actor stays visible under its name until it stops: from the return of its spawn to its post_stop
    for (nm, ci, ri, found) in lookups:
        for a, sa in named.items():
            if sa["name"] != nm or sa["res"] != "ok" or sa["ret_i"] is None or sa["ret_i"] > ci:
                continue
            pst = hook_i(a, "post_stop")
            if (pst is None or pst > ri) and found != a:
                v("lookup-misses-live-actor", "lookup(%s) returned %s while actor %s, started under that name, was alive" %
                  (nm, "nothing" if found is None or found < 0 else "actor %s" % found, a))
    for a, sa in named.items():
        if sa["res"] != "nametaken":
            continue
        holders = []
        for b, sb in named.items():
            if b == a or sb["name"] != sa["name"] or sb["res"] == "nametaken":
                continue
            if sb["call_i"] > sa["ret_i"]:
                continue
            rel = released_i(b)
            if rel is not None and rel < sa["call_i"]:
                continue
            holders.append(b)
        if not holders:
            v("name-not-free", "spawn of actor %s was refused (name %s taken) although every other actor of that name had "
              "exited or failed to start" % (a, sa["name"]))
    # ---- process group: a message is only handed back when nobody could take it -------------------------------
    tok_join = {}    # tok -> [a, call_i, ret_i]
    tok_leave = {}   # tok -> first gleave.call i
    pj = {}
    for e in ev:
        if e["e"] == "gjoin.call":
            tok_join[e["tok"]] = [e["a"], e["i"], None]
            pj[e["p"]] = e["tok"]
        elif e["e"] == "gjoin.ret":
            t = pj.pop(e["p"], None)
            if t is not None:
                tok_join[t][2] = e["i"]
        elif e["e"] == "gleave.call":
            tok_leave.setdefault(e["tok"], e["i"])
    for gkey, g in sends.items():
        if not g["group"] or g["res"] not in ("full", "closed") or g["ret_i"] is None:
            continue
        c, r = g["call_i"], g["ret_i"]
        for tok, (a, jc, jr) in tok_join.items():
            if jr is None or jr > c or tok_leave.get(tok, r + 1) < r:
                continue                       # not a member for the whole duration of the call
            ps = [(ok, i) for (h, ok, i) in hooks.get(a, []) if h == "post_start"]
            if not ps or not ps[0][0] or ps[0][1] > c:
                continue                       # not (yet) running
            if trouble.get(a) is not None and trouble[a] < r:
                continue                       # stopped / failing / finishing: may be closed
            inq = 0                            # upper bound of what can sit in the mailbox of a during [c, r]
            for mkey, m in sends.items():
                if mkey == gkey or m["call_i"] > r or m["res"] in ("full", "closed"):
                    continue
                bs = begins.get(mkey, [])
                if m["group"]:
                    if bs and bs[0][0] != a:
                        continue
                elif m["a"] != a:
                    continue
                if bs and bs[0][0] == a and bs[0][1] < c:
                    continue                   # taken out of the mailbox before the call began
                inq += 1
            if inq < spawns[a]["cap"]:
                v("group-handed-back-despite-free-member",
                  "group send %s was handed back (%s) although member actor %s (token %s) was live, not stopping and had "
                  "mailbox room (at most %d of %d queued) for the whole duration of the call" %
                  (gkey, g["res"], a, tok, inq, spawns[a]["cap"]))
                break
    # ---- supervision events ---------------------------------------------------------------------------------
    for a, evs in sup_events.items():
        kinds = [k for (k, i) in evs]
        term = [x for x in evs if x[0] in ("terminated", "failed")]
        if len(term) > 1 or kinds.count("started") > 1 or (term and kinds[-1] == "started"):
            v("sup-events", "supervision events of actor %s: %s" % (a, kinds))
        if term:
            pst = hook_i(a, "post_stop")
            if pst is None or pst > term[0][1]:
                v("sup-events", "terminal supervision event of actor %s before its post_stop" % a)
            if a in exits and exits[a][0] in ("stopped", "failed") and \
                    (exits[a][0] == "stopped") != (term[0][0] == "terminated"):
                v("sup-events", "actor %s exit %s reported to the supervisor as %s" % (a, exits[a][0], term[0][0]))
    return bad


# ---------------------------------------------------------------------------------------------------
# helpers
# ---------------------------------------------------------------------------------------------------
def read_runs(path):
    runs = []
    with open(path) as f:
        for line in f:
            line = line.strip()
            if not line:
                continue
            e = json.loads(line)
            if e["e"] == "reset":
                runs.append([])
            runs[-1].append(e)
    return runs


def write_runs(path, runs):
    with open(path, "w") as f:
        for r in runs:
            for e in r:
                f.write(json.dumps(e, separators=(",", ":")) + "\n")


def validate_runs(tmp, tag, runs, timeout):
    """Returns list of indices (into runs) that Trace_Actor rejects."""
    rejected = []
    base = 0
    rounds = 0
    while base < len(runs) and rounds < 6:
        rounds += 1
        path = os.path.join(tmp, "%s_%d.ndjson" % (tag, rounds))
        write_runs(path, runs[base:])
        ok, r = validate_trace(path, timeout)
        os.unlink(path)
        if ok:
            break
        if r.error and "timeout" in str(r.error):
            raise vlib.ToolError("trace validation timed out (%s)" % tag)
        at = None
        for o in r.printed:
            if isinstance(o, dict) and "rejected_at" in o:
                at = o["rejected_at"]
        if at is None:
            raise vlib.ToolError("trace validation failed without verdict (%s): %s\n%s" % (tag, r.error, r.out[-3000:]))
        n = 0
        idx = None
        for j, run in enumerate(runs[base:]):
            if at <= n + len(run):
                idx = base + j
                break
            n += len(run)
        if idx is None:
            raise vlib.ToolError("rejected_at %s out of range" % at)
        rejected.append((idx, at - n))
        base = idx + 1
    return rejected


def model_check(run, tier):
    cfgs = QUICK_CFGS if tier == "quick" else THOROUGH_CFGS
    cover = {}

    def one(cfg):
        return cfg, vlib.tlc("Actor", cfg, workers=1 if tier == "quick" else 2, timeout=1700,
                             jvm=JVM_FAST if tier == "quick" else JVM_FAST[:2])

    with concurrent.futures.ThreadPoolExecutor(max_workers=9 if tier == "quick" else 2) as ex:
        sany = ex.submit(vlib.sany, "Trace_Actor")     # EXTENDS Actor: parses and checks both modules
        futs = [ex.submit(one, c) for c in cfgs]
        strict = ex.submit(lambda: vlib.tlc("Actor", "MC_Actor_call_strict.cfg", workers=1, timeout=600, coverage=False, jvm=JVM_FAST))
        for f in futs:
            cfg, r = f.result()
            vlib.require_model_ok(r, "Actor/" + cfg)
            run.add_model("Actor/" + cfg, r)
            vlib.log("  model Actor/%s: %d distinct states, %d generated, depth %d, %.0fs" %
                     (cfg, r.distinct, r.generated, r.depth, r.wall))
            for a, (d, t) in r.coverage.items():
                od, ot = cover.get(a, (0, 0))
                cover[a] = (od + d, ot + t)
        rs = strict.result()
        sany.result()
        rc = None
        if tier != "quick":
            rc = ex.submit(lambda: vlib.tlc("Actor", "MC_Actor_registry_ctl.cfg", workers=1, timeout=600, coverage=False, jvm=JVM_FAST)).result()
            rc2 = ex.submit(lambda: vlib.tlc("Actor", "MC_Actor_registry_ctl2.cfg", workers=1, timeout=600, coverage=False, jvm=JVM_FAST)).result()
            if rc2.violated != "RegistrySound" or rc2.error:
                raise vlib.ToolError("registry control 2: expected RegistrySound to be violated with ReserveIgnoresStarting, "
                                     "got %s %s" % (rc2.violated, rc2.error))
    # the repaired close (DrainOnClose) is only exercised by MC_Actor_call_fixed.cfg, which runs in the thorough tier
    skip = TRACE_ONLY | ({"CloseRxDrains"} if tier == "quick" else set())
    zero = sorted(a for a, (d, t) in cover.items() if t == 0 and a not in skip)
    if zero:
        raise vlib.ToolError("Actor: actions never taken in any configuration: %s" % zero)
    if not cover:
        raise vlib.ToolError("Actor: no action coverage reported")
    # non-vacuity of the named deviation: without the exemption the model (the code as it is) violates liveness
    if "CallNeverHangs" not in ((rs.violated or "") + " " + (rs.error or "")):
        raise vlib.ToolError("strict control: expected CallNeverHangs to be violated by CloseRxKeepsQueue, got %s %s" %
                             (rs.violated, rs.error))
    # second control: reporting a start failure before releasing the name must violate FailedStartFreesName
    if rc is not None:
        if rc.violated != "FailedStartFreesName" or rc.error:
            raise vlib.ToolError("registry control: expected FailedStartFreesName to be violated with ReportBeforeRelease, "
                                 "got %s %s" % (rc.violated, rc.error))
        run.note("registry_control", "FailedStartFreesName violated by the variant that reports a failed start before "
                                     "releasing the name (MC_Actor_registry_ctl.cfg)")
    run.note("strict_control", "CallNeverHangs violated by the model of the code as it is (CloseRxKeepsQueue); "
                               "holds with DrainOnClose (MC_Actor_call_fixed.cfg, thorough tier)")
    run.note("model_actions_covered", len(cover))


def record(tmp, tag, seed, runs, hang_ms, replay=None):
    """Runs the recorder. When the process dies (signal / abort inside the code under test) or gives a run up as wedged,
    that is DATA: the program in progress is reported as a problem (with the program as replay) and the remaining
    programs are recorded in a fresh process."""
    all_runs, programs, problems = [], {}, []
    total = {"type": "summary", "cases": 0, "steps": 0, "parked_runs": 0, "aborted": False, "killed": 0, "lost_runs": 0}
    first = 0
    launches = 0
    while first < int(runs) and launches < 8:
        launches += 1
        trace = os.path.join(tmp, "%s_%d.ndjson" % (tag, launches))
        progs = os.path.join(tmp, "%s_%d_progs.jsonl" % (tag, launches))
        args = [trace, progs, seed, runs, hang_ms, replay or "-", first]
        rc, out, err = vlib.run_bin("record_actor", args, timeout=3000, check=False)
        lines = []
        for line in out.splitlines():
            line = line.strip()
            if line.startswith("{"):
                try:
                    lines.append(json.loads(line))
                except ValueError:
                    pass                      # a line cut short by the death of the process
        problems += [l for l in lines if l.get("type") in ("contract", "panic", "hang", "mismatch")]
        summary = [l for l in lines if l.get("type") == "summary"]
        started, done = {}, {}
        if os.path.exists(progs):
            with open(progs) as f:
                for line in f:
                    try:
                        o = json.loads(line)
                    except ValueError:
                        continue
                    if o.get("state") == "start":
                        started[o["run"]] = o
                    elif o.get("state") == "done":
                        done[o["run"]] = o
        for k, o in started.items():
            programs[k] = {"run": k, "prog": o.get("prog")}
            programs[k].update({x: y for x, y in done.get(k, {}).items() if x not in ("run", "state")})
        got = []
        if os.path.exists(trace):
            try:
                got = read_runs(trace)
            except ValueError:
                got = []
        # only runs whose trace was written completely (their "done" line follows the trace)
        got = [r for r in got if r and r[0].get("run") in done and len(r) == done[r[0]["run"]].get("events", len(r))]
        all_runs += got
        total["steps"] += sum(len(r) for r in got)
        total["cases"] += len(got)
        if summary and rc == 0:
            total["parked_runs"] += summary[0].get("parked_runs", 0)
            at = summary[0].get("aborted_at")
            if at is None:
                break
            total["aborted"] = True          # the recorder gave the run up as wedged (already reported as a hang problem)
            first = at + 1
            continue
        # the process died
        if not started:
            raise vlib.ToolError("record_actor failed before the first program (rc=%s)\n%s" % (rc, err[-2000:]))
        inprog = sorted(k for k in started if k not in done)
        lost = sorted(k for k in done if done[k].get("parked") and k not in {r[0].get("run") for r in got})
        total["lost_runs"] += len(lost)
        total["killed"] += 1
        k = inprog[-1] if inprog else max(started)
        sig = -rc if rc is not None and rc < 0 else None
        how = ("killed by signal %d" % sig) if sig else ("ended with exit code %s" % rc)
        prog = started[k].get("prog") or {}
        problems.append({"type": "panic",
                         "sig": {"site": "process", "pred": "recorder-process-died", "class": prog.get("class")},
                         "desc": "run %s: the record_actor process was %s while running program %s (class %s): a panic "
                                 "inside the code under test that cannot be caught (panic while panicking / in a Drop); "
                                 "stderr tail: %s" % (k, how, k, prog.get("class"), err[-300:].replace("\n", " | ")),
                         "case": {"program": prog}})
        vlib.log("  record_actor %s during run %s; continuing with run %s in a fresh process" % (how, k, k + 1))
        first = k + 1
    return all_runs, programs, total, problems


def judge(run, tmp, tag, runs, programs, summary, problems, timeout):
    """oracle + trace validation for one batch. Returns (n_validated, drift list)."""
    # problems seen by the recorder itself (hang of a whole run, panic, impossible observation)
    for p in problems:
        run.report(p["sig"], p["desc"], p.get("case"))
    flagged = {}
    events = 0
    for j, r in enumerate(runs):
        events += len(r)
        bad = oracle(r)
        if bad:
            flagged[j] = bad
            rid = r[0].get("run", j)
            prog = programs.get(rid, {}).get("prog")
            seen = set()
            for (pred, desc) in bad:
                if pred in seen:
                    continue
                seen.add(pred)
                site = "call" if pred == "call-hangs-after-exit" else "oracle"
                run.report({"site": site, "pred": pred}, "run %s: %s" % (rid, desc),
                           {"program": prog, "history": r})
    # trace validation, in parallel halves
    nchunks = 3 if len(runs) > 40 else 1
    step = (len(runs) + nchunks - 1) // nchunks
    chunks = [(k, runs[k:k + step]) for k in range(0, len(runs), step)]
    rejected = []
    with concurrent.futures.ThreadPoolExecutor(max_workers=3) as ex:
        futs = [(k, ex.submit(validate_runs, tmp, "%s_c%d" % (tag, k), ch, timeout)) for (k, ch) in chunks]
        for k, f in futs:
            rejected += [(k + idx, at) for (idx, at) in f.result()]
    drift = []
    for (idx, at) in rejected:
        r = runs[idx]
        rid = r[0].get("run", idx)
        first = r[at - 1] if 0 < at <= len(r) else None
        hard = [b for b in flagged.get(idx, []) if b[0] != "call-hangs-after-exit"]
        if hard:
            vlib.log("trace of run %s rejected by Trace_Actor at event %s; the contract oracle reports it as well" % (rid, first))
            continue
        drift.append({"run": rid, "event": first, "program": programs.get(rid, {}).get("prog")})
        vlib.log("DRIFT: run %s is rejected by Trace_Actor at event %s while the contract oracle is satisfied" % (rid, first))
    return len(runs) - len(rejected), events, drift, flagged


def negative_control(tmp, runs):
    """corrupt one recorded field; the oracle and the trace spec must both reject."""
    pick = None
    for j, r in enumerate(runs[:60]):
        if oracle(r):
            continue
        for x, e in enumerate(r):
            if e["e"] == "handle.begin":
                pick = (j, x)
                break
        if pick:
            break
    if pick is None:
        raise vlib.ToolError("negative control: no run with a handled message among the first runs")
    j, x = pick
    bad = [dict(e) for e in runs[j]]
    bad[x]["n"] = bad[x]["n"] + 50            # a message nobody sent
    if not oracle(bad):
        raise vlib.ToolError("negative control: the contract oracle accepted a corrupted history")
    rej = validate_runs(tmp, "neg", [bad], 600)
    if not rej:
        raise vlib.ToolError("negative control: Trace_Actor accepted a corrupted history")
    # second corruption: a result flipped (send accepted -> handed back) on a message that was handled
    key = (runs[j][x]["p"], runs[j][x]["n"])
    bad2 = [dict(e) for e in runs[j]]
    pend = None
    done = False
    for e in bad2:
        if e["e"] in ("send.call", "gsend.call") and (e["p"], e["n"]) == key:
            pend = e["p"]
        elif pend is not None and e["e"] in ("send.ret", "call.ret") and e["p"] == pend:
            e["res"] = "full"
            done = True
            break
    if done:
        if not oracle(bad2):
            raise vlib.ToolError("negative control 2: the contract oracle accepted a handled-after-rejection history")
        if not validate_runs(tmp, "neg2", [bad2], 600):
            raise vlib.ToolError("negative control 2: Trace_Actor accepted a handled-after-rejection history")
    return 2 if done else 1


def run(run, tier, replay):
    tmp = vlib.scratch()
    try:
        if replay:
            obj = json.load(open(replay))
            prog = (obj.get("replay") or {}).get("program") or obj.get("replay")
            if not isinstance(prog, dict) or "threads" not in prog:
                raise vlib.ToolError("replay file holds no program")
            vlib.sany("Actor")
            vlib.sany("Trace_Actor")
            vlib.cargo_build("hactor", ["record_actor"])
            pf = os.path.join(tmp, "prog.json")
            json.dump(prog, open(pf, "w"))
            n = 40
            runs, programs, summary, problems = record(tmp, "replay", vlib.seed(), n, 20000, pf)
            ok, events, drift, flagged = judge(run, tmp, "replay", runs, programs, summary, problems, 1200)
            run.add_traces(len(runs))
            run.cov["states"] = run.cov["transitions"] = 1
            run.note("replayed_program_runs", len(runs))
            run.note("runs_flagged_by_oracle", len(flagged))
            if drift:
                raise vlib.ToolError("spec drift on the replayed program (%d runs)" % len(drift))
            return
        import time
        t0 = time.time()
        # 1. model (runs concurrently with the build and the recording; joined before the verdict)
        mpool = concurrent.futures.ThreadPoolExecutor(max_workers=1)
        mfut = mpool.submit(model_check, run, tier)
        # 2. record histories from the real crate
        vlib.cargo_build("hactor", ["record_actor"])
        vlib.log("  harness built after %.0fs" % (time.time() - t0))
        batches = [(vlib.seed(), 72)] if tier == "quick" else [(vlib.seed() * 100 + k, 240) for k in range(5)]
        total_runs = total_events = 0
        all_drift = []
        parked = 0
        first_runs = None
        for b, (seed, n) in enumerate(batches):
            runs, programs, summary, problems = record(tmp, "rec%d" % b, seed, n, 20000)
            vlib.log("  batch %d: %d runs, %d events recorded after %.0fs" % (b, len(runs), summary["steps"], time.time() - t0))
            if first_runs is None:
                first_runs = runs
                negpool = concurrent.futures.ThreadPoolExecutor(max_workers=1)
                negf = negpool.submit(negative_control, tmp, first_runs)
            okn, events, drift, flagged = judge(run, tmp, "rec%d" % b, runs, programs, summary, problems, 1700)
            vlib.log("  batch %d judged after %.0fs" % (b, time.time() - t0))
            total_runs += len(runs)
            total_events += events
            all_drift += drift
            parked += summary.get("parked_runs", 0)
            if summary.get("aborted"):
                vlib.log("recorder stopped early after %d runs (see reported problem)" % summary["cases"])
            for r in runs[:1]:
                run.sample({"run": r[0].get("run"), "events": len(r), "head": r[1:9]}, limit=2)
        mfut.result()
        mpool.shutdown()
        vlib.log("  model checking done after %.0fs" % (time.time() - t0))
        run.add_traces(total_runs - len(all_drift))
        run.note("recorded_runs", total_runs)
        run.note("recorded_events", total_events)
        run.note("runs_with_a_parked_call", parked)
        run.note("drift_runs", len(all_drift))
        # 3. negative control
        run.note("negative_controls", negf.result())
        negpool.shutdown()
        run.assumptions += [
            "the log mutex of the recorder serialises logging points; it adds synchronisation but no ordering by wall clock",
            "a call is declared hanging only 20 s after the exit of its actor was observed",
            "handlers, hooks and the supervisor are the recorder's own code; their behaviour per message kind is fixed",
        ]
        if all_drift and not run.violations:
            os.makedirs(vlib.REPLAYS, exist_ok=True)
            p = os.path.join(vlib.REPLAYS, "C19-drift.json")
            json.dump({"property": "C19", "drift": all_drift[:5]}, open(p, "w"), indent=1)
            run.finish()
            raise vlib.ToolError("spec drift: %d recorded runs are rejected by Trace_Actor while the contract oracle is "
                                 "satisfied (the model no longer describes the code): %s" % (len(all_drift), p))
    finally:
        shutil.rmtree(tmp, ignore_errors=True)
