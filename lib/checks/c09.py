"""C09 - timers never fire early and always fire (compio-runtime time module).

1. TLC checks the implementation-shaped model Timer (TimerRuntime wheel / insert / update_waker / cancel /
   min_timeout / wake, Sleep / Timeout / Interval on top, Runtime::poll -> driver wait bounded by
   current_timeout -> wake) exhaustively for small constants: never early, always fires, min_timeout exact,
   wheel = live pending timers, Timeout exact, interval alignment; liveness on the fair spec; seeded model
   mutations must be rejected (non-vacuity).
2. Gen_Timer enumerates every canonical program over two futures (quick) and samples the full bound
   (<= 3 futures, deadlines 0..4, two wakers, 7 steps) with -simulate; harness bin replay_timer executes each
   on the real runtime through the public API in real time (model tick = 4 ms, every step strictly inside its
   tick window, lost windows are retried, never reported), compares the observations step by step and
   evaluates the contract on the real clock readings independently of the model.
3. harness bin e2e_timer runs real block_on programs (sleeps, timeouts, intervals, dropped timers, a pipe made
   ready and a task woken from another thread, a far timer pending all the time) on both drivers.
"""
import concurrent.futures as cf
import json
import os
import shutil

import vlib

LEVEL = "model_checking"
TITLE = "Timers never fire early and always fire"
TEXT = ("TLC explores a transcription of compio-runtime's timer wheel (insert/update_waker/cancel/min_timeout/wake), of "
        "Sleep/Timeout/Interval and of the poll -> wait <= current_timeout -> wake coupling exhaustively for small "
        "constants and checks never-early, always-fires, exact min_timeout, wheel = live pending timers, Timeout "
        "exactness, interval alignment and liveness under fairness. Every canonical program over two futures and a "
        "seeded sample of the full bound is replayed in real time on the real runtime through the public API with "
        "step-by-step comparison and an independent contract oracle on real clock readings; real block_on programs "
        "with I/O completions and cross-thread wakes are run on both drivers.")
NOTE = ("Bounds: model <= 3 futures, deadlines 0..2 (0..4 in thorough / sampled programs), horizon 3-5 ticks, <= 4-6 timers "
        "per program; replay programs 5 steps exhaustive (two futures), 7 steps sampled. Real time: tick 4 ms (lengthened "
        "automatically under load), steps sit mid-tick, so the boundary case deadline == Instant::now() exactly is covered "
        "only by the model (a < instead of <= in wake() is not observable in real time). Trusted: Instant::now() is monotonic; "
        "wakers do not re-enter the timer runtime from wake(). Lateness is only reported when it repeats (> 3 s, three attempts).")
TECHNIQUE = "TLA+ model (TLC exhaustive + liveness) + real-time spec-to-impl behaviour replay with contract oracle + end-to-end runs"
DESIGN_REF = "3/C09"

MUTS = ["wake_strict", "wake_early", "min_latest", "cancel_noop", "timeout_prefers_timer", "interval_drift"]
MUT_EXPECT = {"wake_strict": "AlwaysFires", "wake_early": "NeverEarly", "min_latest": "MinTimeoutCorrect",
              "cancel_noop": "WheelExact", "timeout_prefers_timer": "TimeoutExact", "interval_drift": "IntervalAligned"}
# actions that a configuration cannot take by construction
IGNORE_ZERO = {"MC_Timer_sleep3.cfg": {"CreateTimeout", "CreateInterval", "FinishInner", "DropTick"},
               "MC_Timer_live.cfg": {"CreateTimeout", "FinishInner"}}


def _summary(binname, out, err):
    lines = vlib.jsonl(out)
    summary = [l for l in lines if l.get("type") == "summary"]
    if not summary:
        raise vlib.ToolError("%s produced no summary\n%s" % (binname, err[-2000:]))
    details = {}
    for l in lines:
        if l.get("type") in ("contract", "panic", "mismatch", "hang"):
            details.setdefault((l["type"], json.dumps(l["sig"], sort_keys=True)), l)
    return summary[-1], details


def replay_file(path, env=None):
    rc, out, err = vlib.run_bin("replay_timer", [path], timeout=2400, env=env)
    return _summary("replay_timer", out, err)


def classify(run, summary, details, what):
    """contract / panic / hang problems are property violations (unless listed as known finding);
    mismatches without a contract violation are spec drift: logged, never an alarm."""
    drift = 0
    for p in summary["problems"]:
        key = (p["type"], json.dumps(p["sig"], sort_keys=True))
        d = details.get(key, {})
        if p["type"] == "mismatch":
            drift += p["count"]
            vlib.log("DRIFT (%s): %d steps where implementation and model differ but the contract holds: %s %s" %
                     (what, p["count"], json.dumps(p["sig"]), d.get("desc", "")[:300]))
            continue
        run.report(p["sig"], "%s: %s" % (what, d.get("desc", "")), d.get("case"))
    return drift


GC = ["-XX:ParallelGCThreads=2"]


def model_check(cfg, workers, timeout, liveness=False):
    r = vlib.tlc("Timer", cfg, workers=workers, timeout=timeout, jvm=GC,
                 extra=["-lncheck", "final"] if liveness else None)
    vlib.require_model_ok(r, "Timer/" + cfg)
    z = vlib.zero_actions(r, ignore=IGNORE_ZERO.get(cfg, ()))
    if z:
        raise vlib.ToolError("Timer/%s: vacuous, actions never taken: %s" % (cfg, z))
    if liveness and "temporal properties" not in r.out:
        raise vlib.ToolError("Timer/%s: TLC did not check the temporal properties\n%s" % (cfg, r.out[-1500:]))
    return r


def mutation_control(name):
    r = vlib.tlc("Timer", "MC_Timer_mut_%s.cfg" % name, workers=1, timeout=900, coverage=False, jvm=GC)
    if r.error or r.violated is None:
        raise vlib.ToolError("model mutation %s: expected an invariant violation, got violated=%s error=%s\n%s" %
                             (name, r.violated, r.error, r.out[-1500:]))
    return name, r.violated


def unfair_control():
    r = vlib.tlc("Timer", "MC_Timer_unfair.cfg", workers=1, timeout=600, coverage=False, jvm=GC)
    # TLC words this "Temporal property Completes was violated" (an error text for vlib)
    hit = r.violated is not None or (r.error is not None and "Completes was violated" in r.error) \
        or "Temporal properties were violated" in r.out
    if not hit:
        raise vlib.ToolError("liveness control: without fairness Completes must be violated, got %s %s" %
                             (r.violated, r.error))
    return "Completes"


def generate(cfg, path, simulate=None, depth=None, timeout=1500, workers=2):
    n = 0
    first = []
    with open(path, "w") as f:
        def sink(o):
            nonlocal n
            n += 1
            if len(first) < 2 and n % 997 == 1:
                first.append(o)
            f.write(json.dumps(o) + "\n")
        g = vlib.tlc("Gen_Timer", cfg, timeout=timeout, coverage=False, sink=sink, simulate=simulate, depth=depth,
                     workers=workers, jvm=GC)
    if g.error or g.violated:
        raise vlib.ToolError("Gen_Timer/%s: %s %s\n%s" % (cfg, g.error, g.violated, g.out[-2000:]))
    if n == 0:
        raise vlib.ToolError("Gen_Timer/%s printed no behaviours" % cfg)
    return n, first


def run(run, tier, replay):
    tmp = vlib.scratch()
    try:
        if replay:
            obj = json.load(open(replay))
            case = obj["replay"]
            vlib.cargo_build("htime", ["replay_timer", "e2e_timer"])
            if isinstance(case, dict) and case.get("program") == "e2e":
                rc, out, err = vlib.run_bin("e2e_timer", ["one", case["driver"], case["seed"]], timeout=600)
                s, d = _summary("e2e_timer", out, err)
                classify(run, s, d, "replay e2e")
            else:
                if case is None:
                    raise vlib.ToolError("this replay file carries no behaviour (hang of the whole replay binary); "
                                         "re-run ./check C09")
                p = os.path.join(tmp, "one.jsonl")
                with open(p, "w") as f:
                    # the same behaviour several times: all four (api, driver) variants
                    for _ in range(8):
                        f.write(json.dumps(case) + "\n")
                s, d = replay_file(p)
                classify(run, s, d, "replay")
            run.add_traces(s["cases"])
            run.cov["states"] = run.cov["transitions"] = 1
            run.sample(case)
            return

        quick = tier == "quick"
        ex = cf.ThreadPoolExecutor(max_workers=8 if quick else 6)
        # ---- everything that needs a JVM or cargo starts at once (1-2 workers each; the fixed cost of a TLC
        #      start dominates the small configurations) ----
        f_sany = [ex.submit(vlib.sany, m) for m in ("Timer", "Gen_Timer")]
        f_build = ex.submit(vlib.cargo_build, "htime", ["replay_timer", "e2e_timer"])
        f_models = [("Timer/MC_Timer.cfg", ex.submit(model_check, "MC_Timer.cfg", 2, 1500)),
                    ("Timer/MC_Timer_live.cfg (FairSpec: Completes, Fires)",
                     ex.submit(model_check, "MC_Timer_live.cfg", 1, 1500, True))]
        muts = MUTS[vlib.seed() % len(MUTS):][:1] if quick else MUTS
        f_mut = [ex.submit(mutation_control, m) for m in muts[:1]]
        p_ex = os.path.join(tmp, "gen_exhaustive.jsonl")
        p_sim = os.path.join(tmp, "gen_full_sim.jsonl")
        f_gex = ex.submit(generate, "Gen_Timer.cfg", p_ex, None, None, 1500, 2)
        f_gsim = ex.submit(generate, "Gen_Timer_full.cfg", p_sim, 3000 if quick else 40000, 8, 1700)
        f_gen_more = []
        for f in f_sany:
            f.result()
        got = dict(f.result() for f in f_mut)
        if not quick:
            f_models.append(("Timer/MC_Timer_thorough.cfg", ex.submit(model_check, "MC_Timer_thorough.cfg", 3, 1700)))
            f_models.append(("Timer/MC_Timer_thorough2.cfg", ex.submit(model_check, "MC_Timer_thorough2.cfg", 2, 1700)))
            for cfg in ("Gen_Timer_sleep3.cfg", "Gen_Timer_one.cfg"):
                f_gen_more.append((cfg, ex.submit(generate, cfg, os.path.join(tmp, cfg + ".jsonl"), None, None, 1500, 1)))
            f_mut2 = [ex.submit(mutation_control, m) for m in muts[1:]]
            f_unfair = ex.submit(unfair_control)
            f_models.append(("Timer/MC_Timer_sleep3.cfg", ex.submit(model_check, "MC_Timer_sleep3.cfg", 1, 1500)))
            f_models.append(("Timer/MC_Timer_mid.cfg", ex.submit(model_check, "MC_Timer_mid.cfg", 1, 1500)))
            f_models.append(("Timer/MC_Timer_live_thorough.cfg (FairSpec)",
                             ex.submit(model_check, "MC_Timer_live_thorough.cfg", 1, 1700, True)))
        if not quick:
            got.update(f.result() for f in f_mut2)
            run.note("liveness_control_unfair_violates", f_unfair.result())
        for m, v in got.items():
            if v != MUT_EXPECT[m]:
                vlib.log("note: model mutation %s is rejected by %s (expected %s)" % (m, v, MUT_EXPECT[m]))
        run.note("model_mutations_rejected", got)
        f_build.result()
        files = []
        n_ex, smp = f_gex.result()
        files.append(("Gen_Timer.cfg (exhaustive)", p_ex, n_ex))
        for o in smp[:1]:
            run.sample(o)
        n_sim, smp = f_gsim.result()
        files.append(("Gen_Timer_full.cfg (simulate, seed %d)" % vlib.seed(), p_sim, n_sim))
        for o in smp[:1]:
            run.sample(o)
        for cfg, f in f_gen_more:
            n, _ = f.result()
            files.append((cfg + " (exhaustive)", os.path.join(tmp, cfg + ".jsonl"), n))
        # ---- replay on the real runtime ----
        total_drift = 0
        stats = {}
        for what, path, n in files:
            s, d = replay_file(path)
            if s.get("aborted"):
                classify(run, s, d, what)
                continue
            if s.get("unrun", 0) > 0:
                raise vlib.ToolError("%s: %d behaviours could not be executed inside their timing windows "
                                     "(machine too loaded); nothing is claimed" % (what, s["unrun"]))
            if s["cases"] != n:
                raise vlib.ToolError("%s: %d behaviours generated but %d replayed" % (what, n, s["cases"]))
            total_drift += classify(run, s, d, what)
            run.add_traces(s["cases"])
            stats[what] = {k: s.get(k) for k in ("cases", "steps", "retried", "tick_lengthened", "lost_ticks",
                                                 "final_tick_ms", "per_driver", "discarded_runtimes", "wall_s")}
        run.note("replay", stats)
        run.note("drift_steps", total_drift)
        run.note("exhaustive", False)
        run.note("exhaustive_scope", "Gen_Timer.cfg exhaustive; Gen_Timer_full.cfg sampled")
        # ---- end-to-end programs on both drivers ----
        rc, out, err = vlib.run_bin("e2e_timer", [6 if quick else 150, vlib.seed()], timeout=2400)
        s, d = _summary("e2e_timer", out, err)
        classify(run, s, d, "e2e")
        if s["cases"] == 0:
            raise vlib.ToolError("e2e_timer ran no program")
        run.add_traces(s["cases"])
        run.note("e2e", {k: s.get(k) for k in ("cases", "steps", "worst_late_ms", "late_retries", "per_driver")})
        # ---- negative control: flipped expectations must be noticed by the replay ----
        bad = os.path.join(tmp, "neg.jsonl")
        k = 0
        with open(p_ex) as f, open(bad, "w") as g2:
            for line in f:
                o = json.loads(line)
                polls = [st for st in o["steps"] if st["a"] == "poll" and st["res"] in ("pending", "ready")]
                if not polls:
                    continue
                st = polls[-1]
                st["res"] = "ready" if st["res"] == "pending" else "pending"
                g2.write(json.dumps(o) + "\n")
                k += 1
                if k >= 60:
                    break
        sneg, _ = replay_file(bad)
        nm = sum(p["count"] for p in sneg["problems"] if p["type"] == "mismatch")
        if k < 60 or nm < k:
            raise vlib.ToolError("negative control: corrupted expectations were accepted (%d/%d noticed)" % (nm, k))
        for name, f in f_models:
            run.add_model(name, f.result())
        run.assumptions += ["Instant::now() is monotonic and shared by harness and runtime",
                            "wakers do not call back into the timer runtime from inside wake()",
                            "the driver returns from poll(Some(ZERO)) without blocking (checked by the watchdog)"]
    finally:
        shutil.rmtree(tmp, ignore_errors=True)
