"""compio-compat leg of C03 (and, for stranded completions, of C02); `./check X03` runs this leg alone.

A runtime driven by a foreign event loop (tokio, async-io) loses nothing while the host sleeps.
The leg was built as extension check X03; since the two defects it found were repaired (compio commits ca1210a,
3888dbb) it decides the "driven by an external event loop" clause of C03: lib/checks/c03.py calls compat_leg().

1. TLC checks CompatLoop (the adapter loop of RuntimeCompat::drive, one action per step, on top of the runtime model
   of Wakeup.tla in external mode) exhaustively: safety in every state, liveness on the fair specification, every
   control (a realistic breaking change of drive(), and each of the two repaired defects of the driver switched back
   on) must violate.
2. Gen_CompatLoop prints schedules (seeded simulation, plus the windows of the two repaired defects); x03_replay steers the thread inside
   RuntimeCompat::execute through them on the real crates (real tokio / async-io adapters, both drivers), comparing
   the site, argument and observation of every turn with the model and applying the contract to the real outcome.
3. x03_stress runs the same programs free, with seeded random timing, also on a multi-thread tokio runtime.
"""
import concurrent.futures as cf
import json
import os
import shutil
import threading

import vlib
import xlib

LEVEL = "model_checking"
TITLE = "compio-compat: nothing is lost while the host event loop sleeps, and the result is block_on's"
STATEMENT = (
    "For every program of compio futures (main future and spawned tasks waiting for cross-thread wake-ups, descriptor "
    "reads, timers and blocking-pool jobs in any combination), every driver (io_uring, polling), both unix adapters "
    "(TokioAdapter on a current-thread or multi-thread tokio runtime, FuturesAdapter over async-io) and every "
    "interleaving of the outside events with the steps of RuntimeCompat::drive (poll, run, flush, choice of the "
    "timeout, Adapter::wait, Adapter::clear, poll_with(ZERO), timer wake): the host is never left sleeping (a) with "
    "an operation still unsubmitted or the wake-up notifier unarmed, (b) with a timeout longer than the earliest "
    "pending timer, (c) without bound over a completion entry, a completed blocking job or a finished wake-up that "
    "the waited descriptor does not report; hence execute(f) returns once everything f waits for has happened, "
    "with the same value as Runtime::block_on(f), and no sleep completes early. Anchored in compio-compat/src/lib.rs "
    "(drive), compio-compat/src/sys/unix/{mod,tokio,futures}.rs, compio-runtime/src/lib.rs (poll_with, flush, "
    "current_timeout, as_raw_fd) and compio-driver/src/sys/driver/{iour,poll}/mod.rs (flush, poll, poll_blocking, "
    "AwakeFlag).")
TEXT = ("TLC explores every interleaving of waking threads, kernel completions, pool threads, deadlines and the host's "
        "reactor with the steps of the adapter loop on an implementation-shaped model (CompatLoop over Wakeup), checks "
        "the three no-sleep invariants in every state and completion under fairness, and shows that four realistic "
        "changes of drive() and the two repaired driver defects break them. Model-generated schedules are then forced on the real crates: the thread inside "
        "RuntimeCompat::execute is parked at hook sites of the driver and at a wrapper around the real adapter, outside "
        "events are injected in the chosen window and confirmed in the kernel (completion queue tail), every turn is "
        "compared with the model, and the outcome must equal the same program's result under Runtime::block_on.")
NOTE = ("Bounds: <= 2 waking threads, <= 2 tasks, <= 2 reads, 1 timer, 1 blocking job per program; cross-thread queue "
        "capacity 1 in the model (2 in replays). tokio's and async-io's internals are environment: modelled as an "
        "edge-triggered readiness cache cleared by clear_ready (tokio) and a level-triggered wait (async-io), both "
        "confirmed by probes and by zero drift. Sequentially consistent atomics. The kernel posts one notifier "
        "completion per eventfd write while the multishot poll is armed and signals the registered eventfd for every "
        "completion entry. Windows inside a hook-free segment are not steered (the free-running leg samples them).")
TECHNIQUE = "TLA+ model (TLC safety + liveness + controls), steered replay of TLC schedules on real threads, seeded stress"
DESIGN_REF = "3/C03 (compio-compat leg), 9/X03"

JVM = ["-XX:+UseSerialGC", "-XX:-UseParallelGC"]
MC_QUICK = ["q1_iour", "qt_iour", "qj_iour", "qj_poll", "qo_iour"]
# (liveness on a, bl, d_iour; b, c, d_poll are the large safety-only configurations)
MC_THOROUGH = MC_QUICK + ["q1_poll", "qt_poll", "qo_poll", "a_iour", "a_poll", "bl_iour", "bl_poll", "b_iour", "b_poll",
                          "c_iour", "c_poll", "d_iour", "d_poll"]
# (config, invariant that must be violated)
# ctl_old*: the repaired defects of the driver switched back on (oldFlush = flush() looks only at the AwakeFlag,
# oldPollBlocking = io_uring poll returns after poll_blocking, old = both)
CTL_QUICK = [("ctl_clear_iour", "CtlClearAfterPoll"), ("ctl_ignore_iour", "CtlIgnoreFlush"),
             ("ctl_oldflush_iour", "CtlOldFlush"), ("ctl_oldpollb_iour", "CtlOldPollBlocking")]
CTL_THOROUGH = CTL_QUICK + [("ctl_ignore_poll", "CtlIgnoreFlush"), ("ctl_notimeout_iour", "CtlNoTimeout"),
                            ("ctl_notimeout_poll", "CtlNoTimeout"), ("ctl_noflush_iour", "CtlNoFlush"),
                            ("ctl_noflush_poll", "CtlNoFlush"), ("ctl_oldflush_poll", "CtlOldFlush"),
                            ("ctl_old_iour", "CtlOld")]
# (config, behaviours simulated in the quick tier): one configuration per driver serves every program (the initial
# state chooses it); "tar" = schedules aimed at the windows of the two repaired defects
GEN = [("gen_iour", 60), ("gen_poll", 60), ("tar_iour", 30), ("tar_poll", 30)]
GEN_THOROUGH_ONLY = []
# every action of the adapter loop must be taken in some exhaustive configuration (XNoFlush exists only in a control)
NEED_ACTIONS = ["XPollMain", "XRunTask", "XJoinWake", "XFlushArm", "XFlush", "XFlushReset", "ADecide", "AWaitPoll",
                "HTurn", "AWakeReady", "AWakeTimeout", "AClear", "XPollBlocking", "XPollNoBlocking", "XEnter",
                "XLeaveTimedOut", "XLeave", "XAwake1", "XEntries", "XAwake2", "XPollSet2", "XTimers", "KOpReady",
                "TimeDue", "JSend", "JFetchOr", "JWrite"]
EXTRA_PROGS = [
    {"wakers": {"w1": "t2", "w2": "t1"}, "ops": {"o1": "t2", "o2": "t1", "o3": "main"},
     "timers": {"s1": "t2", "s2": "main"}, "jobs": {}, "tasks": ["t1", "t2"]},
    {"wakers": {"w1": "main", "w2": "main"}, "ops": {"o1": "t1"}, "timers": {"s1": "t1"}, "jobs": {}, "tasks": ["t1"]},
    {"wakers": {}, "ops": {}, "timers": {"s1": "main", "s2": "t1"}, "jobs": {}, "tasks": ["t1"]},
]


def _mc(name, timeout):
    return name, vlib.tlc("MC_CompatLoop", "MC_CompatLoop_%s.cfg" % name, workers=1, timeout=timeout, jvm=JVM)


def _ctl(item, timeout):
    name, expect = item
    return name, expect, vlib.tlc("MC_CompatLoop", "MC_CompatLoop_%s.cfg" % name, workers=1, timeout=timeout,
                                  coverage=False, jvm=JVM)


def _gen(item, seed_base):
    (name, num), idx = item
    out = []
    r = vlib.tlc("Gen_CompatLoop", "Gen_CompatLoop_%s.cfg" % name, timeout=900, coverage=False, simulate=num, depth=500,
                 sink=out.append, seed_=seed_base * 100 + idx, jvm=JVM)
    return name, r, out


def _run_replay(paths, timeout, env=None):
    """Run x03_replay on several case files in parallel processes; merge summaries and problem lines."""
    def one(p):
        rc, out, err = xlib.run_bin("x03_replay", [p], timeout=timeout, env=env, check=False)
        lines = vlib.jsonl(out)
        summ = [l for l in lines if l.get("type") == "summary"]
        if not summ:
            raise vlib.ToolError("x03_replay produced no summary (rc=%s)\n%s" % (rc, err[-2000:]))
        return summ[0], [l for l in lines if l.get("type") in ("contract", "panic", "hang", "mismatch")]
    with cf.ThreadPoolExecutor(max(1, len(paths))) as ex:
        return list(ex.map(one, paths))


def _classify(run, results, what):
    """contract / panic / hang = violation unless a known finding; mismatch = drift."""
    drift = cases = steps = incon = retries = 0
    for summ, details in results:
        cases += summ["cases"]
        steps += summ["steps"]
        incon += summ.get("timing_inconclusive", 0)
        retries += summ.get("timing_retries", 0)
        det = {}
        for l in details:
            det.setdefault((l["type"], json.dumps(l["sig"], sort_keys=True)), l)
        for p in summ["problems"]:
            d = det.get((p["type"], json.dumps(p["sig"], sort_keys=True)), {})
            if p["type"] == "mismatch":
                drift += p["count"]
                vlib.log("DRIFT (%s): %d cases where the real loop and the model differ while the contract holds: %s" %
                         (what, p["count"], d.get("desc", "")[:300]))
                continue
            for _ in range(p["count"]):
                if run.report(p["sig"], d.get("desc", ""), d.get("case")) == "violation":
                    break
    return dict(cases=cases, steps=steps, drift=drift, inconclusive=incon, retries=retries)


def _split(cases, n, tmp, stem):
    paths = []
    for k in range(n):
        part = cases[k::n]
        if not part:
            continue
        p = os.path.join(tmp, "%s_%d.jsonl" % (stem, k))
        with open(p, "w") as f:
            for c in part:
                f.write(json.dumps(c) + "\n")
        paths.append(p)
    return paths


WINDOWS = ("blocking-wake-between-set-awake", "poll-blocking-skips-drain", "both-windows")


def _targeted(tmp, mult=1):
    """Schedules of the targeted generators (windows of the two repaired defects), vacuity-checked."""
    cases, seen = [], set()
    with cf.ThreadPoolExecutor(2) as ex:
        gens = [g for g in GEN if g[0].startswith("tar_")]
        for f in [ex.submit(_gen, ((n, k * mult), 2 + i), vlib.seed()) for i, (n, k) in enumerate(gens)]:
            name, g, out = f.result()
            if g.error or g.violated:
                raise vlib.ToolError("Gen_CompatLoop/%s: %s %s\n%s" % (name, g.error, g.violated, g.out[-2000:]))
            for o in out:
                s = json.dumps(o, sort_keys=True)
                if s not in seen:
                    seen.add(s)
                    o["gen"] = name
                    cases.append(o)
    _require_windows(cases)
    return cases


def _require_windows(cases):
    """The normal configuration must never predict a lost completion, and the targeted schedules must pass through the
    windows of both repaired defects (else the leg would be vacuous with respect to them)."""
    dead = [c for c in cases if c["dead"]]
    if dead:
        raise vlib.ToolError("Gen_CompatLoop: the model of the repaired code ends %d schedules asleep over an undelivered "
                             "completion (spec and property disagree)" % len(dead))
    need = {("iour", "dev1"), ("poll", "dev1"), ("iour", "dev2")}
    have = {(c["driver"], k) for c in cases for k in ("dev1", "dev2") if c[k]}
    if need - have:
        raise vlib.ToolError("the targeted generators did not reach the windows of the repaired defects: missing %s" %
                             sorted(need - have))


def stranded_leg(run, tier):
    """C02's share of the compat leg: only the schedules that pass through a window in which the old driver stranded
    a completion the OS had finished; a loop that falls asleep there is reported (by the caller's property)."""
    tmp = vlib.scratch()
    try:
        vlib.sany("Gen_CompatLoop")
        cases = [c for c in _targeted(tmp, 1 if tier == "quick" else 8) if c["dev1"] or c["dev2"]]
        xlib.cargo_build("hx03", ["x03_replay"])
        results = _run_replay(_split(cases, 3, tmp, "str"), 900 if tier == "quick" else 3000)
        keep = []
        for summ, details in results:
            probs = []
            for p in summ["problems"]:
                stranded = p["type"] == "contract" and p["sig"].get("what") == "hang" and p["sig"].get("dev") in WINDOWS
                if stranded or p["type"] == "mismatch":
                    probs.append(p)
                else:
                    vlib.log("NOTE: C03 finding in the compat leg (reported by ./check C03): %s" % json.dumps(p["sig"]))
            keep.append((dict(summ, problems=probs), details))
        st = _classify(run, keep, "compat leg, stranded completions")
        if st["cases"] != len(cases):
            raise vlib.ToolError("x03_replay ran %d of %d cases" % (st["cases"], len(cases)))
        run.add_traces(st["cases"])
        run.note("compat_stranded_schedules_replayed", st["cases"])
        run.note("compat_stranded_drift_schedules", st["drift"])
    finally:
        shutil.rmtree(tmp, ignore_errors=True)


def run(run, tier, replay):
    compat_leg(run, tier, replay)


def is_compat_replay(path):
    """Does this replay file belong to the compat leg (as opposed to C03's wake_replay schedules)?"""
    try:
        case = json.load(open(path))["replay"]
    except Exception:
        return False
    return isinstance(case, dict) and "prog" in case


def compat_leg(run, tier, replay=None, prefix=""):
    """The whole leg.  `prefix` is put in front of the evidence keys (C03 has keys of the same names)."""
    note = lambda k, v: run.note(prefix + k, v)
    tmp = vlib.scratch()
    build_err = []

    def build():
        try:
            xlib.cargo_build("hx03", ["x03_replay", "x03_stress"])
        except Exception as e:          # reported from the main thread
            build_err.append(e)
    bt = threading.Thread(target=build)
    bt.start()
    try:
        if replay:
            vlib.sany("Gen_CompatLoop")
            obj = json.load(open(replay))
            case = obj["replay"]
            bt.join()
            if build_err:
                raise build_err[0]
            run.cov["states"] = run.cov["transitions"] = 1
            if "steps" in case:
                p = _split([case], 1, tmp, "one")
                st = _classify(run, _run_replay(p, 600), "replay")
                run.add_traces(st["cases"])
            else:
                p = os.path.join(tmp, "prog.jsonl")
                with open(p, "w") as f:
                    f.write(json.dumps({"prog": case["prog"]}) + "\n")
                rc, out, err = xlib.run_bin("x03_stress", [p, "--seed", case.get("seed", 1), "--iters", 40, "--hosts",
                                                           case["host"], "--drivers", case["driver"]], timeout=1500, check=False)
                lines = vlib.jsonl(out)
                summ = [l for l in lines if l.get("type") == "summary"][0]
                st = _classify(run, [(summ, [l for l in lines if l.get("type") != "summary"])], "stress replay")
                run.add_traces(st["cases"])
            run.sample(case)
            return
        thorough = tier != "quick"
        import time
        t_start = time.time()

        def lap(what):
            vlib.log("compat leg [%5.1fs] %s" % (time.time() - t_start, what))
        # ---- 1. model checking (4 TLC processes of one worker each)
        mcs = MC_THOROUGH if thorough else MC_QUICK
        ctls = CTL_THOROUGH if thorough else CTL_QUICK
        gens = GEN + (GEN_THOROUGH_ONLY if thorough else [])
        mult = 8 if thorough else 1
        with cf.ThreadPoolExecutor(4) as ex:
            # (the two top modules pull in CompatLoop and Wakeup)
            f_sany = [ex.submit(vlib.sany, m) for m in ("MC_CompatLoop", "Gen_CompatLoop")]
            for f in f_sany:
                f.result()
            f_mc = [ex.submit(_mc, n, 3000) for n in mcs]
            f_ctl = [ex.submit(_ctl, c, 900) for c in ctls]
            f_gen = [ex.submit(_gen, (((n, k * mult), i)), vlib.seed()) for i, (n, k) in enumerate(gens)]
            taken = {}
            for f in f_mc:
                name, r = f.result()
                vlib.require_model_ok(r, "CompatLoop/" + name)
                if r.distinct == 0:
                    raise vlib.ToolError("CompatLoop/%s: no states" % name)
                run.add_model("CompatLoop/" + name, r)
                for a, (d, t) in r.coverage.items():
                    taken[a] = taken.get(a, 0) + t
            never = [a for a in NEED_ACTIONS if taken.get(a, 0) == 0]
            if never:
                raise vlib.ToolError("CompatLoop: vacuous, actions never taken in any exhaustive configuration: %s" % never)
            for f in f_ctl:
                name, expect, r = f.result()
                if r.violated != expect:
                    raise vlib.ToolError("control %s should violate %s, got %s / %s" % (name, expect, r.violated, r.error))
                note("control_" + name, "violates %s as expected" % expect)
            # ---- 2. schedules
            cases, seen, per_gen = [], set(), {}
            for f in f_gen:
                name, g, out = f.result()
                if g.error or g.violated:
                    raise vlib.ToolError("Gen_CompatLoop/%s: %s %s\n%s" % (name, g.error, g.violated, g.out[-2000:]))
                k = 0
                for o in out:
                    s = json.dumps(o, sort_keys=True)
                    if s in seen:
                        continue
                    seen.add(s)
                    o["gen"] = name
                    cases.append(o)
                    k += 1
                per_gen[name] = k
        lap("model checking, controls and generators done (%d schedules)" % len(cases))
        if not cases:
            raise vlib.ToolError("no schedules generated")
        _require_windows(cases)
        note("schedules_per_generator", per_gen)
        note("schedules_through_the_window_of_a_repaired_defect",
             {"blocking-wake-between-set-awake": sum(1 for c in cases if c["dev1"]),
              "poll-blocking-skips-drain": sum(1 for c in cases if c["dev2"])})
        # ---- 3. steered replay on the real crates
        bt.join()
        if build_err:
            raise build_err[0]
        st = _classify(run, _run_replay(_split(cases, 3, tmp, "cases"), 3000 if thorough else 900), "steered replay")
        if st["cases"] != len(cases):
            raise vlib.ToolError("x03_replay ran %d of %d cases" % (st["cases"], len(cases)))
        if st["drift"] * 5 > len(cases):
            raise vlib.ToolError("binding lost: %d of %d schedules diverge from the model" % (st["drift"], len(cases)))
        lap("steered replay done")
        run.add_traces(st["cases"])
        note("schedules_replayed", st["cases"])
        note("turns", st["steps"])
        note("drift_schedules", st["drift"])
        note("timing_inconclusive_schedules", st["inconclusive"])
        note("timing_retries", st["retries"])
        for c in cases[:: max(1, len(cases) // 3)][:3]:
            run.sample({"driver": c["driver"], "host": c["host"], "prog": c["prog"],
                        "turns": [(s["r"], s["site"], s["arg"]) for s in c["steps"]][:40]}, limit=3)
        # ---- 4. free-running stress with the same programs
        progs, pseen = [], set()
        for c in cases:
            s = json.dumps(c["prog"], sort_keys=True)
            if s not in pseen:
                pseen.add(s)
                progs.append({"prog": c["prog"]})
        progs += [{"prog": p} for p in EXTRA_PROGS]
        pp = os.path.join(tmp, "progs.jsonl")
        with open(pp, "w") as f:
            for p in progs:
                f.write(json.dumps(p) + "\n")
        rc, out, err = xlib.run_bin("x03_stress", [pp, "--seed", vlib.seed(), "--iters", 12 if thorough else 2,
                                                   "--watchdog-ms", 12000],
                                    timeout=3000 if thorough else 600, check=False)
        lines = vlib.jsonl(out)
        summ = [l for l in lines if l.get("type") == "summary"]
        if not summ:
            raise vlib.ToolError("x03_stress: no summary (rc=%s)\n%s" % (rc, err[-2000:]))
        ss = _classify(run, [(summ[0], [l for l in lines if l.get("type") != "summary"])], "stress")
        lap("stress done")
        run.add_traces(ss["cases"])
        note("stress_runs", summ[0].get("runs_per_host_driver"))
        # ---- 5. negative controls
        base = next((c for c in cases if c["complete"] and not c["prog"]["timers"] and
                     any(s["site"] == "x.wait.enter" for s in c["steps"])), None)
        if base is None:
            raise vlib.ToolError("no schedule suitable for the negative controls")
        bad = json.loads(json.dumps(base))
        for s in bad["steps"]:
            if s["site"] == "x.wait.enter":
                s["arg"] = "none" if s["arg"] != "none" else "zero"
                break
        neg = _run_replay(_split([bad], 1, tmp, "neg1"), 300)
        if not any(p["type"] == "mismatch" for p in neg[0][0]["problems"]):
            raise vlib.ToolError("negative control 1: a schedule with a wrong timeout class was accepted")
        # a task that waits for one cross-thread wake only; the waking thread sets the condition and "forgets" the waker
        lone = {"driver": "iour", "host": "tokio", "complete": True, "dead": False, "dev1": False, "dev2": False,
                "prog": {"wakers": {"w1": "t1"}, "ops": {}, "timers": {}, "jobs": {}, "tasks": ["t1"]},
                "steps": [{"r": "R", "site": "x.main", "arg": "main", "obs": [], "blocks": False, "at": "pollMain"},
                          {"r": "R", "site": "x.task", "arg": "t1", "obs": [], "blocks": False, "at": "runTask"},
                          {"r": "E", "site": "wake", "arg": "w1", "obs": [], "blocks": False, "at": "flush"}]}
        pos = _run_replay(_split([lone], 1, tmp, "neg2a"), 300)
        if pos[0][0]["problems"]:
            raise vlib.ToolError("negative control 2: the lone-wake case fails although the waker is called: %s" % pos[0][0]["problems"])
        neg = _run_replay(_split([lone], 1, tmp, "neg2"), 300, env={"VERIF_NEG_SKIP_WAKE": "1", "VERIF_X03_WATCHDOG_MS": "3000"})
        if not any(p["type"] == "contract" and p["sig"].get("what") == "hang" for p in neg[0][0]["problems"]):
            raise vlib.ToolError("negative control 2: a wake-up that never calls the waker was not reported as a hang")
        lap("negative controls done")
        note("negative_controls", "wrong timeout class -> divergence; condition set without wake() -> hang reported")
        run.assumptions += ["sequentially consistent atomics",
                            "the kernel signals the registered eventfd for every completion entry and posts one notifier "
                            "completion per eventfd write while the multishot poll is armed",
                            "tokio AsyncFd = edge-triggered readiness cache, async-io readable() = level-triggered (probed)"]
    finally:
        bt.join()
        shutil.rmtree(tmp, ignore_errors=True)
