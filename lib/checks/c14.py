"""C14 - socket transports deliver exactly what was sent (compio-net over compio-driver, both drivers).

1. TLC checks spec/Socket.tla exhaustively (small constants): stream FIFO with partial send/receive and
   end of stream after half-close, datagram queue with truncation and flag, listener backlog with single
   and multishot accept, zero-copy hand-back, split halves; the recorded deviations are named switches
   (the "ideal" configurations show the property holds without them, the "strict" ones that each of
   them breaks it); liveness on the fair specification.
2. spec/Gen_Socket.tla generates two-peer programs; harness bin record_socket runs every program on real
   loopback TCP, Unix stream and UDP sockets with the io_uring and the polling driver and records the
   call/return history.
3. Every history is judged twice: by the contract oracle below (the property's predicates on the real
   observation: these produce VIOLATIONs) and by TLC against spec/Trace_Socket.tla (is it a behaviour of
   the model: a rejection the oracle does not share is DRIFT).
"""
import json
import os
import shutil
from concurrent.futures import ThreadPoolExecutor

import vlib

LEVEL = "model_checking"
TITLE = "Socket transports deliver exactly what was sent"
TEXT = ("TLC checks a model of stream, datagram and listener sockets (one action per operation kind of compio-net: plain, "
        "vectored, zero-copy, managed-buffer, ancillary, multishot, split halves) for stream equality and end of stream, "
        "datagram equality/truncation/source and accept-exactly-once, with liveness on the fair specification. "
        "TLC-generated two-peer programs are run on real loopback TCP, Unix and UDP sockets with both drivers; every "
        "recorded call/return history is validated by TLC against the model and judged independently by a contract oracle.")
NOTE = ("Bounds: model constants sizes {0,1,3}(+5), socket buffer 2-3 bytes, 2 drivers; programs of <= 8 operations per peer, "
        "sizes {0,1,3,70 KiB} (UDP: 9000 and 70 KiB), three buffer shapes. Loopback only; SO_SNDBUF of the stream sockets is "
        "lowered to 8 KiB so that large sends are partial. Payload bytes encode their stream offset; 1-3 byte chunks right "
        "after a recorded loss are located from the following chunk. The zero-copy notification itself is not observable "
        "through the public API (only that the buffer comes back intact). Trusted: the kernel, the recorder's decoder.")
TECHNIQUE = "TLA+ model (TLC exhaustive + liveness) + impl-to-spec trace validation + history oracle"
DESIGN_REF = "3/C14"

# ---------------------------------------------------------------------------------------------
# contract oracle: the property's predicates evaluated directly on a recorded history.
# Input: the events of ONE program run (as written by harness bin record_socket). Output: problems
# {type, sig, desc}: "contract" = property predicate false on the real observation. Signatures carry a
# "cause" when the context identifies one of the recorded deviations (known_findings.json).
# ---------------------------------------------------------------------------------------------

POOLBUF_DEFAULT = 4096
MSG_TRUNC = 0x20
MAXDG = 65507
EMSGSIZE = 90
# io_uring multishot recvmsg puts a 16 byte header, the name (sockaddr_storage, 128) and the control
# area in front of the payload inside the pool buffer
IOUR_MSG_HDR = 16 + 128

STREAM_SEND = {"send", "msg", "sendv", "msgv", "zc", "zcv", "zcmsg"}
STREAM_RECV = {"recv", "recvv", "msg", "msgv", "managed", "msgmanaged", "multi", "msgmulti"}
DG_SRC = {"recvfrom", "recvfromv", "recvmsg", "recvmsgv", "fmanaged", "mmanaged", "fmulti", "mmulti"}
DG_FLAGS = {"recvmsg", "recvmsgv", "mmanaged", "mmulti"}
DG_MANAGED = {"managed", "fmanaged", "mmanaged"}
DG_MULTI = {"multi", "fmulti", "mmulti"}


MARK = 0xF0


def pat(off, salt):
    """content byte of harness/hnet/src/content.rs (non-marker positions)"""
    x = (((off & 0xFFFFFFFF) ^ ((salt * 0x85EBCA6B) & 0xFFFFFFFF)) * 0x9E3779B1) & 0xFFFFFFFF
    y = x ^ (x >> 15)
    y = (y * 0x2C1B3C6D) & 0xFFFFFFFF
    return (((y >> 24) ^ (y >> 11)) & 0xFF) % MARK


def content(off, plan, salt):
    for i, (b, n) in enumerate(plan):
        if n > 0 and off == b:
            return MARK + i
    return pat(off, salt)


def effcap(c, poolbuf):
    return poolbuf if c == 0 else min(c, poolbuf)


def norm(runs):
    out = []
    for off, ln in runs:
        if ln == 0:
            continue
        if out and out[-1][0] >= 0 and off >= 0 and out[-1][0] + out[-1][1] == off:
            out[-1][1] += ln
        elif out and out[-1][0] < 0 and off < 0:
            out[-1][1] += ln
        else:
            out.append([off, ln])
    return out


def take(runs, k):
    out = []
    for off, ln in runs:
        if k == 0:
            break
        t = min(ln, k)
        out.append([off, t])
        k -= t
    return out


def drop(runs, k):
    out = []
    for off, ln in runs:
        if k >= ln:
            k -= ln
            continue
        out.append([off + k, ln - k])
        k = 0
    return out


def rlen(runs):
    return sum(r[1] for r in runs)


class Problems:
    def __init__(self, ctx):
        self.ctx = ctx
        self.items = []
        self.unalignable = False
        self.unexplained_dgram_loss = 0

    def add(self, ty, sig, desc, seq=None):
        s = dict(sig)
        s.setdefault("tr", self.ctx["tr"])
        s.setdefault("drv", self.ctx["drv"])
        self.items.append({"type": ty, "sig": s, "desc": desc, "seq": seq, "prog": self.ctx["prog"]})


def evaluate(events):
    """events of one program (starting with its reset event)."""
    reset = events[0]
    ctx = {"tr": reset["tr"], "drv": reset["drv"], "prog": reset["prog"], "poolbuf": reset.get("poolbuf", POOLBUF_DEFAULT),
           "ctrl": reset.get("ctrl", 64)}
    P = Problems(ctx)
    done = [e for e in events if e["e"] == "done"]
    status = done[-1]["status"] if done else "missing"
    if ctx["tr"] == "udp":
        _dgram(events, ctx, P, status)
    else:
        _accept(events, ctx, P)
        _stream(events, ctx, P, status)
    if status == "hang":
        pend = _pending(events)
        P.add("hang", {"site": "program", "kind": "hang"},
              "program %d did not finish; pending: %s" % (ctx["prog"], pend[:6]))
    elif status.startswith("panic"):
        P.add("panic", {"site": "program", "kind": "panic"}, status)
    elif status != "ok":
        P.add("error", {"site": "program", "kind": "error"}, status)
    return P.items, {"unalignable": P.unalignable, "status": status}


def _pending(events):
    calls = {}
    for e in events:
        if e["e"] == "call":
            calls[e["id"]] = e
        elif e["e"] in ("ret", "end", "drop"):
            calls.pop(e.get("id"), None)
    return [(c.get("op"), c.get("peer"), c.get("task")) for c in calls.values()]


# ------------------------------------------------------------------ accept

def _accept(events, ctx, P):
    connected = {}          # addr -> conn
    yielded = []            # (addr, seq, kind)
    inc_dropped_polled = False
    drop_seq = None
    clients = None
    for e in events:
        if e["e"] == "ret" and e.get("op") == "connect":
            if e["res"] == "ok":
                connected[e["addr"]] = e["conn"]
            else:
                P.add("error", {"site": "accept", "kind": "connect_failed"}, "connect failed: %s" % e.get("err"), e["seq"])
        elif e["e"] == "ret" and e.get("op") == "accept":
            if e["res"] == "ok":
                yielded.append((e["addr"], e["seq"], e["kind"]))
                if e["kind"] == "single" and e.get("peer") != e["addr"]:
                    P.add("contract", {"site": "accept", "kind": "address"},
                          "accept reported the peer address %r but the accepted socket is connected to %r" % (e["addr"], e.get("peer")), e["seq"])
            elif e["res"] in ("timeout", "err", "end"):
                P.add("hang" if e["res"] == "timeout" else "contract", {"site": "accept", "kind": "accept_" + e["res"]},
                      "accept (%s) returned %s %s" % (e["kind"], e["res"], e.get("err", "")), e["seq"])
        elif e["e"] == "drop" and e.get("op") == "incoming":
            if e.get("polled"):
                inc_dropped_polled = True
                drop_seq = e["seq"]
        elif e["e"] == "clients":
            clients = e["state"]
    seen = set()
    for addr, seq, kind in yielded:
        if addr in seen:
            P.add("contract", {"site": "accept", "kind": "twice"}, "connection %r was yielded twice" % addr, seq)
        seen.add(addr)
        if addr not in connected and clients is not None and addr not in [c["addr"] for c in clients]:
            P.add("contract", {"site": "accept", "kind": "unknown"}, "accept yielded %r which no client connected from" % addr, seq)
    lost = [a for a in connected if a not in seen]
    for a in lost:
        sig = {"site": "accept", "kind": "lost"}
        if ctx["drv"] == "iour" and inc_dropped_polled:
            sig["cause"] = "iour_incoming_drop"
        P.add("contract", sig,
              "connection %d (%s) was established but never yielded by accept%s" %
              (connected[a], a, " (an incoming stream had been dropped before)" if inc_dropped_polled else ""), drop_seq)


# ------------------------------------------------------------------ stream

def _stream(events, ctx, P, status):
    poolbuf = ctx["poolbuf"]
    for e in events:
        if e["e"] == "fdcheck" and not e["ok"]:
            P.add("contract", {"site": "split", "kind": "descriptor_closed", "half": e["half"]},
                  "descriptor of peer %s no longer usable on its %s half" % (e["peer"], e["half"]), e["seq"])
    calls = {e["id"]: e for e in events if e["e"] == "call"}
    for d in (1, 2):
        sends = []      # (call, ret)
        rets = {e["id"]: e for e in events if e["e"] == "ret" and e.get("dir") == d}
        for e in events:
            if e["e"] == "call" and e.get("dir") == d and e.get("task") == "w" and e["op"] in STREAM_SEND:
                sends.append((e, rets.get(e["id"])))
        expected = []
        owner = []      # (base, n, call seq)
        for c, r in sends:
            owner.append((c["base"], c["n"], c["seq"]))
            if r is None:
                continue
            if r["res"] == "ok":
                k = r["k"]
                if k > c["n"] or (c["n"] > 0 and k == 0):
                    P.add("contract", {"site": "stream", "kind": "send_count", "op": c["op"]},
                          "%s of %d bytes returned %d" % (c["op"], c["n"], k), r["seq"])
                expected.append([c["base"], k])
                if "same" in r and not (r["same"] and r["lensame"] and r["intact"]):
                    P.add("contract", {"site": "stream", "kind": "send_buffer", "op": c["op"]},
                          "%s did not hand back the submitted buffer unchanged: %s" % (c["op"], {x: r[x] for x in ("same", "lensame", "intact")}), r["seq"])
            elif r["res"] == "unsupported":
                pass
            else:
                sig = {"site": "stream", "kind": "op_error", "op": c["op"], "os": (r.get("err") or {}).get("os")}
                P.add("contract", sig, "%s failed: %s" % (c["op"], r.get("err")), r["seq"])
        for e in events:
            if e["e"] == "ret" and e.get("op") == "zcwait" and e.get("dir") == d:
                if not (e["same"] and e["lensame"] and e["intact"]):
                    P.add("contract", {"site": "stream", "kind": "zerocopy_buffer"},
                          "zero-copy send did not hand back the submitted buffer intact: %s" % {x: e[x] for x in ("same", "lensame", "intact")}, e["seq"])
        expected = norm(expected)
        remaining = [list(r) for r in expected]
        shut = [e for e in events if e["e"] == "call" and e.get("op") == "shutdown" and e.get("dir") == d]
        shut_seq = shut[0]["seq"] if shut else None
        for e in events:
            if e["e"] == "ret" and e.get("op") == "shutdown" and e.get("dir") == d and e["res"] != "ok":
                P.add("contract", {"site": "stream", "kind": "op_error", "op": "shutdown", "os": (e.get("err") or {}).get("os")},
                      "shutdown failed: %s" % e.get("err"), e["seq"])
        # receiving side in log order: units for the alignment against the expected stream
        plan = [(c["base"], c["n"]) for c, _ in sends]
        salt = ctx["prog"] * 4 + d
        units = []
        eof_seen = False
        for e in events:
            if e.get("dir") != d or e.get("task") != "r":
                continue
            if e["e"] == "drop":
                if ctx["drv"] == "iour" and e["op"] in ("multi", "msgmulti"):
                    units.append(("ctx", "iour_multishot_drop", e))
                continue
            if e["e"] == "end":
                eof_seen = True
                units.append(("eof", e))
                continue
            if e["e"] not in ("ret", "item"):
                continue
            op = e["op"]
            if op not in STREAM_RECV:
                continue
            call = calls.get(e["id"], {})
            if e["res"] in ("nobufs", "unsupported"):
                continue
            if e["res"] != "ok":
                P.add("contract", {"site": "stream", "kind": "op_error", "op": op, "os": (e.get("err") or {}).get("os")},
                      "%s failed: %s" % (op, e.get("err")), e["seq"])
                continue
            k = e["k"]
            if op in ("managed", "msgmanaged", "multi"):
                cap = effcap(call.get("c", 0), poolbuf)
            elif op == "msgmulti":
                cap = poolbuf
            else:
                cap = sum(call.get("caps", [0]))
            if k > cap:
                P.add("contract", {"site": "stream", "kind": "beyond_capacity", "op": op},
                      "%s returned %d bytes into a capacity of %d" % (op, k, cap), e["seq"])
            if op in ("recv", "recvv", "msg", "msgv"):
                if not e.get("same", True):
                    P.add("contract", {"site": "stream", "kind": "recv_buffer", "op": op}, "%s returned a different buffer" % op, e["seq"])
                if e.get("len") != k:
                    P.add("contract", {"site": "stream", "kind": "recv_len", "op": op},
                          "%s returned %d bytes but the buffer length is %s" % (op, k, e.get("len")), e["seq"])
            if op in ("recvv", "msgv"):
                c0 = call["caps"][0]
                want = [min(k, c0), k - min(k, c0)]
                if e.get("lens") != want:
                    P.add("contract", {"site": "stream", "kind": "vectored_layout", "op": op},
                          "%s of %d bytes into members of capacity %s: member lengths %s, expected %s" % (op, k, call["caps"], e.get("lens"), want), e["seq"])
            if "flags" in e and e["flags"] & MSG_TRUNC:
                P.add("contract", {"site": "stream", "kind": "flags", "op": op}, "%s reported MSG_TRUNC on a byte stream" % op, e["seq"])
            is_eof = (e["e"] == "ret" and ((k == 0 and cap > 0 and op in ("recv", "recvv", "msg", "msgv")) or e.get("none")))
            if is_eof:
                eof_seen = True
                units.append(("eof", e))
                continue
            if op == "multi" and e["e"] == "item" and k == 0:
                P.add("contract", {"site": "stream", "kind": "empty_item", "op": op},
                      "the multishot stream of buffers yielded an empty buffer instead of ending", e["seq"])
            if ctx["drv"] == "poll" and op == "msgmulti" and e["e"] == "item":
                # fusion build, polling driver: the item reports no payload although the receive consumed some
                units.append(("ctx", "fusion_poll_multi_len", e))
            if k == 0:
                continue
            runs = [list(r) for r in e.get("runs", [])]
            if rlen(runs) != k:
                P.add("contract", {"site": "stream", "kind": "corrupt", "op": op}, "%s: decoded %s for %d bytes" % (op, runs, k), e["seq"])
            amb = {a[0]: bytes.fromhex(a[1]) for a in e.get("amb", [])}
            segs, pos = [], 0
            for off, ln in runs:
                if off < 0 and pos in amb:
                    segs.append(["a", amb[pos], None])
                else:
                    segs.append(["r", off, ln])
                pos += ln
            units.append(("chunk", e, segs))
        _align(P, ctx, d, units, expected, plan, salt, shut_seq, owner)
        if status == "ok" and not eof_seen and any(e.get("dir") == d and e.get("task") == "r" for e in events):
            P.add("contract", {"site": "stream", "kind": "no_eof"}, "direction %d: the reader finished without observing the end of the stream" % d)


class _E:
    """the expected stream (runs in pattern space) addressed by stream index"""

    def __init__(self, runs):
        self.runs = runs
        self.start = []
        t = 0
        for off, ln in runs:
            self.start.append(t)
            t += ln
        self.total = t

    def index_of(self, off):
        for (o, ln), st in zip(self.runs, self.start):
            if o <= off < o + ln:
                return st + (off - o)
        return None

    def off_at(self, i):
        for (o, ln), st in zip(self.runs, self.start):
            if st <= i < st + ln:
                return o + (i - st)
        return None

    def slice(self, i, n):
        return norm(take(drop(self.runs, i), n))


def _align(P, ctx, d, units, expected, plan, salt, shut_seq, owner):
    """walk the receive-side units against the expected stream; losses are attributed to the
    deviation context (ctx unit) they occur at, everything else is a violation. Rewrites the runs of
    chunk events (ambiguous stretches located) and annotates ctx events with the bytes lost there."""
    E = _E(expected)
    p = 0
    suspect = None      # (cause, event) of the last deviation context since the last located chunk

    def lose(n, where, e, op):
        nonlocal suspect
        if n <= 0:
            return
        if suspect:
            cause, cev = suspect
            cev["lost"] = cev.get("lost", 0) + n
            P.add("contract", {"site": "stream", "kind": "gap", "cause": cause},
                  "direction %d: %d bytes that the transport accepted were never delivered (%s; next delivered by %s)"
                  % (d, n, "multishot stream dropped before its end" if cause == "iour_multishot_drop" else "multishot item without payload", op),
                  cev["seq"])
        else:
            P.add("contract", {"site": "stream", "kind": "gap", "op": op},
                  "direction %d: %d bytes that the transport accepted were never delivered before %s (seq %s) returned %s"
                  % (d, n, op, e.get("seq"), where), e.get("seq"))

    i = 0
    while i < len(units):
        u = units[i]
        if u[0] == "ctx":
            suspect = (u[1], u[2])
            u[2].setdefault("lost", 0)
            i += 1
            continue
        if u[0] == "eof":
            e = u[1]
            if shut_seq is None or shut_seq > e["seq"]:
                P.add("contract", {"site": "stream", "kind": "early_eof", "op": e["op"]},
                      "direction %d: end of stream observed (seq %d) before the writer shut down" % (d, e["seq"]), e["seq"])
            if p < E.total:
                if suspect:
                    lose(E.total - p, "end of stream", e, e["op"])
                else:
                    P.add("contract", {"site": "stream", "kind": "early_eof", "op": e["op"]},
                          "direction %d: end of stream observed with %d accepted bytes not delivered (next %s)" % (d, E.total - p, E.slice(p, 8)), e["seq"])
                p = E.total
            suspect = None
            i += 1
            continue
        e, segs = u[1], u[2]
        op = e["op"]
        newruns = []
        si = 0
        while si < len(segs):
            sg = segs[si]
            if sg[0] == "r":
                off, ln = sg[1], sg[2]
                idx = E.index_of(off) if off >= 0 else None
                if idx is None or idx < p or E.slice(idx, ln) != [[off, ln]] and E.slice(idx, ln) != norm([[off, ln]]):
                    # may span several runs of the expected stream only if contiguous there: compare bytewise
                    ok = False
                    if idx is not None and idx >= p:
                        ok = E.slice(idx, ln) == norm([[off, ln]])
                    if not ok:
                        P.add("contract", {"site": "stream", "kind": "corrupt", "op": op},
                              "direction %d: %s returned bytes %s which are not the next bytes of the stream (next %s)" % (d, op, [off, ln], E.slice(p, 8)), e["seq"])
                        if idx is not None and idx >= p:
                            p = min(E.total, idx + ln)
                        newruns.append([off, ln])
                        si += 1
                        suspect = None
                        continue
                lose(idx - p, [off, ln], e, op)
                p = idx + ln
                suspect = None
                newruns.append([off, ln])
                for b, n, cs in owner:
                    if b <= off < b + n and cs > e["seq"]:
                        P.add("contract", {"site": "stream", "kind": "before_send", "op": op},
                              "bytes at offset %d were received (seq %d) before their send was called (seq %d)" % (off, e["seq"], cs), e["seq"])
                si += 1
                continue
            # a short stretch the recorder could not locate on its own (it follows a loss): it is
            # located from what follows it. X = stream index of the next located bytes (or the end).
            gbytes = bytes(sg[1])
            m = len(gbytes)
            X, trail_ctx = None, False
            su, ss = i, si + 1
            while su < len(units) and X is None:
                if units[su][0] == "ctx":
                    trail_ctx = True
                elif units[su][0] == "eof":
                    X = E.total
                elif units[su][0] == "chunk":
                    segs2 = units[su][2]
                    pre = 0
                    while ss < len(segs2):
                        if segs2[ss][0] == "r":
                            ix = E.index_of(segs2[ss][1]) if segs2[ss][1] >= 0 else None
                            X = (ix - pre) if ix is not None else -1
                            break
                        pre += len(segs2[ss][1])      # further unlocated bytes between: contiguous with ours
                        ss += 1
                su += 1
                ss = 0
            if X is None:
                X = E.total

            def matches(o):
                if o < p or o + m > E.total:
                    return False
                return all(content(E.off_at(o + t), plan, salt) == gbytes[t] for t in range(m))

            found = None
            if not suspect:
                found = p if matches(p) else None
            elif not trail_ctx:
                found = (X - m) if (X >= 0 and matches(X - m)) else None
            else:
                # a second loss context before anything could be located: the split of the loss
                # between the two contexts cannot be decided from the history
                if X >= 0 and matches(X - m):
                    found = X - m
                else:
                    e["unalignable"] = True
                    P.unalignable = True
                    found = None
                    o = p
                    while o + m <= (X if X >= 0 else E.total):
                        if matches(o):
                            found = o
                            break
                        o += 1
            if found is None:
                P.add("contract", {"site": "stream", "kind": "corrupt", "op": op},
                      "direction %d: %s returned %d bytes %s that are not the next bytes of the stream (next %s)" % (d, op, m, gbytes.hex(), E.slice(p, 8)), e["seq"])
                newruns.append([-1, m])
                si += 1
                continue
            lose(found - p, "%d bytes" % m, e, op)
            for r in E.slice(found, m):
                newruns.append(r)
            p = found + m
            suspect = None
            si += 1
        e["runs"] = norm(newruns)
        i += 1


# ------------------------------------------------------------------ datagram

def _dgram(events, ctx, P, status):
    poolbuf, ctrl = ctx["poolbuf"], ctx["ctrl"]
    socks = [e for e in events if e["e"] == "socks"]
    if not socks:
        return
    addr = {p: socks[0][p] for p in ("a", "b", "c")}
    calls = {e["id"]: e for e in events if e["e"] == "call"}
    rets = {e["id"]: e for e in events if e["e"] == "ret"}
    sent = {"a": [], "b": [], "c": []}        # per target: dict(uid, n, src, seq, matched, skipped)
    for e in events:
        if e["e"] == "call" and e.get("task") == "w" and e.get("op") != "zcwait":
            r = rets.get(e["id"])
            if r is None:
                continue
            n = e["n"]
            if r["res"] == "ok":
                if n > MAXDG:
                    P.add("contract", {"site": "dgram", "kind": "send_count", "op": e["op"]}, "datagram of %d bytes was accepted" % n, r["seq"])
                if r["k"] != n:
                    P.add("contract", {"site": "dgram", "kind": "send_count", "op": e["op"]}, "%s of %d bytes returned %d" % (e["op"], n, r["k"]), r["seq"])
                sent[e["to"]].append({"uid": e["uid"], "n": n, "src": e["peer"], "seq": e["seq"], "rseq": r["seq"], "m": False, "skip": False})
                if "same" in r and not (r["same"] and r["lensame"] and r["intact"]):
                    P.add("contract", {"site": "dgram", "kind": "send_buffer", "op": e["op"]}, "%s did not hand back the submitted buffer unchanged" % e["op"], r["seq"])
            elif r["res"] == "unsupported":
                pass
            else:
                os_ = (r.get("err") or {}).get("os")
                if not (n > MAXDG and os_ == EMSGSIZE):
                    P.add("contract", {"site": "dgram", "kind": "op_error", "op": e["op"], "os": os_}, "%s of %d bytes failed: %s" % (e["op"], n, r.get("err")), r["seq"])
        if e["e"] == "ret" and e.get("op") == "zcwait" and not (e["same"] and e["lensame"] and e["intact"]):
            P.add("contract", {"site": "dgram", "kind": "zerocopy_buffer"}, "zero-copy send did not hand back the submitted buffer intact", e["seq"])
    last_drop = {}
    for e in events:
        if e.get("task") != "r":
            continue
        t = e.get("peer")
        if e["e"] == "drop":
            e.setdefault("lost", 0)
            last_drop.setdefault(t, []).append(e)
            continue
        if e["e"] == "end":
            # a plain multishot stream ends at an empty datagram: it consumed one
            call = calls.get(e["id"], {})
            _match(P, ctx, sent[t], {"uid": 0, "k": 0, "ok": True}, call, e, addr, cap=poolbuf, endmark=True, drop=last_drop.get(t))
            continue
        if e["e"] not in ("ret", "item"):
            continue
        if e["res"] in ("nobufs", "unsupported"):
            continue
        op = e["op"]
        call = calls.get(e["id"], {})
        if e["res"] != "ok":
            ty = "hang" if e["res"] == "timeout" else "contract"
            P.add(ty, {"site": "dgram", "kind": "op_" + e["res"], "op": op, "os": (e.get("err") or {}).get("os")},
                  "%s: %s %s" % (op, e["res"], e.get("err", "")), e["seq"])
            continue
        if op in DG_MANAGED:
            cap = effcap(call.get("c", 0), poolbuf)
        elif op == "multi":
            cap = effcap(call.get("c", 0), poolbuf)
        elif op == "fmulti":
            cap = poolbuf - IOUR_MSG_HDR if ctx["drv"] == "iour" else poolbuf
        elif op == "mmulti":
            cap = poolbuf - IOUR_MSG_HDR - ctrl if ctx["drv"] == "iour" else poolbuf
        else:
            cap = sum(call.get("caps", [0]))
        _match(P, ctx, sent[t], e, call, e, addr, cap=cap, drop=last_drop.get(t))
        if op in ("recvfrom", "recv", "recvmsg", "recvfromv", "recvv", "recvmsgv"):
            if not e.get("same", True):
                P.add("contract", {"site": "dgram", "kind": "recv_buffer", "op": op}, "%s returned a different buffer" % op, e["seq"])
            if e.get("len") != e["k"]:
                P.add("contract", {"site": "dgram", "kind": "recv_len", "op": op},
                      "%s returned %d bytes but the buffer length is %s" % (op, e["k"], e.get("len")), e["seq"])
        if op in ("recvfromv", "recvv", "recvmsgv"):
            c0 = call["caps"][0]
            want = [min(e["k"], c0), e["k"] - min(e["k"], c0)]
            if e.get("lens") != want:
                P.add("contract", {"site": "dgram", "kind": "vectored_layout", "op": op},
                      "%s of %d bytes into members of capacity %s: member lengths %s, expected %s" % (op, e["k"], call["caps"], e.get("lens"), want), e["seq"])
    _dgram_tail(P, ctx, sent, last_drop)


def _dgram_tail(P, ctx, sent, last_drop):
    """datagrams that were sent but never received: gone with a dropped multishot stream (io_uring) or
    simply still queued when the reader stopped"""
    for t, queue in sent.items():
        for s in queue:
            if not s["m"] and not s["skip"]:
                if _lost_at(ctx, s, last_drop.get(t), None):
                    s["skip"] = True


def _lost_at(ctx, s, drops, before):
    """a datagram that was in the socket before a multishot stream was dropped (io_uring) and was never
    yielded went with the first such stream: count it there"""
    if ctx["drv"] != "iour":
        return False
    for d in drops or []:
        if d["seq"] > s["rseq"] and (before is None or d["seq"] < before):
            d["lost"] = d.get("lost", 0) + 1
            return True
    return False


def _match(P, ctx, queue, r, call, e, addr, cap, endmark=False, drop=None):
    """match a received datagram against what was sent to this socket (FIFO per source)."""
    op = e["op"]
    k, uid = r["k"], r.get("uid", 0)
    heads = {}
    for s in queue:
        if not s["m"] and not s["skip"] and s["src"] not in heads:
            heads[s["src"]] = s
    cand = None
    if uid != 0:
        for s in queue:
            if s["uid"] == uid:
                cand = s
                break
        if cand is None:
            P.add("contract", {"site": "dgram", "kind": "unknown", "op": op}, "%s returned a datagram (first byte %d) that nobody sent to this socket" % (op, uid), e["seq"])
            return
        if cand["m"]:
            P.add("contract", {"site": "dgram", "kind": "twice", "op": op}, "%s returned datagram %d a second time" % (op, uid), e["seq"])
            return
        if cand["skip"]:
            P.add("contract", {"site": "dgram", "kind": "reordered", "op": op}, "%s returned datagram %d after a later datagram of the same source" % (op, uid), e["seq"])
            return
        for s in queue:
            if s is cand:
                break
            if s["src"] == cand["src"] and not s["m"] and not s["skip"]:
                s["skip"] = True       # lost (allowed for datagrams)
                if not _lost_at(ctx, s, drop, e["seq"]):
                    P.unexplained_dgram_loss += 1
    else:
        # an empty payload carries no identity: it is the first outstanding datagram (per source, in
        # order) that can arrive empty in this capacity; datagrams before it went with a dropped
        # multishot stream (allowed for datagrams). Without such a datagram the oldest outstanding one
        # is taken and its length is judged.
        src = r.get("src") if isinstance(r, dict) else None
        by_src = {}
        for s in queue:
            if not s["m"] and not s["skip"]:
                by_src.setdefault(s["src"], []).append(s)
        if src:
            named = {k: v for k, v in by_src.items() if addr.get(k) == src}
            by_src = named or by_src
        best = None
        # (polling driver, items with their own length: the payload is reported empty whatever was
        # received - recorded deviation - so the item is simply the oldest datagram of its source)
        own_len_lost = ctx["drv"] == "poll" and op in ("fmulti", "mmulti")
        for lst in by_src.values():
            for i, s in enumerate(lst):
                if min(s["n"], cap) == 0 or own_len_lost:
                    if best is None or (i, s["seq"]) < (best[0], best[1]["seq"]):
                        best = (i, s, lst)
                    break
        if best is not None:
            i, cand, lst = best
            for s in lst[:i]:
                s["skip"] = True
                if not _lost_at(ctx, s, drop, e["seq"]):
                    P.unexplained_dgram_loss += 1
        else:
            pool = list(heads.values())
            if src:
                pool = [s for s in pool if addr.get(s["src"]) == src] or pool
            if not pool:
                P.add("contract", {"site": "dgram", "kind": "unknown", "op": op}, "%s returned an (empty) datagram but nothing is outstanding" % op, e["seq"])
                return
            cand = sorted(pool, key=lambda s: s["seq"])[0]
    cand["m"] = True
    n = cand["n"]
    poll_multi = ctx["drv"] == "poll" and op in ("fmulti", "mmulti")
    if k != min(n, cap):
        sig = {"site": "dgram", "kind": "length", "op": op}
        if poll_multi and k == 0:
            sig["cause"] = "fusion_poll_multi_len"
        P.add("contract", sig, "%s: datagram %d of %d bytes received into capacity %d as %d bytes (expected %d)" % (op, cand["uid"], n, cap, k, min(n, cap)), e["seq"])
    if not r.get("ok", True):
        P.add("contract", {"site": "dgram", "kind": "corrupt", "op": op}, "%s: payload of datagram %d differs from what was sent" % (op, cand["uid"]), e["seq"])
    if endmark:
        return
    if op in DG_SRC:
        if r.get("none"):
            sig = {"site": "dgram", "kind": "source", "op": op}
            if n == 0 or cap == 0:
                sig["cause"] = "managed_empty_none"
            P.add("contract", sig, "%s consumed datagram %d (%d bytes) from %s but returned nothing: its source address is not delivered" % (op, cand["uid"], n, addr[cand["src"]]), e["seq"])
        elif r.get("src") != addr[cand["src"]]:
            P.add("contract", {"site": "dgram", "kind": "source", "op": op},
                  "%s: datagram %d came from %s but the call reported %s" % (op, cand["uid"], addr[cand["src"]], r.get("src")), e["seq"])
    if op in DG_FLAGS and not r.get("none"):
        trunc = bool(r.get("flags", 0) & MSG_TRUNC)
        if trunc != (n > cap):
            sig = {"site": "dgram", "kind": "trunc_flag", "op": op}
            if poll_multi and k == 0:
                sig["cause"] = "fusion_poll_multi_len"
            P.add("contract", sig, "%s: datagram %d of %d bytes into capacity %d: MSG_TRUNC %s" % (op, cand["uid"], n, cap, "set" if trunc else "not set"), e["seq"])


def split_programs(events):
    cur = None
    for e in events:
        if e["e"] == "reset":
            if cur:
                yield cur
            cur = []
        if cur is not None:
            cur.append(e)
    if cur:
        yield cur


# ---------------------------------------------------------------------------------------------
# history -> records of spec/Trace_Socket.tla (one JSON object per line, every field always present)
# ---------------------------------------------------------------------------------------------

DEF = dict(ev="", prog=0, seq=0, slot=0, drv="", d=0, p="-", op="", id=0, n1=0, n2=0, k=0, base=0, runs=[], l1=0, l2=0, blen=0,
           flag=-1, src="-", to="-", uid=0, cap=0, wsrc=False, wfl=False, own=False, anc=False, lost=0, conn=0,
           lostc=[], none=False, back=True, end=False, res="ok")


def _rec(prog, e, **kw):
    r = dict(DEF)
    r["prog"] = prog
    r["seq"] = e.get("seq", 0)
    r.update(kw)
    return r


def flatten(events):
    """events of one program, already judged by evaluate() (which locates ambiguous chunks and annotates
    deviation contexts with the bytes / datagrams lost there). Returns (records, complete)."""
    reset = events[0]
    prog, drv, tr = reset["prog"], reset["drv"], reset["tr"]
    poolbuf, ctrl = reset.get("poolbuf", POOLBUF_DEFAULT), reset.get("ctrl", 64)
    out = [_rec(prog, reset, ev="reset", drv=drv)]
    rets = {e["id"]: e for e in events if e["e"] == "ret"}
    calls = {e["id"]: e for e in events if e["e"] == "call"}
    complete = True
    if tr != "udp":
        conn_of = {e["addr"]: e["conn"] for e in events if e["e"] == "ret" and e.get("op") == "connect" and e["res"] == "ok"}
        yielded = {e["addr"] for e in events if e["e"] == "ret" and e.get("op") == "accept" and e["res"] == "ok"}
        polled = {e["of"] for e in events if e["e"] == "call" and e.get("op") == "accept" and e.get("kind") == "multi"}
        lost_conns = sorted(c for a, c in conn_of.items() if a not in yielded)
        first_drop_done = False
        for e in events:
            ev, op = e["e"], e.get("op")
            if ev == "call" and op == "connect":
                if rets.get(e["id"], {}).get("res") == "ok":
                    out.append(_rec(prog, e, ev="connect", conn=e["conn"]))
            elif ev == "call" and op == "incoming":
                if e["id"] in polled:
                    out.append(_rec(prog, e, ev="incopen"))
            elif ev == "ret" and op == "accept":
                if e["res"] == "ok":
                    out.append(_rec(prog, e, ev="accept", op=e["kind"], conn=conn_of.get(e["addr"], -1)))
                else:
                    complete = False
            elif ev == "drop" and op == "incoming":
                if e["id"] in polled:
                    lc = []
                    if drv == "iour" and not first_drop_done:
                        lc = lost_conns
                        first_drop_done = True
                    out.append(_rec(prog, e, ev="incdrop", lostc=lc))
            elif ev == "split":
                out.append(_rec(prog, e, ev="split", p=e["peer"], op=e["mode"]))
            elif ev == "drop_half":
                out.append(_rec(prog, e, ev="drophalf", p=e["peer"], op="borrowed" if e.get("borrowed") else "owned"))
            elif ev == "fdcheck":
                out.append(_rec(prog, e, ev="fdcheck", p=e["peer"], back=bool(e["ok"])))
            elif ev == "call" and e.get("task") == "w" and op in STREAM_SEND:
                r = rets.get(e["id"])
                if r is None:
                    complete = False
                    break
                parts = e.get("parts") or [e["n"], 0]
                back = bool(r.get("same", True) and r.get("lensame", True) and r.get("intact", True))
                out.append(_rec(prog, e, ev="send", d=e["dir"], op=op, n1=parts[0], n2=parts[1], base=e["base"], k=r.get("k", 0),
                                res=r["res"], back=back))
            elif ev == "ret" and op == "zcwait" and "dir" in e:
                out.append(_rec(prog, e, ev="zcwait", d=e["dir"], back=bool(e["same"] and e["lensame"] and e["intact"])))
            elif ev == "call" and op == "shutdown":
                r = rets.get(e["id"])
                if r is None:
                    complete = False
                    break
                out.append(_rec(prog, e, ev="shutdown", d=e["dir"], res=r["res"]))
            elif ev == "ret" and e.get("task") == "r" and op in ("recv", "recvv", "msg", "msgv", "managed", "msgmanaged"):
                call = calls[e["id"]]
                if e["res"] == "nobufs":
                    out.append(_rec(prog, e, ev="nobufs", d=e["dir"]))
                    continue
                if e["res"] != "ok":
                    if e["res"] != "unsupported":
                        complete = False
                    continue
                caps = call.get("caps") or [call.get("c", 0), 0]
                if len(caps) == 1:
                    caps = [caps[0], 0]
                lens = e.get("lens") or [0, 0]
                out.append(_rec(prog, e, ev="recv", d=e["dir"], op=op, n1=caps[0], n2=caps[1], k=e["k"], runs=e.get("runs", []),
                                l1=lens[0], l2=lens[1], blen=e.get("len", e["k"]),
                                flag=(1 if e.get("flags", 0) & MSG_TRUNC else 0) if "flags" in e else -1,
                                none=bool(e.get("none", False)), back=bool(e.get("same", True))))
            elif ev == "call" and e.get("task") == "r" and op in ("multi", "msgmulti"):
                if op == "multi":
                    cap = effcap(e.get("c", 0), poolbuf)
                else:
                    cap = poolbuf - IOUR_MSG_HDR - ctrl if drv == "iour" else poolbuf
                out.append(_rec(prog, e, ev="mopen", d=e["dir"], op=op, cap=cap, anc=(op == "msgmulti")))
            elif ev == "item" and op in ("multi", "msgmulti"):
                if e["res"] == "ok":
                    out.append(_rec(prog, e, ev="mitem", d=e["dir"], op=op, k=e["k"], runs=e.get("runs", []), anc=(op == "msgmulti"),
                                    lost=e.get("lost", 0)))
                elif e["res"] == "nobufs":
                    out.append(_rec(prog, e, ev="mnobufs", d=e["dir"]))
                elif e["res"] != "unsupported":
                    complete = False
            elif ev == "end" and op in ("multi", "msgmulti"):
                out.append(_rec(prog, e, ev="mitem", d=e["dir"], op=op, k=0, runs=[], anc=(op == "msgmulti"), end=True))
            elif ev == "drop" and op in ("multi", "msgmulti"):
                out.append(_rec(prog, e, ev="mdrop", d=e["dir"], op=op, lost=e.get("lost", 0)))
        return out, complete
    socks = [e for e in events if e["e"] == "socks"]
    if not socks:
        return out, False
    peer_of = {socks[0][p]: p for p in ("a", "b", "c") if socks[0].get(p)}

    def dg(e, evname, op, call, **kw):
        if op in DG_MANAGED or op == "multi":
            cap = effcap(call.get("c", 0), poolbuf)
        elif op == "fmulti":
            cap = poolbuf - IOUR_MSG_HDR if drv == "iour" else poolbuf
        elif op == "mmulti":
            cap = poolbuf - IOUR_MSG_HDR - ctrl if drv == "iour" else poolbuf
        else:
            cap = sum(call.get("caps", [0]))
        wsrc, wfl = op in DG_SRC, op in DG_FLAGS
        none = bool(e.get("none", False))
        src = "-"
        if wsrc and not none and "src" in e:
            src = peer_of.get(e.get("src"), "?")
        flag = -1
        if wfl and not none:
            flag = 1 if e.get("flags", 0) & MSG_TRUNC else 0
        return _rec(prog, e, ev=evname, p=e["peer"], op=op, n1=call.get("c", 0), cap=cap, k=e.get("k", 0), uid=e.get("uid", 0),
                    src=src, flag=flag, wsrc=wsrc, wfl=wfl, own=op in ("fmulti", "mmulti"), none=none,
                    back=bool(e.get("ok", True) and e.get("same", True)), **kw)

    for e in events:
        ev, op = e["e"], e.get("op")
        if ev == "call" and e.get("task") == "w" and op != "zcwait":
            r = rets.get(e["id"])
            if r is None:
                complete = False
                break
            res = r["res"]
            if res == "err" and (r.get("err") or {}).get("os") == EMSGSIZE:
                res = "toobig"
            out.append(_rec(prog, e, ev="dgsend", id=e["id"], p=e["peer"], to=e["to"], uid=e["uid"], n1=e["n"], res=res))
        elif ev == "ret" and e.get("task") == "w" and op != "zcwait":
            if e["res"] == "ok":
                out.append(_rec(prog, e, ev="dgsendret", id=e["id"]))
        elif ev == "ret" and e.get("task") == "r":
            if e["res"] == "ok":
                out.append(dg(e, "dgrecv", op, calls[e["id"]]))
            elif e["res"] not in ("nobufs", "unsupported"):
                complete = False
        elif ev == "call" and e.get("task") == "r" and op in DG_MULTI:
            out.append(_rec(prog, e, ev="dgmopen", p=e["peer"], op=op))
        elif ev == "item" and op in DG_MULTI:
            if e["res"] == "ok":
                out.append(dg(e, "dgmitem", op, calls[e["id"]]))
            elif e["res"] not in ("nobufs", "unsupported"):
                complete = False
        elif ev == "end" and op in DG_MULTI:
            out.append(_rec(prog, e, ev="dgmitem", p=e["peer"], op=op, cap=effcap(calls[e["id"]].get("c", 0), poolbuf), end=True))
        elif ev == "drop" and op in DG_MULTI:
            out.append(_rec(prog, e, ev="dgmdrop", p=e["peer"], op=op, lost=e.get("lost", 0)))
    return out, complete


# ---------------------------------------------------------------------------------------------
# the check
# ---------------------------------------------------------------------------------------------

COMBOS = [("tcp", "iour"), ("tcp", "poll"), ("unix", "iour"), ("unix", "poll"), ("udp", "iour"), ("udp", "poll")]

# exhaustive configurations: (cfg, expected violated invariant or None, liveness?)
MC_QUICK = [
    ("MC_Socket_stream.cfg", None), ("MC_Socket_vec.cfg", None), ("MC_Socket_stream_ideal.cfg", None),
    ("MC_Socket_stream_strict.cfg", "NoLostBytes"),
    ("MC_Socket_dgram.cfg", None), ("MC_Socket_dgram_ideal.cfg", None),
    ("MC_Socket_dgram_strict.cfg", "DgSourceDelivered"),
    # control of the repaired deviation (fusion.rs set_result forwarding): with the old behaviour
    # switched on the payload invariant must fail
    ("MC_Socket_dgram_strict2.cfg", "DgPayloadDelivered"),
    ("MC_Socket_listen.cfg", None), ("MC_Socket_listen_ideal.cfg", None),
    ("MC_Socket_live.cfg", None),
]
MC_THOROUGH = MC_QUICK + [("MC_Socket_listen_strict.cfg", "NoLostConnection"),
                          ("MC_Socket_stream_thorough.cfg", None), ("MC_Socket_live_thorough.cfg", None)]
# the named deviation actions: they must fire in the implementation-shaped configurations and must
# never fire in the ideal ones
DEVIATION_ACTIONS = {"MultiDropDiscards", "IncomingDropCloses"}
# actions that a configuration leaves out on purpose (covered by another configuration of the same run)
NOT_IN = {
    "MC_Socket_stream.cfg": {"SendVectored", "ZcSendVectored", "RecvVectored", "RecvMsg", "SplitOwned", "DropHalf", "HandleStep", "ZcUnsupported", "RecvNoBufs"},
    "MC_Socket_stream_ideal.cfg": {"SendVectored", "ZcSendVectored", "RecvVectored", "RecvMsg", "SplitOwned", "DropHalf", "HandleStep", "ZcUnsupported", "RecvNoBufs"},
    "MC_Socket_vec.cfg": {"RecvManaged", "MultiOpen", "MultiNext", "MultiDropClean", "MultiDropDiscards", "MultiResubmit", "KernelPrefetch", "KernelTerminate",
                          "ZcUnsupported", "RecvNoBufs"},
    "MC_Socket_stream_thorough.cfg": {"SplitOwned", "DropHalf", "HandleStep", "ZcUnsupported", "RecvNoBufs"},
}


# many short TLC runs: the serial collector and the C1 compiler only cost far less CPU than the defaults
# (measured 2.5x on a loaded machine); the big thorough configurations keep the optimising compiler
LIGHT_JVM = ["-XX:-UseParallelGC", "-XX:+UseSerialGC", "-XX:TieredStopAtLevel=1"]


def _tlc(module, cfg, light=True, **kw):
    """vlib.tlc, retried when the JVM could not unpack its standard modules (shared /tmp)"""
    r = None
    if light:
        kw["jvm"] = (kw.get("jvm") or []) + LIGHT_JVM
    for _ in range(3):
        r = vlib.tlc(module, cfg, **kw)
        if r.error and ("Parsing or semantic analysis failed" in r.error or "FileNotFoundException" in r.out):
            continue
        break
    return r


def _validate_trace(path, timeout=1500):
    """as vlib.validate_trace (TRACE environment, one worker, deque state queue, deep stack) with the
    light JVM settings and the retry of _tlc"""
    env = {"TRACE": os.path.abspath(path), "JAVA_TOOL_OPTIONS": "-Xss1g -Dtlc2.tool.queue.IStateQueue=StateDeque"}
    r = _tlc("Trace_Socket", "Trace_Socket.cfg", workers=1, timeout=timeout, coverage=False, env=env, jvm=["-Xmx4g"], marker="TRACE")
    return ("TRACE_ACCEPTED" in r.out) and r.violated is None and r.error is None, r


def model_checking(run, tier):
    cfgs = MC_QUICK if tier == "quick" else MC_THOROUGH

    def go(item):
        cfg, expect = item
        live = "live" in cfg
        return item, _tlc("Socket", cfg, light=("thorough" not in cfg), timeout=1500, workers=1,
                          coverage=(expect is None and not live))

    with ThreadPoolExecutor(3) as ex:      # + the generator running next to it: at most 4 TLC workers
        results = list(ex.map(go, cfgs))
    for (cfg, expect), r in results:
        name = "Socket/" + cfg
        if expect:
            # non-vacuity of a recorded deviation: with it the strict property must fail
            if r.violated != expect:
                raise vlib.ToolError("%s: expected the model to violate %s, got violated=%s error=%s" % (name, expect, r.violated, r.error))
            continue
        vlib.require_model_ok(r, name)
        if "live" not in cfg:
            skip = set(NOT_IN.get(cfg, set()))
            if "ideal" in cfg:
                fired = [a for a in DEVIATION_ACTIONS if r.coverage.get(a, (0, 0))[1] > 0]
                if fired:
                    raise vlib.ToolError("%s: deviation actions fired in the ideal configuration: %s" % (name, fired))
                skip |= DEVIATION_ACTIONS
            z = [a for a in vlib.zero_actions(r) if a not in skip]
            if z:
                raise vlib.ToolError("%s: actions never taken: %s" % (name, z))
        run.add_model(name, r)


def generate(run, tier, tmp):
    """programs from Gen_Socket (simulation seeded by VERIF_SEED; a fixed seed gives the same programs)"""
    n_stream, n_dgram = (90, 50) if tier == "quick" else (2500, 1500)
    progs = []

    def gen(item):
        cfg, n = item
        got = []
        g = _tlc("Gen_Socket", cfg, timeout=1500, simulate=n, depth=40, coverage=False, sink=got.append)
        if g.error or g.violated:
            raise vlib.ToolError("Gen_Socket/%s: %s %s\n%s" % (cfg, g.error, g.violated, g.out[-2000:]))
        if len(got) < n:
            raise vlib.ToolError("Gen_Socket/%s printed %d of %d programs" % (cfg, len(got), n))
        return got

    for item in (("Gen_Socket_stream.cfg", n_stream), ("Gen_Socket_dgram.cfg", n_dgram)):
        progs += gen(item)
    path = os.path.join(tmp, "programs.jsonl")
    kinds = {}
    with open(path, "w") as f:
        for i, p in enumerate(progs):
            p["id"] = i + 1
            if p["t"] == "stream" or p.get("conn"):
                p.pop("c", None)
            for side in ("a", "b", "c"):
                for o in (p.get(side) or {}).get("w", []):
                    kinds[(p["t"], "s." + o["k"], o["n"], o["sh"])] = 1
                for o in (p.get(side) or {}).get("r", []):
                    kinds[(p["t"], "r." + o["k"], o["c"], o["sh"])] = 1
            f.write(json.dumps(p) + "\n")
    run.note("programs_generated", len(progs))
    run.note("distinct_op_size_shape_combinations", len(kinds))
    return path, {p["id"]: p for p in progs}


def record(tmp, programs_path, combos=None):
    """one recorder process per transport/driver combination (three at a time). A process that dies
    (abort inside the code under test) is data: what it recorded is judged, the death is reported."""
    combos = list(combos or COMBOS)

    def go(c):
        outdir = os.path.join(tmp, "rec_%s_%s" % c)
        rc, out, err = vlib.run_bin("record_socket", [programs_path, outdir, "%s:%s" % c], timeout=6000, check=False)
        return c, outdir, rc, out, err

    merged = {"combos": {}}
    problems = []
    with ThreadPoolExecutor(3) as ex:
        for c, outdir, rc, out, err in ex.map(go, combos):
            lines = vlib.jsonl(out)
            summ = [x for x in lines if x.get("type") == "summary"]
            problems += [x for x in lines if x.get("type") != "summary"]
            key = "%s:%s" % c
            if summ and rc == 0:
                merged["combos"].update(summ[0].get("combos", {}))
                if summ[0].get("aborted"):
                    merged["combos"].setdefault(key, {"programs": 0, "events": 0, "trace": os.path.join(outdir, "trace_%s_%s.ndjson" % c)})
                    merged["combos"][key]["died"] = "recorder watchdog: no progress"
            else:
                trace = os.path.join(outdir, "trace_%s_%s.ndjson" % c)
                if not os.path.exists(trace):
                    raise vlib.ToolError("record_socket %s failed before recording anything rc=%s\n%s" % (key, rc, err[-2000:]))
                merged["combos"][key] = {"programs": 0, "events": 0, "trace": trace, "unsupported": {},
                                         "died": "rc=%s: %s" % (rc, (err.strip().splitlines() or ["?"])[-1][:300])}
    return tmp, merged, problems


def load_trace(path):
    out = []
    with open(path) as f:
        for x in f:
            try:
                out.append(json.loads(x))
            except ValueError:
                break           # a line cut short by a dying process
    return out


def judge(events):
    """per program: problems of the oracle, TLC records"""
    res = []
    for prog in split_programs(events):
        probs, info = evaluate(prog)
        recs, complete = flatten(prog)
        res.append({"prog": prog[0]["prog"], "events": prog, "problems": probs, "records": recs,
                    "complete": complete and not info["unalignable"] and info["status"] == "ok", "info": info})
    return res


def validate(tmp, name, judged):
    """TLC validation of the programs of one transport (entries carry "key" = (driver, program id)).
    Returns (accepted keys, rejected {key: record}, keys not validated, distinct states)."""
    todo = [j for j in judged if j["complete"]]
    accepted, rejected = set(), {}
    rounds = 0
    states = 0
    while todo and rounds < 4:
        rounds += 1
        path = os.path.join(tmp, "flat_%s_%d.ndjson" % (name, rounds))
        with open(path, "w") as f:
            for n, j in enumerate(todo):
                for r in j["records"]:
                    f.write(json.dumps(dict(r, slot=n)) + "\n")
        ok, r = _validate_trace(path)
        states += r.distinct
        if r.error:
            raise vlib.ToolError("Trace_Socket on %s: %s\n%s" % (name, r.error, r.out[-3000:]))
        if ok:
            accepted |= {j["key"] for j in todo}
            todo = []
            break
        if not r.printed:
            raise vlib.ToolError("Trace_Socket on %s: rejected without naming a record\n%s" % (name, r.out[-2000:]))
        bad = r.printed[0]["unmatched"]
        n = bad["slot"]
        accepted |= {j["key"] for j in todo[:n]}
        rejected[todo[n]["key"]] = bad
        todo = todo[n + 1:]
    return accepted, rejected, [j["key"] for j in todo], states


def report_all(run, judged_by_combo, rejected_by_combo, programs):
    """oracle problems -> VIOLATION / KNOWN-FINDING; TLC rejections without an oracle problem -> DRIFT"""
    drift = 0
    for (tr, drv), judged in judged_by_combo.items():
        rej = rejected_by_combo.get((tr, drv), {})
        for j in judged:
            hard = [p for p in j["problems"] if p["type"] in ("contract", "panic", "hang", "error")]
            for p in hard:
                sig = dict(p["sig"])
                sig["type"] = p["type"]
                desc = "[%s/%s program %d] %s" % (tr, drv, j["prog"], p["desc"])
                replay = {"program": programs.get(j["prog"]), "tr": tr, "drv": drv,
                          "history_tail": [e for e in j["events"] if e["e"] != "clients"][-40:]}
                run.report(sig, desc, replay)
            if j["prog"] in rej and not hard:
                drift += 1
                vlib.log("DRIFT (%s/%s program %d): the history is not a behaviour of Socket.tla although the contract holds; "
                         "first record not explained: %s" % (tr, drv, j["prog"], json.dumps(rej[j["prog"]])[:400]))
    return drift


def negative_control(run, tmp, judged_by_combo):
    """corrupt one recorded chunk / one flag and require that both judges notice"""
    jobs = []
    for want in ("tcp", "udp"):
        found = False
        for (tr, drv), judged in judged_by_combo.items():
            if tr != want or found:
                continue
            for j in judged:
                if not j["complete"] or j["problems"]:
                    continue
                ev = json.loads(json.dumps(j["events"]))
                hit = False
                for e in ev:
                    if tr != "udp" and e["e"] in ("ret", "item") and e.get("task") == "r" and e.get("k", 0) >= 8 and e.get("runs"):
                        e["runs"][0][0] += 1          # the chunk claims to start one byte later: one byte lost
                        hit = True
                        break
                    if tr == "udp" and e["e"] == "ret" and e.get("op") in ("recvmsg", "recvmsgv") and e.get("res") == "ok":
                        e["flags"] = e.get("flags", 0) ^ MSG_TRUNC     # truncation flag flipped
                        hit = True
                        break
                if not hit:
                    continue
                probs, info = evaluate(ev)
                if not [p for p in probs if p["type"] == "contract"]:
                    raise vlib.ToolError("negative control (%s): the oracle accepted a corrupted history" % tr)
                recs, _ = flatten(ev)
                path = os.path.join(tmp, "neg_%s.ndjson" % tr)
                with open(path, "w") as f:
                    for r in recs:
                        f.write(json.dumps(r) + "\n")
                jobs.append((tr, path))
                found = True
                break
    if len(jobs) < 2:
        raise vlib.ToolError("negative control: no suitable history found (%d of 2)" % len(jobs))

    def go(job):
        tr, path = job
        ok, r = _validate_trace(path, timeout=600)
        return tr, ok, r

    with ThreadPoolExecutor(2) as ex:
        for tr, ok, r in ex.map(go, jobs):
            if ok or r.error:
                raise vlib.ToolError("negative control (%s): Trace_Socket accepted a corrupted history (%s)" % (tr, r.error))
    run.note("negative_controls_rejected", len(jobs))


def run(run, tier, replay):
    for m in ("Socket", "Gen_Socket", "Trace_Socket"):
        vlib.sany(m)
    tmp = vlib.scratch()
    try:
        if replay:
            obj = json.load(open(replay))["replay"]
            p = os.path.join(tmp, "one.jsonl")
            with open(p, "w") as f:
                f.write(json.dumps(obj["program"]) + "\n")
            vlib.cargo_build("hnet", ["record_socket"])
            outdir, summ, problems = record(tmp, p, [(obj["tr"], obj["drv"])])
            ev = load_trace(summ["combos"]["%s:%s" % (obj["tr"], obj["drv"])]["trace"])
            judged = judge(ev)
            report_all(run, {(obj["tr"], obj["drv"]): judged}, {}, {obj["program"]["id"]: obj["program"]})
            run.add_traces(len(judged))
            run.cov["states"] = run.cov["transitions"] = 1
            run.sample(obj["program"])
            return
        import time
        t0 = time.time()
        # 1.-3. model checking, program generation and the harness build do not depend on each other
        with ThreadPoolExecutor(3) as ex:
            f_mc = ex.submit(model_checking, run, tier)
            f_gen = ex.submit(generate, run, tier, tmp)
            f_build = ex.submit(vlib.cargo_build, "hnet", ["record_socket"])
            ppath, programs = f_gen.result()
            vlib.log("C14: %d programs generated (%.0fs)" % (len(programs), time.time() - t0))
            f_build.result()
            vlib.log("C14: harness built (%.0fs)" % (time.time() - t0))
            f_mc.result()
            vlib.log("C14: model checking done (%.0fs)" % (time.time() - t0))
        for p in list(programs.values())[:2]:
            run.sample(p, limit=2)
        outdir, summ, problems = record(tmp, ppath)
        vlib.log("C14: programs recorded on real sockets (%.0fs)" % (time.time() - t0))
        per_combo = summ.get("combos", {})
        unsupported, unavailable = {}, {}
        judged_by_combo = {}
        events_by_combo = {}
        for tr, drv in COMBOS:
            c = per_combo.get("%s:%s" % (tr, drv))
            if not c:
                raise vlib.ToolError("record_socket did not run %s:%s" % (tr, drv))
            if c.get("driver_unavailable"):
                unavailable["%s:%s" % (tr, drv)] = c["driver_unavailable"]
                continue
            if c.get("unsupported"):
                unsupported["%s:%s" % (tr, drv)] = c["unsupported"]
            if c.get("stopped_after"):
                vlib.log("NOTE: %s:%s stopped after %d programs (%d did not finish)" % (tr, drv, c["stopped_after"], c["hangs"]))
                run.note("stopped_%s_%s" % (tr, drv), c["stopped_after"])
            ev = load_trace(c["trace"])
            events_by_combo[(tr, drv)] = len(ev)
            judged_by_combo[(tr, drv)] = judge(ev)
            if c.get("died"):
                last = judged_by_combo[(tr, drv)][-1]["prog"] if judged_by_combo[(tr, drv)] else None
                run.report({"site": "process", "kind": "died", "tr": tr, "drv": drv, "type": "panic"},
                           "[%s/%s] the recorder process died while running program %s: %s" % (tr, drv, last, c["died"]),
                           {"program": programs.get(last), "tr": tr, "drv": drv})
        run.note("unsupported_operation_kinds", unsupported)
        run.note("driver_unavailable", unavailable)
        if unavailable:
            vlib.log("NOTE: driver not available on this kernel, not exercised: %s" % unavailable)
        if not judged_by_combo:
            raise vlib.ToolError("no transport/driver combination could be run")
        # 4. TLC validation of every history: one trace per transport (both drivers), in parallel
        by_tr = {}
        for (tr, drv), judged in judged_by_combo.items():
            by_tr.setdefault(tr, []).extend((drv, j) for j in judged)

        def val(item):
            tr, lst = item
            return tr, validate(tmp, tr, [dict(j, key=(drv, j["prog"])) for drv, j in lst])

        with ThreadPoolExecutor(3) as ex:
            vres = dict(ex.map(val, by_tr.items()))
        vlib.log("C14: histories validated by TLC (%.0fs)" % (time.time() - t0))
        rejected_by_combo = {}
        table = {}
        for tr, (acc, rej, left, states) in vres.items():
            run.cov["states"] += states
            for drv in sorted({d for d, _ in by_tr[tr]}):
                judged = judged_by_combo[(tr, drv)]
                a = {p for (d, p) in acc if d == drv}
                rj = {p: rec for (d, p), rec in rej.items() if d == drv}
                rejected_by_combo[(tr, drv)] = rj
                incomplete = [j["prog"] for j in judged if not j["complete"]]
                table["%s:%s" % (tr, drv)] = {"programs": len(judged), "events": events_by_combo[(tr, drv)],
                                              "records_validated": sum(len(j["records"]) for j in judged if j["prog"] in a),
                                              "accepted_by_Trace_Socket": len(a), "rejected": sorted(rj),
                                              "not_validated": sorted(p for (d, p) in left if d == drv),
                                              "incomplete_history": incomplete}
                run.add_traces(len(a))
            table["%s:trace_states" % tr] = states
        run.note("per_transport_and_driver", table)
        drift = report_all(run, judged_by_combo, rejected_by_combo, programs)
        run.note("drift_programs", drift)
        # a rejection must be explained by an oracle problem of the same program, else the model lost the code
        if drift and not run.violations:
            raise vlib.ToolError("%d histories are not behaviours of Socket.tla although the contract oracle is satisfied "
                                 "(spec drift; see the DRIFT lines)" % drift)
        # 5. negative controls
        negative_control(run, tmp, judged_by_combo)
        run.assumptions += ["loopback sockets behave like any other path through the same compio code",
                            "the recorder's decoding of payload bytes to stream offsets is correct (unit-tested round trip)",
                            "operations of one task are issued sequentially; at most one writer and one reader task per direction"]
    finally:
        shutil.rmtree(tmp, ignore_errors=True)
