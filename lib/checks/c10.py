"""C10 - all buffer views obey one contract (compio-buf Slice / Uninit / vectored views).

1. TLC checks the contract on the implementation-shaped model BufView (exhaustive, small constants);
   the single recorded deviation (Uninit after a fill) is a named predicate, everything else must hold.
2. Gen_BufView enumerates every program (quick) or samples them with a seed (thorough) and the
   harness replays each on the real views for two concrete root types per kind, comparing the
   projected (offset, length) pairs, the root length and the root content after every step, and
   evaluating the contract on the real pointers independently of the model.
"""
import json
import os

import vlib

LEVEL = "model_checking"
TITLE = "All buffer views obey one contract"
TEXT = ("TLC explores every program of slice/uninit/into_inner/fill over a root buffer within small bounds on a "
        "transcription of compio-buf's view arithmetic and checks the contract in every state; every such program is "
        "replayed on the real Slice/Uninit/VectoredSlice/VectoredBufIter types over six root buffer types with the "
        "projected offsets, lengths and content compared step by step and the contract evaluated on the real pointers.")
NOTE = ("Bounds: capacity 4 (quick) / 6 (thorough), nesting <= 3, <= 4-6 steps. Assumes Vec/BytesMut::with_capacity "
        "give the exact capacity (asserted). Byte-level UB as such is not observed, only offsets/lengths/content.")
TECHNIQUE = "TLA+ model (TLC exhaustive) + spec-to-impl behaviour replay with contract oracle"
DESIGN_REF = "3/C10"


def replay_file(run, path, binname="replay_bufview"):
    rc, out, err = vlib.run_bin(binname, [path])
    lines = vlib.jsonl(out)
    summary = [l for l in lines if l.get("type") == "summary"]
    if not summary:
        raise vlib.ToolError("%s produced no summary\n%s" % (binname, err[-2000:]))
    summary = summary[0]
    details = {}
    for l in lines:
        if l.get("type") in ("contract", "panic", "mismatch", "hang"):
            details.setdefault((l["type"], json.dumps(l["sig"], sort_keys=True)), l)
    return summary, details


def classify(run, summary, details, what):
    """contract/panic problems are property violations (unless listed as known finding);
    mismatches without a contract violation are spec drift: reported in evidence, never an alarm."""
    drift = 0
    for p in summary["problems"]:
        key = (p["type"], json.dumps(p["sig"], sort_keys=True))
        d = details.get(key, {})
        if p["type"] == "mismatch":
            drift += p["count"]
            vlib.log("DRIFT (%s): %d steps where implementation and model differ but the contract holds: %s" %
                     (what, p["count"], d.get("desc", "")[:300]))
            continue
        for _ in range(p["count"]):
            if run.report(p["sig"], d.get("desc", ""), d.get("case")) == "violation":
                break
    return drift


def run(run, tier, replay):
    vlib.sany("BufView")
    vlib.sany("Gen_BufView")
    vlib.sany("BufVec")
    vlib.sany("Gen_BufVec")
    tmp = vlib.scratch()
    try:
        if replay:
            obj = json.load(open(replay))
            p = os.path.join(tmp, "one.jsonl")
            with open(p, "w") as f:
                f.write(json.dumps(obj["replay"]) + "\n")
            binname = "replay_bufvec" if "bufs" in obj["replay"] else "replay_bufview"
            vlib.cargo_build("hcore", [binname])
            s, d = replay_file(run, p, binname)
            classify(run, s, d, "replay")
            run.add_traces(s["cases"])
            run.cov["states"] = run.cov["transitions"] = 1
            run.sample(obj["replay"])
            return
        # 1. model checking
        mc = "MC_BufView.cfg" if tier == "quick" else "MC_BufView_thorough.cfg"
        r = vlib.tlc("BufView", mc, timeout=1500)
        vlib.require_model_ok(r, "BufView/" + mc)
        z = vlib.zero_actions(r)
        if z:
            raise vlib.ToolError("BufView: actions never taken: %s" % z)
        run.add_model("BufView/" + mc, r)
        # non-vacuity: the deviation predicate is what makes the contract hold
        r2 = vlib.tlc("BufView", "MC_BufView_strict.cfg", timeout=300, coverage=False)
        if r2.violated != "Contract":
            raise vlib.ToolError("BufView strict control: expected the model to violate Contract, got %s %s" %
                                 (r2.violated, r2.error))
        mcv = "MC_BufVec.cfg" if tier == "quick" else "MC_BufVec_thorough.cfg"
        r = vlib.tlc("BufVec", mcv, timeout=1500)
        vlib.require_model_ok(r, "BufVec/" + mcv)
        z = vlib.zero_actions(r)
        if z:
            raise vlib.ToolError("BufVec: actions never taken: %s" % z)
        run.add_model("BufVec/" + mcv, r)

        # 2. behaviours
        vlib.cargo_build("hcore", ["replay_bufview", "replay_bufvec"])
        total_drift = 0
        for module, binname in (("Gen_BufView", "replay_bufview"), ("Gen_BufVec", "replay_bufvec")):
            path = os.path.join(tmp, module + ".jsonl")
            n = 0
            with open(path, "w") as f:
                def sink(o):
                    nonlocal n
                    n += 1
                    if n % 5000 == 1:
                        run.sample(o, limit=3)
                    f.write(json.dumps(o) + "\n")
                if tier == "quick":
                    g = vlib.tlc(module, module + ".cfg", timeout=900, coverage=False, sink=sink)
                else:
                    g = vlib.tlc(module, module + "_thorough.cfg", timeout=1500, coverage=False, sink=sink,
                                 simulate=60000, depth=8)
            if g.error or g.violated:
                raise vlib.ToolError("%s: %s %s\n%s" % (module, g.error, g.violated, g.out[-2000:]))
            if n == 0:
                raise vlib.ToolError(module + " printed no behaviours")
            run.note(module + "_behaviours", n)
            run.note(module + "_exhaustive", tier == "quick")
            s, d = replay_file(run, path, binname)
            total_drift += classify(run, s, d, module)
            run.add_traces(s["cases"])
            run.note(binname + "_steps", s["steps"])
            # 3. negative control: flip one expectation and demand that the replay notices
            bad = os.path.join(tmp, module + "_neg.jsonl")
            with open(path) as f, open(bad, "w") as g2:
                for i, line in enumerate(f):
                    if i >= 50:
                        break
                    o = json.loads(line)
                    x = o["steps"][-1]["x"]
                    if "rl" in x:
                        x["rl"] += 1
                    else:
                        x["lens"][0] += 1
                    g2.write(json.dumps(o) + "\n")
            sneg, _ = replay_file(run, bad, binname)
            nm = sum(p["count"] for p in sneg["problems"] if p["type"] == "mismatch")
            if nm < 50:
                raise vlib.ToolError("negative control: corrupted expectations were accepted (%d/50 noticed)" % nm)
        run.note("drift_steps", total_drift)
        run.note("exhaustive", tier == "quick")
        run.assumptions += ["view arithmetic is independent of the concrete byte values",
                            "Box<dyn> indirection used to nest views dynamically does not change the generic code"]
    finally:
        import shutil
        shutil.rmtree(tmp, ignore_errors=True)
