#!/bin/bash
# usage: seedtest.sh <patch.diff> <Cxx> [more checks...]
# Runs the registered checks against a PRIVATE copy of /repo with the patch applied (used while several
# builders share /repo; once /repo is quiet the sanctioned way is: git -C /repo apply, run, git checkout).
set -u
PATCH=$(readlink -f "$1"); shift
SC=$(mktemp -d /tmp/seedtest_XXXXXX)
rsync -a --exclude target --exclude .git /repo/ $SC/repo/
mkdir -p $SC/verif && git -C /verif archive HEAD | tar -x -C $SC/verif   # committed state only (the lead keeps editing the working tree)
( cd $SC/repo && git apply "$PATCH" ) || { echo "PATCH DOES NOT APPLY"; rm -rf $SC; exit 3; }
find $SC/verif/harness -name Cargo.toml -exec sed -i "s|\"/repo/|\"$SC/repo/|g" {} +
sed -i "s|/repo/Cargo.lock|$SC/repo/Cargo.lock|g" $SC/verif/lib/vlib.py
rm -f $SC/verif/harness/Cargo.lock
for c in "$@"; do
  ( cd $SC/verif && ./check $c --tier quick > $SC/$c.log 2>&1; echo "SEEDTEST $c rc=$? violations=$(grep -c '^VIOLATION' $SC/$c.log) drift=$(grep -c '^DRIFT' $SC/$c.log)"; grep -E '^VIOLATION|^TOOL-ERROR' -A1 $SC/$c.log | head -12 | cut -c1-400 )
done
rm -rf $SC
