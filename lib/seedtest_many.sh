#!/bin/bash
# usage: seedtest_many.sh <slot> <patch.diff>:<Cxx>[,Cyy...] ...
# Like seedtest.sh but keeps ONE private copy (/tmp/st_<slot>) with a warm harness target between patches;
# removed at the end. Runs the registered quick checks against a private copy of /repo with each patch applied.
set -u
SLOT=$1; shift
SC=/tmp/st_$SLOT
mkdir -p $SC/repo $SC/verif
for item in "$@"; do
  PATCH=$(readlink -f "${item%%:*}"); CHECKS=${item#*:}
  rsync -a --delete --exclude target --exclude .git /repo/ $SC/repo/
  # files restored by rsync keep their old mtime: cargo would consider the crate of the PREVIOUS patch fresh and
  # keep that patch compiled in. Touch what the previous patch had changed.
  if [ -n "${PREVFILES:-}" ]; then ( cd $SC/repo && touch $PREVFILES 2>/dev/null ); fi
  PREVFILES=$(git apply --numstat "$PATCH" | awk '{print $3}' | tr '\n' ' ')
  ( cd $SC/verif && find . -mindepth 1 -maxdepth 1 ! -name harness -exec rm -rf {} + ; mkdir -p harness; find harness -mindepth 1 -maxdepth 1 ! -name target -exec rm -rf {} + )
  git -C /verif archive HEAD | tar -x -C $SC/verif
  ( cd $SC/repo && git apply "$PATCH" ) || { echo "SEEDTEST $PATCH DOES-NOT-APPLY"; continue; }
  find $SC/verif/harness $SC/verif/extra/harness -name Cargo.toml -not -path '*/target/*' -exec sed -i "s|\"/repo/|\"$SC/repo/|g" {} +
  sed -i "s|/repo/Cargo.lock|$SC/repo/Cargo.lock|g" $SC/verif/lib/vlib.py $SC/verif/lib/xlib.py
  rm -f $SC/verif/harness/Cargo.lock
  for c in ${CHECKS//,/ }; do
    ( cd $SC/verif && ./check $c --tier quick > $SC/$c.log 2>&1; echo "SEEDTEST $(basename $(dirname $PATCH)) of $(basename $(dirname $(dirname $PATCH))) $c rc=$? violations=$(grep -c '^VIOLATION' $SC/$c.log) drift=$(grep -c '^DRIFT' $SC/$c.log)"; grep -E '^VIOLATION|^TOOL-ERROR' -A1 $SC/$c.log | head -8 | cut -c1-300 )
  done
done
rm -rf $SC
echo SEEDTEST-DONE
