"""Shared machinery for the compio TLA+ verification checks.

Every check module in lib/checks/ uses this: TLC runner (exhaustive, generation,
simulation, trace validation), harness build/run, known-findings lookup,
evidence writer and the exit-code discipline:

  exit 0  property held on everything explored (KNOWN-FINDING lines allowed)
  exit 1  only together with a line  VIOLATION property=<id> replay=<path>
  exit 2  tool error / timeout / vacuity / binding lost  (never a VIOLATION)
"""
import hashlib
import json
import os
import re
import shutil
import subprocess
import sys
import tempfile
import time

VERIF = os.path.dirname(os.path.dirname(os.path.abspath(__file__)))
SPEC = os.path.join(VERIF, "spec")
HARNESS = os.path.join(VERIF, "harness")
EVIDENCE = os.path.join(VERIF, "evidence")
REPLAYS = os.path.join(VERIF, "replays")
TLA_JAR = "/opt/veriftools/tla/tla2tools.jar"
COMMUNITY = "/opt/veriftools/tla/CommunityModules-deps.jar"


class ToolError(Exception):
    pass


def log(*a):
    print(*a, flush=True)


def seed():
    try:
        return int(os.environ.get("VERIF_SEED", "1"))
    except ValueError:
        return 1


# --------------------------------------------------------------------------
# TLC
# --------------------------------------------------------------------------

_TLC_CP = None


def _classpath():
    global _TLC_CP
    if _TLC_CP is None:
        # reuse whatever the `tlc` wrapper uses so CommunityModules resolve
        cp = [TLA_JAR]
        d = os.path.dirname(TLA_JAR)
        for f in sorted(os.listdir(d)):
            if f.endswith(".jar") and os.path.join(d, f) != TLA_JAR:
                cp.append(os.path.join(d, f))
        _TLC_CP = ":".join(cp)
    return _TLC_CP


class TlcResult:
    def __init__(self):
        self.rc = None
        self.out = ""
        self.generated = 0
        self.distinct = 0
        self.depth = 0
        self.violated = None       # name of violated invariant / property
        self.error = None          # other TLC error text
        self.coverage = {}         # action name -> (distinct, total)
        self.printed = []          # parsed PrintT payloads with our marker
        self.wall = 0.0

    @property
    def ok(self):
        return self.violated is None and self.error is None


_RE_STATES = re.compile(r"(\d+) states generated, (\d+) distinct states found")
_RE_DEPTH = re.compile(r"The depth of the complete state graph search is (\d+)")
_RE_INV = re.compile(r"Invariant (\S+) is violated")
_RE_PROP = re.compile(r"(Temporal properties were violated|Action property (\S+) is violated|"
                      r"Action property line .* is violated|Temporal property (\S+) was violated)")
_RE_COV = re.compile(r"^<(\w+) line (\d+), col (\d+) to line (\d+), col (\d+) of module (\w+)>: (\d+):(\d+)")


def tlc(module, cfg=None, *, workers=4, timeout=600, simulate=None, depth=None,
        coverage=True, env=None, deadlock=False, seed_=None, jvm=None, extra=None,
        dfid=None, marker="REPLAY", sink=None, cwd=None):
    """Run TLC on spec/<module>.tla with spec/<cfg>. Returns TlcResult.

    simulate: None or number of behaviours (then `depth` applies)."""
    cwd = cwd or SPEC
    cfg = cfg or (module + ".cfg")
    meta = tempfile.mkdtemp(prefix="tlcmeta_")
    # TLC unpacks its standard modules into java.io.tmpdir (/tmp/tlc-*) and never removes them
    jvm_opts = ["-XX:+UseParallelGC", "-Xss64m", "-Xmx6g", "-Djava.io.tmpdir=" + meta] + (jvm or [])
    cmd = ["timeout", str(timeout), "java"] + jvm_opts + ["-cp", _classpath(), "tlc2.TLC",
           "-metadir", meta, "-cleanup", "-noGenerateSpecTE", "-config", cfg]
    if not deadlock:
        cmd += ["-deadlock"]          # -deadlock DISABLES deadlock checking
    if simulate is not None:
        cmd += ["-simulate", "num=%d" % simulate]
        if depth:
            cmd += ["-depth", str(depth)]
        cmd += ["-seed", str(seed_ if seed_ is not None else seed())]
        cmd += ["-workers", "1"]
    else:
        cmd += ["-workers", str(workers)]
        if coverage:
            cmd += ["-coverage", "1"]
        if dfid:
            cmd += ["-dfid", str(dfid)]
    if extra:
        cmd += extra
    cmd += [module + ".tla"]
    e = dict(os.environ)
    if env:
        e.update(env)
    t0 = time.time()
    r = TlcResult()
    outf = tempfile.NamedTemporaryFile(prefix="tlcout_", suffix=".log", delete=False)
    try:
        p = subprocess.run(cmd, cwd=cwd, env=e, stdout=outf, stderr=subprocess.STDOUT)
        outf.close()
        r.wall = time.time() - t0
        r.rc = p.returncode
        if p.returncode == 124:
            r.error = "timeout after %ss" % timeout
        keep = []
        mk = ('<<"' + marker + '"') if marker else None
        with open(outf.name, errors="replace") as fh:
            for line in fh:
                if mk and line.startswith(mk):
                    if sink is not None:
                        sink(_parse_print(line, marker))
                    else:
                        r.printed.append(_parse_print(line, marker))
                    continue
                if len(keep) < 20000:
                    keep.append(line)
                m = _RE_STATES.search(line)
                if m:
                    r.generated, r.distinct = int(m.group(1)), int(m.group(2))
                m = _RE_DEPTH.search(line)
                if m:
                    r.depth = int(m.group(1))
                m = _RE_INV.search(line)
                if m and r.violated is None:
                    r.violated = m.group(1)
                m = _RE_PROP.search(line)
                if m and r.violated is None:
                    r.violated = m.group(2) or m.group(3) or "temporal"
                m = _RE_COV.match(line)
                if m:
                    name = m.group(1)
                    d, t = int(m.group(7)), int(m.group(8))
                    od, ot = r.coverage.get(name, (0, 0))
                    r.coverage[name] = (od + d, ot + t)
        r.out = "".join(keep)
    finally:
        shutil.rmtree(meta, ignore_errors=True)
        try:
            os.unlink(outf.name)
        except OSError:
            pass

    class _P:
        pass
    pp = _P()
    pp.stdout = r.out
    pp.returncode = r.rc
    p = pp
    if r.violated is None and r.error is None:
        if "Error:" in p.stdout and "Model checking completed. No error has been found" not in p.stdout \
                and simulate is None:
            # deadlock, assertion, parse or evaluation errors
            m = re.search(r"Error: (.*)", p.stdout)
            r.error = m.group(1) if m else "unknown TLC error"
        elif p.returncode not in (0,) and simulate is None:
            r.error = "tlc exit code %d" % p.returncode
        elif simulate is not None and p.returncode not in (0,):
            if "Error:" in p.stdout:
                m = re.search(r"Error: (.*)", p.stdout)
                r.error = m.group(1) if m else "unknown TLC error"
    return r


def _parse_print(line, marker):
    # <<"REPLAY", "....json with \" escapes....">>
    s = line.strip()
    i = s.index(",") + 1
    body = s[i:].strip()
    assert body.endswith(">>"), line[:200]
    body = body[:-2].strip()
    # body is a TLA+ string literal: "...." with \" and \\ escapes
    assert body[0] == '"' and body[-1] == '"', line[:200]
    inner = body[1:-1]
    inner = inner.replace('\\"', '"').replace("\\\\", "\\")
    return json.loads(inner)


def sany(module, cwd=None):
    p = subprocess.run(["java", "-cp", _classpath(), "tla2sany.SANY", module + ".tla"], cwd=cwd or SPEC,
                       stdout=subprocess.PIPE, stderr=subprocess.STDOUT, text=True)
    if p.returncode != 0 or "Semantic errors" in p.stdout or "***Parse Error***" in p.stdout:
        raise ToolError("SANY failed on %s:\n%s" % (module, p.stdout[-3000:]))


def require_model_ok(r, what, *, need_actions=None):
    """A model-level failure on our own spec is a tool error (exit 2), unless the
    caller handles `violated` itself (expected counterexamples for findings)."""
    if r.error:
        raise ToolError("%s: TLC error: %s\n%s" % (what, r.error, r.out[-3000:]))
    if r.violated:
        raise ToolError("%s: model violates %s (spec and property disagree)\n%s" % (what, r.violated, r.out[-4000:]))
    if need_actions:
        zero = [a for a in need_actions if r.coverage.get(a, (0, 0))[1] == 0]
        if zero:
            raise ToolError("%s: vacuous, actions never taken: %s" % (what, zero))


def zero_actions(r, ignore=()):
    return sorted(a for a, (d, t) in r.coverage.items() if t == 0 and a not in ignore)


def validate_trace(trace_module, cfg, trace_path, *, timeout=600, extra_env=None, xmx="4g"):
    """Validate an ndjson trace with a Trace_* spec. Returns (accepted, TlcResult)."""
    env = {"TRACE": os.path.abspath(trace_path),
           "JAVA_TOOL_OPTIONS": "-Xss1g -Dtlc2.tool.queue.IStateQueue=StateDeque"}
    if extra_env:
        env.update(extra_env)
    r = tlc(trace_module, cfg, workers=1, timeout=timeout, coverage=False, env=env,
            jvm=["-Xmx" + xmx], marker="TRACE")
    accepted = ("TRACE_ACCEPTED" in r.out) and r.violated is None and r.error is None
    return accepted, r


# --------------------------------------------------------------------------
# harness
# --------------------------------------------------------------------------

def cargo_build(pkg, bins=None, timeout=3600, features=None):
    """Build harness package (against /repo working tree, hooks on)."""
    lock = os.path.join(HARNESS, "Cargo.lock")
    if not os.path.exists(lock):
        shutil.copy("/repo/Cargo.lock", lock)
    cmd = ["cargo", "build", "--offline", "-q", "-p", pkg]
    for b in (bins or []):
        cmd += ["--bin", b]
    if features:
        cmd += ["--features", ",".join(features)]
    e = dict(os.environ)
    e["CARGO_NET_OFFLINE"] = "true"
    e.setdefault("CARGO_BUILD_JOBS", "12")
    t0 = time.time()
    for attempt in range(4):
        p = subprocess.run(cmd, cwd=HARNESS, env=e, stdout=subprocess.PIPE, stderr=subprocess.STDOUT, text=True,
                           timeout=timeout)
        if p.returncode == 0:
            return time.time() - t0
        # while several builders share /repo one of them may have a mutation applied for a few seconds:
        # retry when the working tree changed under us (VERIF_BUILD_RETRY=1 is set by the builders only)
        if os.environ.get("VERIF_BUILD_RETRY") != "1":
            break
        time.sleep(25)
    raise ToolError("harness build failed (%s):\n%s" % (" ".join(cmd), p.stdout[-6000:]))


def bin_path(name):
    return os.path.join(HARNESS, "target", "debug", name)


def run_bin(name, args=None, *, stdin_path=None, stdin_data=None, timeout=1800, env=None, check=True):
    """Run a harness binary; returns (rc, stdout, stderr)."""
    cmd = [bin_path(name)] + [str(a) for a in (args or [])]
    e = dict(os.environ)
    e.setdefault("RUST_BACKTRACE", "0")
    if env:
        e.update(env)
    fin = open(stdin_path) if stdin_path else None
    try:
        p = subprocess.run(cmd, stdin=fin, input=stdin_data if fin is None else None, stdout=subprocess.PIPE,
                           stderr=subprocess.PIPE, text=True, timeout=timeout, env=e, errors="replace")
    except subprocess.TimeoutExpired:
        raise ToolError("harness binary %s timed out after %ss" % (name, timeout))
    finally:
        if fin:
            fin.close()
    if check and p.returncode != 0:
        raise ToolError("harness binary %s failed rc=%s\nstdout tail:\n%s\nstderr tail:\n%s" %
                        (name, p.returncode, p.stdout[-2000:], p.stderr[-4000:]))
    return p.returncode, p.stdout, p.stderr


def jsonl(text):
    out = []
    for line in text.splitlines():
        line = line.strip()
        if line.startswith("{") or line.startswith("["):
            out.append(json.loads(line))
    return out


def scratch(prefix="verif_"):
    return tempfile.mkdtemp(prefix=prefix)


# --------------------------------------------------------------------------
# findings / violations / evidence
# --------------------------------------------------------------------------

def load_findings():
    p = os.path.join(VERIF, "known_findings.json")
    if not os.path.exists(p):
        return []
    with open(p) as f:
        return json.load(f)["findings"]


class Run:
    """One run of one check: collects coverage, violations, writes evidence, exits."""

    def __init__(self, pid, tier, level="model_checking"):
        self.pid = pid
        self.tier = tier
        self.level = level
        self.t0 = time.time()
        self.cov = {"states": 0, "transitions": 0, "traces_validated_against_impl": 0, "samples": []}
        self.assumptions = []
        self.violations = []       # (signature, description, replay_obj)
        self.known_hit = {}        # finding id -> count
        self.findings = [f for f in load_findings() if f.get("property") == pid]
        self.notes = {}

    # -- model statistics --------------------------------------------------
    def add_model(self, name, r):
        self.cov["states"] += r.distinct
        self.cov["transitions"] += r.generated
        self.cov.setdefault("models", []).append(
            {"name": name, "distinct_states": r.distinct, "states_generated": r.generated, "depth": r.depth,
             "wall_s": round(r.wall, 1),
             "actions": {a: t for a, (d, t) in sorted(r.coverage.items())} if len(r.coverage) <= 80 else len(r.coverage)})

    def add_traces(self, n):
        self.cov["traces_validated_against_impl"] += n

    def sample(self, obj, limit=4):
        if len(self.cov["samples"]) < limit:
            self.cov["samples"].append(obj)

    # keys whose type the evidence schema fixes
    _TYPED = {"exhaustive": bool, "rule": str, "checker_cmd": str, "evaluations": int, "distinct_nontrivial": int,
              "states": int, "transitions": int, "traces_validated_against_impl": int, "obligations": int,
              "discharged": int, "samples": list}

    def note(self, k, v):
        t = self._TYPED.get(k)
        if t is not None and not (isinstance(v, t) and not (t is int and isinstance(v, bool))):
            # keep the information, never write a value the schema rejects
            self.cov[k + "_note"] = v
            if t is bool:
                self.cov[k] = False
            return
        self.cov[k] = v

    # -- violations -----------------------------------------------------------
    def report(self, signature, description, replay_obj):
        """signature: dict identifying the failing input/site; matched against known findings."""
        for f in self.findings:
            if f.get("status") == "known" and _match(f["match"], signature):
                self.known_hit[f["id"]] = self.known_hit.get(f["id"], 0) + 1
                return "known"
        self.violations.append((signature, description, replay_obj))
        return "violation"

    def finish(self):
        wall = time.time() - self.t0
        os.makedirs(EVIDENCE, exist_ok=True)
        rc = 0
        for f in self.findings:
            if f.get("status") == "known" and self.known_hit.get(f["id"]):
                log("KNOWN-FINDING: property=%s %s (%d cases this run)" % (self.pid, f["what"], self.known_hit[f["id"]]))
        if self.violations:
            os.makedirs(REPLAYS, exist_ok=True)
            seen = set()
            for sig, desc, obj in self.violations[:20]:
                h = hashlib.sha1(json.dumps(sig, sort_keys=True).encode()).hexdigest()[:10]
                if h in seen:
                    continue
                seen.add(h)
                path = os.path.join(REPLAYS, "%s-%s.json" % (self.pid, h))
                with open(path, "w") as fh:
                    json.dump({"property": self.pid, "signature": sig, "description": desc, "replay": obj}, fh, indent=1)
                log("VIOLATION property=%s replay=%s" % (self.pid, path))
                log("  " + desc[:600])
            rc = 1
        self.cov["known_findings_hit"] = self.known_hit
        if not self.cov.get("samples"):
            # the schema wants at least one concrete case; the check module recorded none on this path
            self.cov["samples"] = [{"note": "the check module recorded no case sample on this path",
                                    "models": [m.get("name") for m in self.cov.get("models", [])][:8]}]
        ev = {"property_id": self.pid, "tier": self.tier, "seed": seed(), "level": self.level,
              "coverage": self.cov, "assumptions": self.assumptions, "wall_s": round(wall, 2),
              "violations": len(self.violations)}
        evdir = EVIDENCE
        if self.pid.startswith("X"):
            # extension checks (beyond the twenty listed properties) keep their evidence apart:
            # /verif/evidence holds exactly one file per claimed property of MANIFEST.json
            evdir = os.path.join(VERIF, "extra", "evidence")
            os.makedirs(evdir, exist_ok=True)
        with open(os.path.join(evdir, self.pid + ".json"), "w") as fh:
            json.dump(ev, fh, indent=1, default=str)
        log("%s %s: states=%d transitions=%d impl_traces=%d violations=%d known=%s wall=%.1fs" %
            (self.pid, self.tier, self.cov["states"], self.cov["transitions"],
             self.cov["traces_validated_against_impl"], len(self.violations), dict(self.known_hit), wall))
        if rc == 0 and self.cov["traces_validated_against_impl"] == 0:
            raise ToolError("no behaviour was bound to the implementation; refusing to pass")
        return rc


def _match(pattern, sig):
    """A finding matches when every key of its pattern equals (or, for lists, contains) the signature's value."""
    for k, v in pattern.items():
        if k not in sig:
            return False
        s = sig[k]
        if isinstance(v, list):
            if s not in v:
                return False
        elif s != v:
            return False
    return True


def main_wrapper(fn):
    try:
        rc = fn()
    except ToolError as e:
        log("TOOL-ERROR: %s" % e)
        sys.exit(2)
    except subprocess.TimeoutExpired as e:
        log("TOOL-ERROR: timeout %s" % e)
        sys.exit(2)
    sys.exit(rc)
