#!/bin/bash
# usage: seedround.sh <round-dir> <Cxx> [extra checks,comma separated]
# <round-dir>/<Cxx>/wt = the agent's scratch worktree, <round-dir>/<Cxx>/out/<n>/ = its deliveries.
# Confirms every delivery (lib/confirmseed.sh), then runs the property's committed quick check against a private
# copy of /repo with each confirmed patch applied (lib/seedtest_many.sh). Log: <round-dir>/<Cxx>/round.log
set -u
RD=$(readlink -f $1); P=$2; EXTRA=${3:-}
LOG=$RD/$P/round.log; : > $LOG
ITEMS=""
for d in $RD/$P/out/*/; do
  n=$(basename $d)
  [ -f $d/patch.diff ] || { echo "SEEDROUND $P-$n no patch.diff" | tee -a $LOG; continue; }
  /verif/lib/confirmseed.sh $RD/$P/wt $d > /dev/null 2>&1
  echo "SEEDROUND $P-$n $(tail -1 $d/confirm.log)" | tee -a $LOG
  if [ "$(tail -1 $d/confirm.log)" = CONFIRMED ]; then ITEMS="$ITEMS $d/patch.diff:$P${EXTRA:+,$EXTRA}"; fi
done
( cd $RD/$P/wt && git checkout -q -- . && git clean -fdq -e target )
[ -n "$ITEMS" ] && /verif/lib/seedtest_many.sh r3_$P $ITEMS 2>&1 | tee -a $LOG
echo "SEEDROUND-DONE $P" | tee -a $LOG
