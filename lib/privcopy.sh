#!/bin/bash
# usage: privcopy.sh on <repo-copy> | off <repo-copy>     (run from the root of a COPY / worktree of /verif)
# Points the harness workspaces of this copy of /verif at a private copy / worktree of /repo ("on") and back ("off").
# Used by builders and seed runs that must not touch /repo. Run "off" before committing anything in the copy.
set -eu
MODE=$1; R=$(readlink -f "$2")
[ "$(readlink -f .)" = /verif ] && { echo "refusing to rewrite /verif itself"; exit 2; }
FILES=$(find harness extra/harness -name Cargo.toml -not -path '*/target/*'; echo lib/vlib.py lib/xlib.py)
if [ $MODE = on ]; then
  sed -i "s|\"/repo/|\"$R/|g; s|/repo/Cargo.lock|$R/Cargo.lock|g" $FILES
else
  sed -i "s|\"$R/|\"/repo/|g; s|$R/Cargo.lock|/repo/Cargo.lock|g" $FILES
fi
echo "privcopy $MODE $R"
