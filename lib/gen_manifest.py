#!/usr/bin/env python3
"""Regenerate /verif/MANIFEST.json from the metadata constants of lib/checks/cXX.py."""
import importlib
import json
import os
import subprocess
import sys

HERE = os.path.dirname(os.path.abspath(__file__))
VERIF = os.path.dirname(HERE)
sys.path.insert(0, HERE)

props = [json.loads(l) for l in open(os.path.join(VERIF, "properties.jsonl"))]
checks, na = [], []
NOT_BUILT = {}
nb_path = os.path.join(HERE, "not_claimed.json")
if os.path.exists(nb_path):
    NOT_BUILT = json.load(open(nb_path))
CLAIMED = set(open(os.path.join(HERE, "claimed.txt")).read().split())
for p in props:
    pid = p["id"]
    path = os.path.join(HERE, "checks", pid.lower() + ".py")
    if not os.path.exists(path) or pid in NOT_BUILT or pid not in CLAIMED:
        na.append({"property_id": pid, "reason": NOT_BUILT.get(pid, "check not built yet; see DESIGN.md section 3/%s for the planned model and binding" % pid)})
        continue
    m = importlib.import_module("checks." + pid.lower())
    checks.append({
        "property_id": pid,
        "quick_cmd": "./check %s --tier quick" % pid,
        "thorough_cmd": "./check %s --tier thorough" % pid,
        "evidence_file": "/verif/evidence/%s.json" % pid,
        "replay_cmd_template": "./check %s --replay {path}" % pid,
        "engine": "tla-conformance",
        "level_claimed": {"category": m.LEVEL, "text": m.TEXT, "design_ref": "DESIGN.md " + m.DESIGN_REF},
        "level_note": m.NOTE,
        "technique": m.TECHNIQUE,
    })

hooks_commits = []
hp = os.path.join(VERIF, "hooks_commits.txt")
if os.path.exists(hp):
    hooks_commits = [l.split()[0] for l in open(hp) if l.strip() and not l.startswith("#")]

manifest = {
    "version": 1,
    # one cargo invocation per package: a workspace-wide build would unify features (hfdsync enables compio-driver/sync,
    # which must stay off for hfd's compile-time proof that SharedFd is not Send), and it is what the checks do anyway
    "setup_cmd": "cd /verif/harness && ([ -f Cargo.lock ] || cp /repo/Cargo.lock .) && for p in hcore hio hcompat htime hexec hdisp hactor hproc hfs hnet hsec hquic hdrv hpool hfd hfdsync hbp; do CARGO_NET_OFFLINE=true cargo build --offline -q -p $p --bins || exit 1; done"
                 # the compio-compat leg of C03 / C02 (lib/checks/x03.py) lives in the extension workspace
                 " && cd /verif/extra/harness && ([ -f Cargo.lock ] || cp /repo/Cargo.lock .) && CARGO_NET_OFFLINE=true cargo build --offline -q -p hx03 --bins",
    "hooks": {
        "guard": "cfg(compio_verif)",
        "enable": "RUSTFLAGS --cfg compio_verif via /verif/harness/.cargo/config.toml (the harness workspace has path dependencies on /repo and rebuilds from its working tree)",
        "baseline_off_cmd": "cd /repo && cargo nextest run --workspace --no-fail-fast --tool-config-file pb:/w/lib/nextest.toml --profile pb --test-threads 8 --offline",
        "source_commits": hooks_commits,
        "add_only": True,
    },
    "engines": [{
        "name": "tla-conformance",
        "path": "/verif/check",
        "serves_properties": [c["property_id"] for c in checks],
        "kind_free_text": "explicit TLA+ specifications (spec/*.tla) checked with TLC, bound to the Rust code by replaying TLC-generated behaviours into the real crates and by validating traces recorded from the real crates against Trace_* specifications",
    }],
    "checks": checks,
    "not_applicable": na,
    "notes": "See DESIGN.md. Exit codes: 0 held, 1 only with a VIOLATION line, 2 tool error. known_findings.json lists genuine defects of the pinned tree.",
}
json.dump(manifest, open(os.path.join(VERIF, "MANIFEST.json"), "w"), indent=1)
print("checks:", [c["property_id"] for c in checks], "not claimed:", [n["property_id"] for n in na])
