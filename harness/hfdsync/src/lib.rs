//! harness package hfdsync: C06 on compio-driver WITH feature `sync` (SharedFd = Arc based).
//! The sources are shared with package hfd.
#[path = "../../hfd/src/rec.rs"]
pub mod rec;
#[path = "../../hfd/src/replay.rs"]
pub mod replay;
#[path = "../../hfd/src/sched.rs"]
pub mod sched;
#[path = "../../hfd/src/util.rs"]
pub mod util;

#[allow(dead_code)]
fn assert_send<T: Send + Sync>() {}
#[allow(dead_code)]
fn sync_build_proof() {
    assert_send::<compio_driver::SharedFd<std::os::fd::OwnedFd>>();
}
