//! harness package hfdsync
