fn main() {
    hfdsync::replay::main()
}
