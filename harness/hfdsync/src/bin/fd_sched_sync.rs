fn main() {
    hfdsync::sched::main()
}
