//! C08: shared pieces of the FileModel replay (operation decoding, buffer shapes, observations).
use std::{
    io,
    os::unix::fs::MetadataExt,
    path::{Path, PathBuf},
};

use serde_json::{Value, json};

pub const PATHS: [&str; 6] = ["f", "g", "d", "d/f", "d/e", "l"];
/// Every byte of a buffer's capacity is pre-filled with this pattern (never a data byte).
pub fn prefill(i: usize) -> u8 {
    0xE0u8.wrapping_add((i % 16) as u8)
}

#[derive(Clone, Debug)]
pub struct BufShape {
    /// initialized length (`len` of destination buffers, `n` of source buffers)
    pub len: usize,
    pub cap: usize,
}

#[derive(Clone, Debug)]
pub struct Op {
    pub o: String,
    pub off: i64,
    pub bufs: Vec<BufShape>,
    pub n: i64,
    pub p: String,
    pub q: String,
    pub opt: Opt,
}

#[derive(Clone, Debug, Default)]
pub struct Opt {
    pub r: bool,
    pub w: bool,
    pub t: bool,
    pub c: bool,
    pub cn: bool,
    pub app: bool,
    /// custom flag O_TMPFILE (creates an anonymous inode without O_CREAT)
    pub tmp: bool,
    /// mode argument of the open (OpenOptions::mode), 0o666 by default
    pub mode: u32,
}

impl Opt {
    /// the custom flags of this open (what is handed to OpenOptions::custom_flags)
    pub fn custom_flags(&self) -> i32 {
        (if self.app { libc::O_APPEND } else { 0 }) | (if self.tmp { libc::O_TMPFILE } else { 0 })
    }
}

/// Permission bits (st_mode & 0o7777) of the inode behind a descriptor.
pub fn fd_perm(fd: i32) -> i64 {
    let mut st: libc::stat = unsafe { std::mem::zeroed() };
    if unsafe { libc::fstat(fd, &mut st) } != 0 {
        return -1;
    }
    (st.st_mode & 0o7777) as i64
}

/// The umask every run fixes at start (the model's Masked() is `mode & !UMASK`).
pub const UMASK: libc::mode_t = 0o022;

impl Op {
    pub fn parse(v: &Value) -> Op {
        let bufs = v["bufs"]
            .as_array()
            .map(|a| {
                a.iter()
                    .map(|b| BufShape {
                        len: b.get("len").or_else(|| b.get("n")).and_then(|x| x.as_u64()).unwrap() as usize,
                        cap: b["cap"].as_u64().unwrap() as usize,
                    })
                    .collect()
            })
            .unwrap_or_default();
        let o = &v["opt"];
        let b = |k: &str| o.get(k).and_then(|x| x.as_bool()).unwrap_or(false);
        Op {
            o: v["o"].as_str().unwrap().to_string(),
            off: v["off"].as_i64().unwrap_or(0),
            bufs,
            n: v["n"].as_i64().unwrap_or(0),
            p: v["p"].as_str().unwrap_or("").to_string(),
            q: v["q"].as_str().unwrap_or("").to_string(),
            opt: Opt {
                r: b("r"),
                w: b("w"),
                t: b("t"),
                c: b("c"),
                cn: b("cn"),
                app: b("app"),
                tmp: b("tmp"),
                mode: o.get("mode").and_then(|x| x.as_u64()).unwrap_or(0o666) as u32,
            },
        }
    }

    /// u64 offset handed to the API (-1 stands for u64::MAX)
    pub fn offset(&self) -> u64 {
        if self.off < 0 { u64::MAX } else { self.off as u64 }
    }

    pub fn is_read(&self) -> bool {
        matches!(self.o.as_str(), "read_at" | "readv_at" | "cread" | "pread" | "preadv")
    }

    pub fn is_write(&self) -> bool {
        matches!(self.o.as_str(), "write_at" | "writev_at" | "cwrite" | "pwrite" | "pwritev")
    }
}

/// Destination buffer: capacity exactly `cap`, all of it pre-filled, `len` bytes counted as initialized.
pub fn dest_buf(s: &BufShape) -> Vec<u8> {
    let mut v: Vec<u8> = Vec::with_capacity(s.cap);
    assert_eq!(v.capacity(), s.cap, "Vec capacity not exact");
    for i in 0..s.cap {
        v.push(prefill(i));
    }
    unsafe { v.set_len(s.len) };
    v
}

/// Source buffers of write step `step` (1-based): the initialized bytes carry the running tag
/// 10*step + k over all members, the spare capacity is pre-filled.
pub fn src_bufs(shapes: &[BufShape], step: usize) -> Vec<Vec<u8>> {
    let mut k = 0usize;
    shapes
        .iter()
        .map(|s| {
            let mut v: Vec<u8> = Vec::with_capacity(s.cap);
            assert_eq!(v.capacity(), s.cap, "Vec capacity not exact");
            for i in 0..s.cap {
                if i < s.len {
                    v.push((10 * step + k) as u8);
                    k += 1;
                } else {
                    v.push(prefill(i));
                }
            }
            unsafe { v.set_len(s.len) };
            v
        })
        .collect()
}

/// The whole capacity of a buffer (all of it was initialized by the harness) and its length.
pub fn raw_of(v: &Vec<u8>) -> (Vec<u8>, usize) {
    let raw = unsafe { std::slice::from_raw_parts(v.as_ptr(), v.capacity()) }.to_vec();
    (raw, v.len())
}

/// What one step shows: result, every buffer member (whole capacity + length), file behind the handle.
#[derive(Clone, Debug, PartialEq, Default)]
pub struct Obs {
    pub e: String,
    pub n: i64,
    pub mem: Vec<(Vec<u8>, usize)>,
    /// content of the file the handle refers to, read back through std::fs (None: no open handle)
    pub fc: Option<Vec<u8>>,
    /// payload of fs::read
    pub data: Option<Vec<u8>>,
}

impl Obs {
    pub fn err(e: &io::Error) -> Obs {
        Obs {
            e: err_name(e),
            ..Default::default()
        }
    }

    pub fn ok(n: i64) -> Obs {
        Obs {
            n,
            ..Default::default()
        }
    }

    pub fn to_json(&self) -> Value {
        json!({"e": self.e, "n": self.n, "mem": self.mem.iter().map(|(r, l)| json!({"raw": r, "len": l})).collect::<Vec<_>>(),
               "fc": self.fc, "data": self.data})
    }

    /// first aspect in which two observations differ
    pub fn diff(&self, other: &Obs) -> Option<&'static str> {
        if self.e != other.e {
            Some("error")
        } else if self.n != other.n {
            Some("count")
        } else if self.mem.iter().map(|m| m.1).ne(other.mem.iter().map(|m| m.1)) {
            Some("buffer_len")
        } else if self.mem != other.mem {
            Some("buffer_content")
        } else if self.data != other.data {
            Some("data")
        } else if self.fc != other.fc {
            Some("file_content")
        } else {
            None
        }
    }
}

pub fn err_name(e: &io::Error) -> String {
    if let Some(c) = e.raw_os_error() {
        return match c {
            libc::ENOENT => "NotFound".into(),
            libc::EEXIST => "AlreadyExists".into(),
            libc::EINVAL => "InvalidInput".into(),
            libc::EBADF => "BadFd".into(),
            libc::EISDIR => "IsADirectory".into(),
            libc::ENOTDIR => "NotADirectory".into(),
            libc::ENOTEMPTY => "DirectoryNotEmpty".into(),
            libc::EPERM | libc::EACCES => "PermissionDenied".into(),
            libc::EPIPE => "BrokenPipe".into(),
            c => format!("errno:{c}"),
        };
    }
    format!("{:?}", e.kind())
}

/// Namespace snapshot of a case directory: per model path (kind, content / link target, inode).
#[derive(Clone, Debug, PartialEq)]
pub struct Node {
    pub k: String,
    pub c: Vec<u8>,
    pub to: String,
    pub ino: u64,
    /// permission bits of a file (0 otherwise)
    pub perm: u32,
}

pub fn snapshot(dir: &Path) -> Vec<Node> {
    PATHS
        .iter()
        .map(|p| {
            let path = dir.join(p);
            match std::fs::symlink_metadata(&path) {
                Err(_) => Node { k: "none".into(), c: vec![], to: String::new(), ino: 0, perm: 0 },
                Ok(m) if m.file_type().is_symlink() => Node {
                    k: "sym".into(),
                    c: vec![],
                    to: std::fs::read_link(&path).map(|t| t.to_string_lossy().into_owned()).unwrap_or_default(),
                    ino: 0,
                    perm: 0,
                },
                Ok(m) if m.is_dir() => Node { k: "dir".into(), c: vec![], to: String::new(), ino: 0, perm: 0 },
                Ok(m) => Node {
                    k: "file".into(),
                    c: std::fs::read(&path).unwrap_or_default(),
                    to: String::new(),
                    ino: m.ino(),
                    perm: m.mode() & 0o7777,
                },
            }
        })
        .collect()
}

/// Snapshot predicted by the model (`fin.ns` / `init.ns`).
pub fn model_snapshot(ns: &Value) -> Vec<Node> {
    PATHS
        .iter()
        .map(|p| {
            let n = &ns[*p];
            Node {
                k: n["k"].as_str().unwrap().to_string(),
                c: bytes_of(&n["c"]),
                to: n["to"].as_str().unwrap_or("").to_string(),
                ino: n["ino"].as_u64().unwrap_or(0),
                perm: n["perm"].as_u64().unwrap_or(0) as u32,
            }
        })
        .collect()
}

/// Equality of snapshots up to renaming of inode numbers (hard links must coincide).
pub fn snap_diff(a: &[Node], b: &[Node]) -> Option<String> {
    for (i, (x, y)) in a.iter().zip(b).enumerate() {
        if x.k != y.k || x.c != y.c || x.to != y.to || x.perm != y.perm {
            return Some(format!(
                "{}: {:?}/{:?}/{}/{:o} vs {:?}/{:?}/{}/{:o}",
                PATHS[i], x.k, x.c, x.to, x.perm, y.k, y.c, y.to, y.perm
            ));
        }
    }
    for i in 0..a.len() {
        for j in 0..i {
            if a[i].k == "file" && a[j].k == "file" && (a[i].ino == a[j].ino) != (b[i].ino == b[j].ino) {
                return Some(format!("{} and {}: hard-link identity differs", PATHS[j], PATHS[i]));
            }
        }
    }
    None
}

pub fn bytes_of(v: &Value) -> Vec<u8> {
    v.as_array().map(|a| a.iter().map(|x| x.as_u64().unwrap() as u8).collect()).unwrap_or_default()
}

/// Build the initial namespace of a case with std::fs.
pub fn setup(dir: &Path, init: &Value) {
    let _ = std::fs::remove_dir_all(dir); // leftovers of an interrupted run
    std::fs::create_dir_all(dir).unwrap();
    let ns = model_snapshot(&init["ns"]);
    for (p, n) in PATHS.iter().zip(&ns) {
        match n.k.as_str() {
            "dir" => std::fs::create_dir(dir.join(p)).unwrap(),
            "file" => std::fs::write(dir.join(p), &n.c).unwrap(),
            _ => {}
        }
    }
}

/// The observation the model predicts for a step (from `res` or `ref`), in harness terms.
pub fn model_obs(op: &Op, r: &Value, fc: Option<Vec<u8>>, step: usize) -> Obs {
    let e = r["e"].as_str().unwrap().to_string();
    let n = r["n"].as_i64().unwrap();
    let mut o = Obs { e: e.clone(), n, fc, ..Default::default() };
    if op.is_read() {
        let d = r["d"].as_array().cloned().unwrap_or_default();
        let bl = r["bl"].as_array().cloned().unwrap_or_default();
        for (i, s) in op.bufs.iter().enumerate() {
            let mut raw: Vec<u8> = (0..s.cap).map(prefill).collect();
            let mut len = s.len;
            if e.is_empty() {
                for (k, b) in bytes_of(&d[i]).into_iter().enumerate() {
                    raw[k] = b;
                }
                len = bl[i].as_u64().unwrap() as usize;
            }
            o.mem.push((raw, len));
        }
    } else if op.is_write() {
        o.mem = write_mem(&src_bufs(&op.bufs, step));
    } else if op.o == "fs_read" && e.is_empty() {
        o.data = Some(bytes_of(&r["d"][0]));
    }
    o
}

pub fn case_dir(scratch: &Path, idx: u64, leg: &str) -> PathBuf {
    scratch.join(format!("c{idx}_{leg}"))
}

/// Observation of a write-type step: buffers must come back unchanged.
pub fn write_mem(bufs: &[Vec<u8>]) -> Vec<(Vec<u8>, usize)> {
    bufs.iter().map(raw_of).collect()
}
