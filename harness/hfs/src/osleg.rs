//! C08: the OS's own synchronous calls (std::fs / libc) for the operations of FileModel.
//! This leg checks the model itself: a disagreement between it and the model is a tool error.
use std::{
    fs,
    io,
    os::{
        fd::{AsRawFd, FromRawFd, OwnedFd},
        unix::fs::OpenOptionsExt,
    },
    path::PathBuf,
};

use crate::common::*;

pub struct OsLeg {
    pub dir: PathBuf,
    file: Option<fs::File>,
    fpath: Option<PathBuf>,
    cur: u64,
    rx: Option<OwnedFd>,
    tx: Option<OwnedFd>,
}

fn cvt(r: isize) -> io::Result<usize> {
    if r < 0 { Err(io::Error::last_os_error()) } else { Ok(r as usize) }
}

impl OsLeg {
    pub fn new(dir: PathBuf, init: &serde_json::Value) -> OsLeg {
        setup(&dir, init);
        let mut l = OsLeg { dir, file: None, fpath: None, cur: 0, rx: None, tx: None };
        if init["fd"]["open"].as_bool().unwrap() {
            let p = l.dir.join("f");
            let mut o = fs::OpenOptions::new();
            o.read(true).write(true);
            if init["fd"]["app"].as_bool().unwrap() {
                o.custom_flags(libc::O_APPEND);
            }
            l.file = Some(o.open(&p).unwrap());
            l.fpath = Some(p);
        }
        l
    }

    fn fc(&self) -> Option<Vec<u8>> {
        if self.file.is_some() { self.fpath.as_ref().map(|p| fs::read(p).unwrap_or_default()) } else { None }
    }

    fn fd(&self) -> i32 {
        self.file.as_ref().map(|f| f.as_raw_fd()).unwrap_or(-1)
    }

    /// scatter read into `bufs` through `f(iovecs)`; reference length rule: len = max(len, delivered)
    fn read_into(&self, op: &Op, f: impl FnOnce(&[libc::iovec]) -> io::Result<usize>) -> Obs {
        let mut bufs: Vec<Vec<u8>> = op.bufs.iter().map(dest_buf).collect();
        let iov: Vec<libc::iovec> = bufs
            .iter_mut()
            .map(|b| libc::iovec { iov_base: b.as_mut_ptr().cast(), iov_len: b.capacity() })
            .collect();
        match f(&iov) {
            Err(e) => Obs { mem: bufs.iter().map(raw_of).collect(), ..Obs::err(&e) },
            Ok(n) => {
                let mut rem = n;
                for b in bufs.iter_mut() {
                    let g = rem.min(b.capacity());
                    rem -= g;
                    if g > b.len() {
                        unsafe { b.set_len(g) };
                    }
                }
                Obs { n: n as i64, mem: bufs.iter().map(raw_of).collect(), ..Default::default() }
            }
        }
    }

    fn write_from(&self, op: &Op, step: usize, f: impl FnOnce(&[libc::iovec]) -> io::Result<usize>) -> Obs {
        let bufs = src_bufs(&op.bufs, step);
        let iov: Vec<libc::iovec> =
            bufs.iter().map(|b| libc::iovec { iov_base: b.as_ptr() as *mut _, iov_len: b.len() }).collect();
        let r = f(&iov);
        let mem = write_mem(&bufs);
        match r {
            Err(e) => Obs { mem, ..Obs::err(&e) },
            Ok(n) => Obs { n: n as i64, mem, ..Default::default() },
        }
    }

    fn unit(r: io::Result<()>) -> Obs {
        match r {
            Ok(()) => Obs::ok(0),
            Err(e) => Obs::err(&e),
        }
    }

    pub fn step(&mut self, op: &Op, step: usize) -> Obs {
        let fd = self.fd();
        let off = op.offset() as i64; // u64::MAX -> -1, as the kernel sees it
        let p = self.dir.join(&op.p);
        let q = self.dir.join(&op.q);
        let mut obs = match op.o.as_str() {
            "read_at" => self.read_into(op, |iov| cvt(unsafe { libc::pread(fd, iov[0].iov_base, iov[0].iov_len, off) })),
            "readv_at" => self.read_into(op, |iov| cvt(unsafe { libc::preadv(fd, iov.as_ptr(), iov.len() as i32, off) })),
            "write_at" => self.write_from(op, step, |iov| cvt(unsafe { libc::pwrite(fd, iov[0].iov_base, iov[0].iov_len, off) })),
            "writev_at" => self.write_from(op, step, |iov| cvt(unsafe { libc::pwritev(fd, iov.as_ptr(), iov.len() as i32, off) })),
            "cread" => {
                let cur = self.cur as i64;
                let o = self.read_into(op, |iov| cvt(unsafe { libc::pread(fd, iov[0].iov_base, iov[0].iov_len, cur) }));
                if o.e.is_empty() {
                    self.cur += o.n as u64;
                }
                o
            }
            "cwrite" => {
                let cur = self.cur as i64;
                let o = self.write_from(op, step, |iov| cvt(unsafe { libc::pwrite(fd, iov[0].iov_base, iov[0].iov_len, cur) }));
                if o.e.is_empty() {
                    self.cur += o.n as u64;
                }
                o
            }
            "set_len" => Self::unit(self.file.as_ref().unwrap().set_len(op.n as u64)),
            "sync_all" => Self::unit(self.file.as_ref().unwrap().sync_all()),
            "sync_data" => Self::unit(self.file.as_ref().unwrap().sync_data()),
            "metadata" => match self.file.as_ref().unwrap().metadata() {
                Ok(m) => Obs::ok(m.len() as i64),
                Err(e) => Obs::err(&e),
            },
            "close" => {
                self.file = None;
                self.cur = 0;
                Obs::ok(0)
            }
            "open" => {
                let mut o = fs::OpenOptions::new();
                o.read(op.opt.r).write(op.opt.w).truncate(op.opt.t).create(op.opt.c).create_new(op.opt.cn);
                o.mode(op.opt.mode).custom_flags(op.opt.custom_flags());
                match o.open(&p) {
                    Ok(f) => {
                        let perm = fd_perm(f.as_raw_fd());
                        // an O_TMPFILE inode has no name: read it back through the descriptor's magic link
                        self.fpath = Some(if op.opt.tmp { format!("/proc/self/fd/{}", f.as_raw_fd()).into() } else { p.clone() });
                        self.file = Some(f);
                        self.cur = 0;
                        Obs::ok(perm)
                    }
                    Err(e) => Obs::err(&e),
                }
            }
            "create_dir" => Self::unit(fs::create_dir(&p)),
            "create_dir_all" => Self::unit(fs::create_dir_all(&p)),
            "remove_file" => Self::unit(fs::remove_file(&p)),
            "remove_dir" => Self::unit(fs::remove_dir(&p)),
            "rename" => Self::unit(fs::rename(&p, &q)),
            "hard_link" => Self::unit(fs::hard_link(&p, &q)),
            // the link q points to the relative name p
            "symlink" => Self::unit(std::os::unix::fs::symlink(&op.p, &q)),
            "fs_read" => match fs::read(&p) {
                Ok(d) => Obs { n: d.len() as i64, data: Some(d), ..Default::default() },
                Err(e) => Obs::err(&e),
            },
            "fs_write" => {
                let b = src_bufs(&[BufShape { len: op.n as usize, cap: op.n as usize }], step).remove(0);
                Self::unit(fs::write(&p, &b))
            }
            "path_meta" | "path_lmeta" => {
                let m = if op.o == "path_meta" { fs::metadata(&p) } else { fs::symlink_metadata(&p) };
                match m {
                    Ok(m) if m.file_type().is_symlink() => Obs::ok(-2),
                    Ok(m) if m.is_dir() => Obs::ok(-1),
                    Ok(m) => Obs::ok(m.len() as i64),
                    Err(e) => Obs::err(&e),
                }
            }
            "pipe_create" => {
                let mut fds = [0i32; 2];
                let r = unsafe { libc::pipe2(fds.as_mut_ptr(), libc::O_CLOEXEC | libc::O_NONBLOCK) };
                if r < 0 {
                    Obs::err(&io::Error::last_os_error())
                } else {
                    self.rx = Some(unsafe { OwnedFd::from_raw_fd(fds[0]) });
                    self.tx = Some(unsafe { OwnedFd::from_raw_fd(fds[1]) });
                    Obs::ok(0)
                }
            }
            "pread" | "preadv" => {
                let r = self.rx.as_ref().unwrap().as_raw_fd();
                self.read_into(op, |iov| cvt(unsafe { libc::readv(r, iov.as_ptr(), iov.len() as i32) }))
            }
            "pwrite" | "pwritev" => {
                let w = self.tx.as_ref().unwrap().as_raw_fd();
                self.write_from(op, step, |iov| cvt(unsafe { libc::writev(w, iov.as_ptr(), iov.len() as i32) }))
            }
            "close_tx" => {
                self.tx = None;
                Obs::ok(0)
            }
            "close_rx" => {
                self.rx = None;
                Obs::ok(0)
            }
            other => panic!("osleg: unknown op {other}"),
        };
        obs.fc = self.fc();
        obs
    }

    /// bytes still queued in the pipe (drained non-blockingly at the end of a case)
    pub fn drain_pipe(&mut self) -> Vec<u8> {
        let mut out = vec![];
        if let Some(r) = &self.rx {
            let mut b = [0u8; 64];
            loop {
                let n = unsafe { libc::read(r.as_raw_fd(), b.as_mut_ptr().cast(), b.len()) };
                if n <= 0 {
                    break;
                }
                out.extend_from_slice(&b[..n as usize]);
            }
        }
        out
    }
}
