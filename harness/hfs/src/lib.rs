//! harness package hfs (C08: file and pipe I/O)
pub mod common;
pub mod force;
pub mod osleg;
