//! harness package hfs
