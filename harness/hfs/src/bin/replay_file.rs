//! C08: replay FileModel behaviours (spec/Gen_FileModel.tla) on the real compio-fs.
//!
//! usage: replay_file <cases.jsonl> <scratch dir>
//!
//! Every behaviour names a driver configuration (`drv`):
//!   iour      Runtime on the io_uring driver
//!   poll      Runtime on the polling driver (files go to the thread pool there)
//!   iour_blk  io_uring driver, and every operation whose OpCode has a blocking fallback is pushed
//!             through `call_blocking` (hfs::force::ForceBlocking)
//! and is executed step by step on compio-fs and, in a second fresh directory, with the OS's own
//! synchronous calls (hfs::osleg).  Per step:
//!   contract   compio observation (result, error kind, every buffer member's bytes and length,
//!              file content read back through std::fs) == OS observation          -> "contract"
//!   model      compio observation == model `res`, contract holds                   -> "mismatch" (drift)
//!   sanity     OS observation == model `ref`                                       -> "modelerr" (tool error)
use std::{
    io,
    io::Cursor,
    os::fd::{FromRawFd, IntoRawFd},
    path::PathBuf,
    sync::{Arc, Mutex},
    time::{Duration, Instant},
};

use compio_buf::{BufResult, IntoInner};
use compio_driver::{
    DriverType, ProactorBuilder, ToSharedFd,
    op::{CreateDir, CurrentDir, FileStat, HardLink, Mode, OFlags, OpenFile, PathStat, Pipe, Rename, Symlink, TruncateFile, Unlink},
};
use compio_fs::{
    File, OpenOptions,
    pipe::{Receiver, Sender},
};
use compio_io::{AsyncRead, AsyncReadAt, AsyncWrite, AsyncWriteAt};
use compio_runtime::Runtime;
use hcore::out::{Report, cases_from_arg, panic_msg, silence_panics};
use hfs::{common::*, force::ForceBlocking, osleg::OsLeg};
use serde_json::{Value, json};

struct CompioLeg {
    dir: PathBuf,
    forced: bool,
    file: Option<File>,
    cursor: Option<Cursor<File>>,
    fpath: Option<PathBuf>,
    rx: Option<Receiver>,
    tx: Option<Sender>,
}

fn cstr(p: &std::path::Path) -> std::ffi::CString {
    use std::os::unix::ffi::OsStrExt;
    std::ffi::CString::new(p.as_os_str().as_bytes()).unwrap()
}

fn unit(r: io::Result<()>) -> Obs {
    match r {
        Ok(()) => Obs::ok(0),
        Err(e) => Obs::err(&e),
    }
}

fn read_obs(r: BufResult<usize, Vec<Vec<u8>>>) -> Obs {
    let BufResult(res, bufs) = r;
    let mem = bufs.iter().map(raw_of).collect();
    match res {
        Ok(n) => Obs { n: n as i64, mem, ..Default::default() },
        Err(e) => Obs { mem, ..Obs::err(&e) },
    }
}

fn read_obs1(r: BufResult<usize, Vec<u8>>) -> Obs {
    read_obs(BufResult(r.0, vec![r.1]))
}

fn write_obs(r: BufResult<usize, Vec<Vec<u8>>>) -> Obs {
    let BufResult(res, bufs) = r;
    let mem = write_mem(&bufs);
    match res {
        Ok(n) => Obs { n: n as i64, mem, ..Default::default() },
        Err(e) => Obs { mem, ..Obs::err(&e) },
    }
}

fn write_obs1(r: BufResult<usize, Vec<u8>>) -> Obs {
    write_obs(BufResult(r.0, vec![r.1]))
}

impl CompioLeg {
    async fn new(dir: PathBuf, init: &Value, forced: bool) -> CompioLeg {
        setup(&dir, init);
        let mut l = CompioLeg { dir, forced, file: None, cursor: None, fpath: None, rx: None, tx: None };
        if init["fd"]["open"].as_bool().unwrap() {
            let p = l.dir.join("f");
            let mut o = OpenOptions::new();
            o.read(true).write(true);
            if init["fd"]["app"].as_bool().unwrap() {
                o.custom_flags(libc::O_APPEND);
            }
            let f = o.open(&p).await.expect("harness: initial open");
            l.cursor = Some(Cursor::new(f.clone()));
            l.file = Some(f);
            l.fpath = Some(p);
        }
        l
    }

    fn fc(&self) -> Option<Vec<u8>> {
        if self.file.is_some() { self.fpath.as_ref().map(|p| std::fs::read(p).unwrap_or_default()) } else { None }
    }

    async fn data_step(&mut self, op: &Op, step: usize) -> Obs {
        let off = op.offset();
        let file = self.file.as_ref().expect("harness: no open file");
        match op.o.as_str() {
            "read_at" => read_obs1(file.read_at(dest_buf(&op.bufs[0]), off).await),
            "readv_at" => read_obs(file.read_vectored_at(op.bufs.iter().map(dest_buf).collect::<Vec<_>>(), off).await),
            "write_at" => write_obs1((&*file).write_at(src_bufs(&op.bufs, step).remove(0), off).await),
            "writev_at" => write_obs((&*file).write_vectored_at(src_bufs(&op.bufs, step), off).await),
            "cread" => read_obs1(self.cursor.as_mut().unwrap().read(dest_buf(&op.bufs[0])).await),
            "cwrite" => write_obs1(self.cursor.as_mut().unwrap().write(src_bufs(&op.bufs, step).remove(0)).await),
            "sync_all" => unit(file.sync_all().await),
            "sync_data" => unit(file.sync_data().await),
            "set_len" if self.forced => {
                let op = ForceBlocking(TruncateFile::new(file.to_shared_fd(), op.n as u64));
                unit(compio_runtime::submit(op).await.0.map(|_| ()))
            }
            "set_len" => unit(file.set_len(op.n as u64).await),
            "metadata" if self.forced => {
                let BufResult(r, o) = compio_runtime::submit(ForceBlocking(FileStat::new(file.to_shared_fd()))).await;
                match r {
                    Ok(_) => Obs::ok(o.into_inner().stat.st_size as i64),
                    Err(e) => Obs::err(&e),
                }
            }
            "metadata" => match file.metadata().await {
                Ok(m) => Obs::ok(m.len() as i64),
                Err(e) => Obs::err(&e),
            },
            other => panic!("data_step: {other}"),
        }
    }
}

impl CompioLeg {
    async fn open_step(&mut self, op: &Op) -> Obs {
        let p = self.dir.join(&op.p);
        let o = &op.opt;
        let invalid = (!o.r && !o.w) || (!o.w && (o.t || o.c || o.cn));
        let res: io::Result<File> = if self.forced && !invalid {
            // the flag mapping of compio-fs/src/open_options/unix.rs, pushed through OpenFile::call_blocking
            let mut fl = OFlags::CLOEXEC
                | match (o.r, o.w) {
                    (true, false) => OFlags::RDONLY,
                    (false, true) => OFlags::WRONLY,
                    _ => OFlags::RDWR,
                };
            fl |= match (o.c, o.t, o.cn) {
                (false, false, false) => OFlags::empty(),
                (true, false, false) => OFlags::CREATE,
                (false, true, false) => OFlags::TRUNC,
                (true, true, false) => OFlags::CREATE | OFlags::TRUNC,
                (_, _, true) => OFlags::CREATE | OFlags::EXCL,
            };
            fl |= OFlags::from_bits_retain(o.custom_flags() as _);
            let dop = ForceBlocking(OpenFile::new(CurrentDir, cstr(&p), fl, Mode::from_bits_retain(o.mode as _)));
            let BufResult(r, dop) = compio_runtime::submit(dop).await;
            r.map(|_| unsafe { File::from_raw_fd(dop.into_inner().into_raw_fd()) })
        } else {
            let mut oo = OpenOptions::new();
            oo.read(o.r).write(o.w).truncate(o.t).create(o.c).create_new(o.cn);
            oo.mode(o.mode).custom_flags(o.custom_flags());
            oo.open(&p).await
        };
        match res {
            Ok(f) => {
                // contract: the descriptor handed out refers to the file that was named
                use std::os::{fd::AsRawFd, unix::fs::MetadataExt};
                let fd = f.as_raw_fd();
                let mut st: libc::stat = unsafe { std::mem::zeroed() };
                let ok = unsafe { libc::fstat(fd, &mut st) } == 0
                    && if o.tmp {
                        // an anonymous regular file on the directory's file system
                        (st.st_mode & libc::S_IFMT) == libc::S_IFREG
                            && st.st_nlink == 0
                            && std::fs::metadata(&p).map(|m| m.dev() == st.st_dev as u64).unwrap_or(false)
                    } else {
                        std::fs::metadata(&p).map(|m| m.ino() == st.st_ino as u64 && m.dev() == st.st_dev as u64).unwrap_or(false)
                    };
                if !ok {
                    if fd <= 2 {
                        std::mem::forget(f); // never close the harness' own stdio
                    }
                    return Obs { e: "WrongDescriptor".into(), n: 0, ..Default::default() };
                }
                self.cursor = Some(Cursor::new(f.clone()));
                self.file = Some(f);
                self.fpath = Some(if o.tmp { format!("/proc/self/fd/{fd}").into() } else { p });
                // the permission bits of the inode behind the descriptor are part of the result
                Obs::ok(fd_perm(fd))
            }
            Err(e) => Obs::err(&e),
        }
    }

    async fn ns_step(&mut self, op: &Op, step: usize) -> Obs {
        let p = self.dir.join(&op.p);
        let q = self.dir.join(&op.q);
        let f = self.forced;
        macro_rules! forced {
            ($dop:expr) => {
                unit(compio_runtime::submit(ForceBlocking($dop)).await.0.map(|_| ()))
            };
        }
        match op.o.as_str() {
            "create_dir" if f => forced!(CreateDir::new(CurrentDir, cstr(&p), Mode::from_bits_retain(0o777))),
            "create_dir" => unit(compio_fs::create_dir(&p).await),
            "create_dir_all" => unit(compio_fs::create_dir_all(&p).await),
            "remove_file" if f => forced!(Unlink::new(CurrentDir, cstr(&p), false)),
            "remove_file" => unit(compio_fs::remove_file(&p).await),
            "remove_dir" if f => forced!(Unlink::new(CurrentDir, cstr(&p), true)),
            "remove_dir" => unit(compio_fs::remove_dir(&p).await),
            "rename" if f => forced!(Rename::new(CurrentDir, cstr(&p), CurrentDir, cstr(&q))),
            "rename" => unit(compio_fs::rename(&p, &q).await),
            "hard_link" if f => forced!(HardLink::new(CurrentDir, cstr(&p), CurrentDir, cstr(&q))),
            "hard_link" => unit(compio_fs::hard_link(&p, &q).await),
            "symlink" if f => forced!(Symlink::new(cstr(std::path::Path::new(&op.p)), CurrentDir, cstr(&q))),
            "symlink" => unit(compio_fs::symlink(&op.p, &q).await),
            "fs_read" => match compio_fs::read(&p).await {
                Ok(d) => Obs { n: d.len() as i64, data: Some(d), ..Default::default() },
                Err(e) => Obs::err(&e),
            },
            "fs_write" => {
                let b = src_bufs(&[BufShape { len: op.n as usize, cap: op.n as usize }], step).remove(0);
                unit(compio_fs::write(&p, b).await.0)
            }
            "path_meta" | "path_lmeta" if f => {
                let dop = ForceBlocking(PathStat::new(CurrentDir, cstr(&p), op.o == "path_meta"));
                let BufResult(r, dop) = compio_runtime::submit(dop).await;
                match r {
                    Err(e) => Obs::err(&e),
                    Ok(_) => {
                        let st = dop.into_inner().stat;
                        match st.st_mode & libc::S_IFMT {
                            libc::S_IFLNK => Obs::ok(-2),
                            libc::S_IFDIR => Obs::ok(-1),
                            _ => Obs::ok(st.st_size as i64),
                        }
                    }
                }
            }
            "path_meta" | "path_lmeta" => {
                let m = if op.o == "path_meta" { compio_fs::metadata(&p).await } else { compio_fs::symlink_metadata(&p).await };
                match m {
                    Ok(m) if m.is_symlink() => Obs::ok(-2),
                    Ok(m) if m.is_dir() => Obs::ok(-1),
                    Ok(m) => Obs::ok(m.len() as i64),
                    Err(e) => Obs::err(&e),
                }
            }
            other => panic!("ns_step: {other}"),
        }
    }

    async fn pipe_step(&mut self, op: &Op, step: usize) -> Obs {
        match op.o.as_str() {
            "pipe_create" if self.forced => {
                let BufResult(r, dop) = compio_runtime::submit(ForceBlocking(Pipe::new())).await;
                match r {
                    Err(e) => Obs::err(&e),
                    Ok(_) => {
                        let (r, w) = dop.into_inner();
                        self.rx = Some(unsafe { Receiver::from_raw_fd(r.into_raw_fd()) });
                        self.tx = Some(unsafe { Sender::from_raw_fd(w.into_raw_fd()) });
                        Obs::ok(0)
                    }
                }
            }
            "pipe_create" => match compio_fs::pipe::anonymous().await {
                Ok((r, w)) => {
                    self.rx = Some(r);
                    self.tx = Some(w);
                    Obs::ok(0)
                }
                Err(e) => Obs::err(&e),
            },
            "pread" => read_obs1(self.rx.as_mut().unwrap().read(dest_buf(&op.bufs[0])).await),
            "preadv" => read_obs(self.rx.as_mut().unwrap().read_vectored(op.bufs.iter().map(dest_buf).collect::<Vec<_>>()).await),
            "pwrite" => write_obs1(self.tx.as_mut().unwrap().write(src_bufs(&op.bufs, step).remove(0)).await),
            "pwritev" => write_obs(self.tx.as_mut().unwrap().write_vectored(src_bufs(&op.bufs, step)).await),
            "close_tx" => unit(self.tx.take().unwrap().close().await),
            "close_rx" => unit(self.rx.take().unwrap().close().await),
            other => panic!("pipe_step: {other}"),
        }
    }

    async fn step(&mut self, op: &Op, step: usize) -> Obs {
        let mut obs = match op.o.as_str() {
            "open" => self.open_step(op).await,
            "close" => {
                self.cursor = None; // the cursor holds a clone; close() waits for all clones
                let f = self.file.take().unwrap();
                unit(f.close().await)
            }
            "read_at" | "readv_at" | "write_at" | "writev_at" | "cread" | "cwrite" | "sync_all" | "sync_data" | "set_len" | "metadata" => {
                self.data_step(op, step).await
            }
            "pipe_create" | "pread" | "preadv" | "pwrite" | "pwritev" | "close_tx" | "close_rx" => self.pipe_step(op, step).await,
            _ => self.ns_step(op, step).await,
        };
        obs.fc = self.fc();
        obs
    }

    /// bytes still queued in the pipe (read with libc, non-blocking, at the end of a case)
    fn drain_pipe(&mut self) -> Vec<u8> {
        use std::os::fd::AsRawFd;
        let mut out = vec![];
        if let Some(r) = &self.rx {
            let fd = r.as_raw_fd();
            unsafe {
                let fl = libc::fcntl(fd, libc::F_GETFL);
                libc::fcntl(fd, libc::F_SETFL, fl | libc::O_NONBLOCK);
            }
            let mut b = [0u8; 64];
            loop {
                let n = unsafe { libc::read(fd, b.as_mut_ptr().cast(), b.len()) };
                if n <= 0 {
                    break;
                }
                out.extend_from_slice(&b[..n as usize]);
            }
        }
        out
    }
}

fn sig(op: &Op, path: &str, dev: bool, what: &str) -> Value {
    json!({"site": op.o, "path": path, "deviation_predicted": dev, "off": if op.off < 0 { "max" } else { "num" }, "what": what})
}

struct Outcome {
    steps: u64,
}

/// One behaviour on one driver configuration and on the OS leg.
async fn run_case(case: &Value, idx: u64, scratch: &std::path::Path, rep: &Mutex<Report>, cur: &Mutex<String>) -> Outcome {
    let forced = case["drv"] == "iour_blk";
    let init = &case["init"];
    let (dir_a, dir_b) = (case_dir(scratch, idx, "a"), case_dir(scratch, idx, "b"));
    let mut os = OsLeg::new(dir_b.clone(), init);
    let mut cl = CompioLeg::new(dir_a.clone(), init, forced).await;
    let steps = case["steps"].as_array().unwrap();
    let mut n = 0u64;
    let mut contract_broken = false;
    let mut model_diverged = false;
    let mut cut_short = false; // the OS leg did not see the whole behaviour
    for (i, st) in steps.iter().enumerate() {
        let step = i + 1;
        n += 1;
        let op = Op::parse(&st["op"]);
        let path = st["path"].as_str().unwrap();
        let dev = st["dev"].as_bool().unwrap();
        *cur.lock().unwrap() = format!("{}@{}", op.o, path);
        let co = cl.step(&op, step).await;
        let oo = os.step(&op, step);
        let mfc = bytes_of(&st["fc"]);
        let mres = model_obs(&op, &st["res"], co.fc.as_ref().map(|_| mfc.clone()), step);
        model_diverged = st["res"] != st["ref"];
        let mref = model_obs(&op, &st["ref"], if model_diverged { oo.fc.clone() } else { oo.fc.as_ref().map(|_| mfc.clone()) }, step);
        if let Some(what) = oo.diff(&mref) {
            rep.lock().unwrap().problem(
                "modelerr",
                json!({"site": op.o, "what": what}),
                format!("step {i} {}: the OS does {} but the model's reference says {}", op.o, oo.to_json(), mref.to_json()),
                case,
                i,
            );
        }
        let cdiff = co.diff(&oo);
        if let Some(what) = cdiff {
            contract_broken = true;
            rep.lock().unwrap().problem(
                "contract",
                sig(&op, path, dev, what),
                format!(
                    "step {i} {} (offset {}, buffers {:?}) on driver path {}: compio-fs gives {} but the OS's own call gives {}{}",
                    op.o, op.off, op.bufs, path, co.to_json(), oo.to_json(),
                    if op.o == "open" {
                        format!(" (n = permission bits st_mode & 0o7777 of the opened inode; options {:?})", op.opt)
                    } else {
                        String::new()
                    }
                ),
                case,
                i,
            );
        }
        if cdiff.is_none() || dev {
            if let Some(what) = co.diff(&mres) {
                rep.lock().unwrap().problem(
                    "mismatch",
                    json!({"site": op.o, "path": path, "what": what}),
                    format!("step {i} {}: implementation {} model {}", op.o, co.to_json(), mres.to_json()),
                    case,
                    i,
                );
                cut_short = i + 1 < steps.len();
                break;
            }
        }
        if contract_broken {
            cut_short = i + 1 < steps.len();
            break;
        }
    }
    // final state: namespace read back through std::fs, bytes left in the pipe
    let (pa, pb) = (cl.drain_pipe(), os.drain_pipe());
    drop(cl);
    drop(os);
    let (sa, sb) = (snapshot(&dir_a), snapshot(&dir_b));
    let sm = model_snapshot(&case["fin"]["ns"]);
    let pm = bytes_of(&case["fin"]["pipe"]["buf"]);
    let last = steps.len().saturating_sub(1);
    if !contract_broken {
        let d = snap_diff(&sa, &sb).or_else(|| (pa != pb).then(|| format!("pipe holds {pa:?} vs {pb:?}")));
        if let Some(d) = d {
            rep.lock().unwrap().problem(
                "contract",
                json!({"site": "final", "path": case["drv"], "deviation_predicted": false, "off": "num", "what": "final_state"}),
                format!("final state after compio-fs differs from the OS leg: {d}"),
                case,
                last,
            );
        } else {
            if let Some(d) = snap_diff(&sa, &sm).or_else(|| (pa != pm).then(|| format!("pipe holds {pa:?}, model {pm:?}"))) {
                rep.lock().unwrap().problem("mismatch", json!({"site": "final", "what": "final_state"}), format!("final state: implementation vs model: {d}"), case, last);
            }
        }
    }
    if !model_diverged && !cut_short {
        if let Some(d) = snap_diff(&sb, &sm).or_else(|| (pb != pm).then(|| format!("pipe holds {pb:?}, model {pm:?}"))) {
            rep.lock().unwrap().problem("modelerr", json!({"site": "final", "what": "final_state"}), format!("final state: OS vs model: {d}"), case, last);
        }
    }
    let _ = std::fs::remove_dir_all(&dir_a);
    let _ = std::fs::remove_dir_all(&dir_b);
    Outcome { steps: n }
}

/// FIFO of a large transfer (more than the pipe capacity): writer task and reader task on one runtime.
async fn big_pipe(case: &Value, rep: &Mutex<Report>) -> Outcome {
    use compio_io::AsyncWriteExt;
    let size = case["size"].as_u64().unwrap() as usize;
    let data: Vec<u8> = (0..size).map(|i| (i * 31 % 251) as u8).collect();
    let (mut rx, mut tx) = compio_fs::pipe::anonymous().await.expect("anonymous pipe");
    let src = data.clone();
    let w = compio_runtime::spawn(async move {
        let r = tx.write_all(src).await.0;
        let c = tx.close().await;
        r.and(c)
    });
    let mut got: Vec<u8> = Vec::with_capacity(size);
    let mut reads = 0u64;
    let mut err = None;
    loop {
        let BufResult(r, b) = rx.read(Vec::with_capacity(8192)).await;
        reads += 1;
        match r {
            Ok(0) => break,
            Ok(n) if n == b.len() => got.extend_from_slice(&b),
            Ok(n) => {
                err = Some(format!("read returned {n} but the buffer length is {}", b.len()));
                break;
            }
            Err(e) => {
                err = Some(format!("read failed: {e}"));
                break;
            }
        }
    }
    let wres = w.await;
    if err.is_none() && got != data {
        let at = got.iter().zip(&data).position(|(a, b)| a != b).unwrap_or(got.len().min(data.len()));
        err = Some(format!("{} bytes written, {} bytes read, first difference at {at}", data.len(), got.len()));
    }
    if err.is_none() && !matches!(wres, Ok(Ok(()))) {
        err = Some(format!("writer: {wres:?}"));
    }
    if let Some(e) = err {
        rep.lock().unwrap().problem(
            "contract",
            json!({"site": "bigpipe", "path": case["drv"], "deviation_predicted": false, "off": "num", "what": "fifo"}),
            format!("pipe transfer of {size} bytes: {e}"),
            case,
            0,
        );
    }
    Outcome { steps: reads }
}

/// a case consists of a handful of system calls; this bound is only reached by a hang
const WATCHDOG_S: u64 = 30;

fn runtime(t: DriverType) -> Runtime {
    let mut pb = ProactorBuilder::new();
    pb.driver_type(t);
    let rt = Runtime::builder().with_proactor(pb).build().expect("runtime");
    assert_eq!(rt.driver_type(), t, "requested driver not in use");
    rt
}

fn main() {
    if std::env::var("VERIF_SHOW_PANICS").is_err() {
        silence_panics();
    }
    unsafe { libc::umask(UMASK) };
    let scratch = PathBuf::from(std::env::args().nth(2).expect("usage: replay_file <cases.jsonl> <scratch dir>"));
    std::fs::create_dir_all(&scratch).unwrap();
    let rep = Arc::new(Mutex::new(Report::new()));
    let cur = Arc::new(Mutex::new(String::new()));
    // watchdog: a case that does not finish is a hang of the code under test
    let beat: Arc<Mutex<(Instant, Option<Value>)>> = Arc::new(Mutex::new((Instant::now(), None)));
    {
        let (beat, cur, rep) = (beat.clone(), cur.clone(), rep.clone());
        std::thread::spawn(move || {
            loop {
                std::thread::sleep(Duration::from_millis(250));
                let g = beat.lock().unwrap();
                if let (t, Some(case)) = (&g.0, &g.1) {
                    if t.elapsed() > Duration::from_secs(WATCHDOG_S) {
                        let site = cur.lock().unwrap().clone();
                        let (o, p) = site.split_once('@').unwrap_or((&site, ""));
                        let s = json!({"site": o, "path": p, "deviation_predicted": false, "off": "num", "what": "hang"});
                        let mut r = std::mem::take(&mut *rep.lock().unwrap());
                        r.problem("hang", s, format!("operation {site} did not complete within {WATCHDOG_S} s"), case, 0);
                        r.set("aborted", json!(true));
                        r.finish();
                        std::process::exit(0);
                    }
                }
            }
        });
    }
    let rts = [runtime(DriverType::IoUring), runtime(DriverType::Poll)];
    let mut per_drv = std::collections::BTreeMap::<String, u64>::new();
    for (idx, case) in cases_from_arg().enumerate() {
        let drv = case["drv"].as_str().unwrap().to_string();
        let rt = if drv == "poll" { &rts[1] } else { &rts[0] };
        *beat.lock().unwrap() = (Instant::now(), Some(case.clone()));
        let r = std::panic::catch_unwind(std::panic::AssertUnwindSafe(|| {
            rt.block_on(async {
                if case["grp"] == "bigpipe" { big_pipe(&case, &rep).await } else { run_case(&case, idx as u64, &scratch, &rep, &cur).await }
            })
        }));
        beat.lock().unwrap().1 = None;
        let mut g = rep.lock().unwrap();
        g.cases += 1;
        *per_drv.entry(drv.clone()).or_default() += 1;
        match r {
            Ok(o) => g.steps += o.steps,
            Err(e) => {
                let site = cur.lock().unwrap().clone();
                let (o, p) = site.split_once('@').unwrap_or((&site, ""));
                g.problem(
                    "panic",
                    json!({"site": o, "path": p, "deviation_predicted": false, "off": "num", "what": "panic"}),
                    format!("panic during {site}: {}", panic_msg(e)),
                    &case,
                    0,
                );
                drop(g);
                for leg in ["a", "b"] {
                    let _ = std::fs::remove_dir_all(case_dir(&scratch, idx as u64, leg));
                }
            }
        }
    }
    let mut g = std::mem::take(&mut *rep.lock().unwrap());
    g.set("per_driver", json!(per_drv));
    g.finish();
}
