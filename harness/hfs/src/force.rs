//! C08: third driver configuration - force the blocking fallback (`call_blocking`) of an io_uring
//! OpCode.  The driver takes that path on its own only when the kernel lacks the opcode
//! (`is_op_supported`), which cannot be arranged on this kernel, so the harness wraps the real
//! operation: `create_entry` answers `OpEntry::Blocking`, everything else is delegated.
use std::{io, task::Poll};

use compio_buf::IntoInner;
use compio_driver::{Decision, Extra, IourOpCode, OpEntry, OpType, PollOpCode};

pub struct ForceBlocking<O>(pub O);

unsafe impl<O: IourOpCode> IourOpCode for ForceBlocking<O> {
    type Control = <O as IourOpCode>::Control;

    unsafe fn init(&mut self, ctrl: &mut Self::Control) {
        unsafe { IourOpCode::init(&mut self.0, ctrl) }
    }

    fn create_entry(&mut self, _: &mut Self::Control) -> OpEntry {
        OpEntry::Blocking
    }

    fn call_blocking(&mut self, ctrl: &mut Self::Control) -> io::Result<usize> {
        self.0.call_blocking(ctrl)
    }

    unsafe fn set_result(&mut self, ctrl: &mut Self::Control, res: &io::Result<usize>, extra: &Extra) {
        unsafe { IourOpCode::set_result(&mut self.0, ctrl, res, extra) }
    }
}

unsafe impl<O: PollOpCode> PollOpCode for ForceBlocking<O> {
    type Control = <O as PollOpCode>::Control;

    unsafe fn init(&mut self, ctrl: &mut Self::Control) {
        unsafe { PollOpCode::init(&mut self.0, ctrl) }
    }

    fn pre_submit(&mut self, ctrl: &mut Self::Control) -> io::Result<Decision> {
        self.0.pre_submit(ctrl)
    }

    fn op_type(&mut self, ctrl: &mut Self::Control) -> Option<OpType> {
        self.0.op_type(ctrl)
    }

    fn operate(&mut self, ctrl: &mut Self::Control) -> Poll<io::Result<usize>> {
        self.0.operate(ctrl)
    }

    unsafe fn set_result(&mut self, ctrl: &mut Self::Control, res: &io::Result<usize>, extra: &Extra) {
        unsafe { PollOpCode::set_result(&mut self.0, ctrl, res, extra) }
    }
}

impl<O: IntoInner> IntoInner for ForceBlocking<O> {
    type Inner = O::Inner;

    fn into_inner(self) -> Self::Inner {
        self.0.into_inner()
    }
}
