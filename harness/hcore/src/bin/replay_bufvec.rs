//! C10: replay BufVec behaviours (spec/Gen_BufVec.tla) on the real vectored views of compio-buf
//! (VectoredSlice via slice / slice_mut, VectoredBufIter via owned_iter) over a root Vec<Vec<u8>>.
use compio_buf::{
    IntoInner, IoBuf, IoBufMut, IoVectoredBuf, IoVectoredBufMut, SetLenExt, VectoredBufIter,
    VectoredSlice,
};
use hcore::out::{Report, cases_from_arg, panic_msg, silence_panics};
use serde_json::{Value, json};

type Root = Vec<Vec<u8>>;

enum View {
    Root(Root),
    Vs(VectoredSlice<Root>),
    It(VectoredBufIter<Root>),
}

const PAT: u8 = 0xA0;

#[derive(Debug, Clone, PartialEq)]
struct Part {
    m: i64,
    io: i64,
    il: i64,
    uo: i64,
    ul: i64,
}

#[derive(Debug, Clone, PartialEq)]
struct Obs {
    p: bool,
    parts: Vec<Part>,
    lens: Vec<usize>,
    mem: Vec<Vec<u8>>,
}

struct Bases {
    base: Vec<usize>,
    cap: Vec<usize>,
    /// heap address of the outer Vec's elements: member lengths are read through it while a view
    /// owns the root (VectoredBufIter offers no as_inner()); reads only, single-threaded
    outer: *const Vec<u8>,
}

fn locate(b: &Bases, ptr: usize, len: usize) -> (i64, i64) {
    for (j, (&base, &cap)) in b.base.iter().zip(b.cap.iter()).enumerate() {
        if ptr >= base && ptr + len <= base + cap && ptr <= base + cap {
            return (j as i64 + 1, (ptr - base) as i64);
        }
    }
    (-1, -1)
}

fn snapshot(b: &Bases) -> (Vec<usize>, Vec<Vec<u8>>) {
    let lens = (0..b.base.len()).map(|j| unsafe { (*b.outer.add(j)).len() }).collect();
    let mem = b
        .base
        .iter()
        .zip(b.cap.iter())
        .map(|(&base, &cap)| unsafe { std::slice::from_raw_parts(base as *const u8, cap) }.to_vec())
        .collect();
    (lens, mem)
}

fn observe(v: &mut View, b: &Bases) -> Obs {
    let r = std::panic::catch_unwind(std::panic::AssertUnwindSafe(|| {
        let mut inits: Vec<(usize, usize)> = vec![];
        let mut uns: Vec<(usize, usize)> = vec![];
        match v {
            View::Root(r) => {
                inits = r.iter_slice().map(|s| (s.as_ptr() as usize, s.len())).collect();
                uns = r.iter_uninit_slice().map(|s| (s.as_ptr() as usize, s.len())).collect();
            }
            View::Vs(s) => {
                inits = s.iter_slice().map(|s| (s.as_ptr() as usize, s.len())).collect();
                uns = s.iter_uninit_slice().map(|s| (s.as_ptr() as usize, s.len())).collect();
            }
            View::It(it) => {
                let s = IoBuf::as_init(&*it);
                inits.push((s.as_ptr() as usize, s.len()));
                let u = IoBufMut::as_uninit(&mut *it);
                uns.push((u.as_ptr() as usize, u.len()));
            }
        }
        (inits, uns)
    }));
    let (lens, mem) = snapshot(b);
    match r {
        Err(_) => Obs {
            p: true,
            parts: vec![],
            lens,
            mem,
        },
        Ok((inits, uns)) => {
            let mut parts = vec![];
            let n = inits.len().max(uns.len());
            for i in 0..n {
                let (im, io, il) = match inits.get(i) {
                    Some(&(p, l)) => {
                        let (m, o) = locate(b, p, l);
                        (m, o, l as i64)
                    }
                    None => (-2, -2, -2),
                };
                let (um, uo, ul) = match uns.get(i) {
                    Some(&(p, l)) => {
                        let (m, o) = locate(b, p, l);
                        (m, o, l as i64)
                    }
                    None => (-3, -3, -3),
                };
                parts.push(Part {
                    m: if im == um { im } else { -9 },
                    io,
                    il,
                    uo,
                    ul,
                });
            }
            Obs {
                p: false,
                parts,
                lens,
                mem,
            }
        }
    }
}

fn run_case(case: &Value, rep: &mut Report) {
    let bufs = case["bufs"].as_array().unwrap();
    let mut root: Root = vec![];
    for (j, b) in bufs.iter().enumerate() {
        let cap = b["cap"].as_u64().unwrap() as usize;
        let len = b["len"].as_u64().unwrap() as usize;
        let mut v: Vec<u8> = Vec::with_capacity(cap);
        assert_eq!(v.capacity(), cap);
        for p in 0..cap {
            unsafe { v.as_mut_ptr().add(p).write(PAT + (j * 16 + p) as u8) };
        }
        unsafe { v.set_len(len) };
        root.push(v);
    }
    let bases = Bases {
        base: root.iter().map(|m| m.as_ptr() as usize).collect(),
        cap: root.iter().map(|m| m.capacity()).collect(),
        outer: root.as_ptr(),
    };
    let mut ghost: Vec<Vec<u8>> =
        bases.cap.iter().enumerate().map(|(j, &c)| (0..c).map(|p| PAT + (j * 16 + p) as u8).collect()).collect();
    let mut view = Some(View::Root(root));
    let steps = case["steps"].as_array().unwrap();
    for (i, st) in steps.iter().enumerate() {
        rep.steps += 1;
        let a = st["a"].as_str().unwrap();
        let n = st["n"].as_u64().unwrap() as usize;
        let x = &st["x"];
        let dev = x["dev"].as_bool().unwrap();
        let mut cur = view.take().unwrap();
        // lens before (readable only when the root is reachable by reference)
        let pre_lens: Vec<usize> = snapshot(&bases).0;
        let pre_obs = if a == "fill" { Some(observe(&mut cur, &bases)) } else { None };
        let tag = (i + 1) as u8;
        let r = std::panic::catch_unwind(std::panic::AssertUnwindSafe(|| -> View {
            match (a, cur) {
                ("vslice", View::Root(r)) => View::Vs(r.slice(n)),
                ("vslicemut", View::Root(r)) => View::Vs(r.slice_mut(n)),
                ("iter", View::Root(r)) => match r.owned_iter() {
                    Ok(it) => View::It(it),
                    Err(r) => View::Root(r),
                },
                ("next", View::It(it)) => match it.next() {
                    Ok(it) => View::It(it),
                    Err(r) => View::Root(r),
                },
                ("inner", View::Vs(s)) => View::Root(s.into_inner()),
                ("inner", View::It(it)) => View::Root(it.into_inner()),
                ("fill", View::Root(mut r)) => {
                    let mut left = n;
                    for s in r.iter_uninit_slice() {
                        let k = left.min(s.len());
                        for p in 0..k {
                            s[p].write(tag);
                        }
                        left -= k;
                    }
                    unsafe { r.advance_vec_to(n) };
                    View::Root(r)
                }
                ("fill", View::Vs(mut r)) => {
                    let mut left = n;
                    for s in r.iter_uninit_slice() {
                        let k = left.min(s.len());
                        for p in 0..k {
                            s[p].write(tag);
                        }
                        left -= k;
                    }
                    unsafe { r.advance_vec_to(n) };
                    View::Vs(r)
                }
                ("fill", View::It(mut it)) => {
                    let s = it.as_uninit();
                    for p in 0..n {
                        s[p].write(tag);
                    }
                    unsafe { it.advance_to(n) };
                    View::It(it)
                }
                (a, _) => panic!("harness: action {a} not applicable"),
            }
        }));
        let mut v2 = match r {
            Ok(v) => v,
            Err(e) => {
                rep.problem(
                    "panic",
                    json!({"site": "bufvec", "action": a, "deviation_predicted": dev, "view": x["vk"]}),
                    format!("panic in {a}: {}", panic_msg(e)),
                    case,
                    i,
                );
                return;
            }
        };
        // ghost writes: where the pre-observation said the writable region is
        let mut wrote_end: Vec<i64> = vec![0; bases.cap.len()];
        if let Some(po) = &pre_obs {
            let mut left = n as i64;
            for part in &po.parts {
                if left == 0 {
                    break;
                }
                let k = left.min(part.ul);
                if part.m >= 1 && k > 0 {
                    let j = (part.m - 1) as usize;
                    for p in 0..k {
                        let pos = (part.uo + p) as usize;
                        if pos < ghost[j].len() {
                            ghost[j][pos] = tag;
                        }
                    }
                    wrote_end[j] = part.uo + k;
                }
                left -= k;
            }
        }
        let obs = observe(&mut v2, &bases);
        view = Some(v2);
        // ---- contract oracle ----
        let mut bad: Vec<String> = vec![];
        if obs.p {
            bad.push("asking the view for its slices panics".into());
        }
        for (q, part) in obs.parts.iter().enumerate() {
            if part.m < 1 {
                bad.push(format!("part {q}: initialized and writable slices are in different members or outside ({part:?})"));
                continue;
            }
            if !(part.io == part.uo && part.il <= part.ul) {
                bad.push(format!("part {q} (member {}): initialized ({},{}) is not a prefix of writable ({},{})", part.m, part.io, part.il, part.uo, part.ul));
            }
        }
        for (j, &l) in obs.lens.iter().enumerate() {
            if l > bases.cap[j] {
                bad.push(format!("member {} length {l} exceeds capacity {}", j + 1, bases.cap[j]));
            }
        }
        if a == "fill" {
            for j in 0..obs.lens.len() {
                let want = (pre_lens[j] as i64).max(wrote_end[j]);
                if obs.lens[j] as i64 != want {
                    bad.push(format!(
                        "member {} reports {} initialized bytes after the fill, expected {want} (before {}, written up to {})",
                        j + 1, obs.lens[j], pre_lens[j], wrote_end[j]
                    ));
                }
            }
        }
        if obs.mem != ghost {
            bad.push(format!("content {:?} differs from what was written {:?}", obs.mem, ghost));
        }
        if !bad.is_empty() {
            rep.problem(
                "contract",
                json!({"site": "bufvec", "deviation_predicted": dev, "view": x["vk"], "action": a}),
                format!("step {i} ({a} {n}): {}", bad.join("; ")),
                case,
                i,
            );
        }
        // ---- model comparison ----
        let xp = x["p"].as_bool().unwrap();
        let xparts: Vec<Part> = x["parts"]
            .as_array()
            .unwrap()
            .iter()
            .map(|p| Part {
                m: p["m"].as_i64().unwrap(),
                io: p["io"].as_i64().unwrap(),
                il: p["il"].as_i64().unwrap(),
                uo: p["uo"].as_i64().unwrap(),
                ul: p["ul"].as_i64().unwrap(),
            })
            .collect();
        let xlens: Vec<usize> = x["lens"].as_array().unwrap().iter().map(|v| v.as_u64().unwrap() as usize).collect();
        let xmem: Vec<Vec<u8>> = x["mem"]
            .as_array()
            .unwrap()
            .iter()
            .enumerate()
            .map(|(j, m)| {
                m.as_array()
                    .unwrap()
                    .iter()
                    .enumerate()
                    .map(|(p, t)| {
                        let t = t.as_u64().unwrap();
                        if t == 0 { PAT + (j * 16 + p) as u8 } else { t as u8 }
                    })
                    .collect()
            })
            .collect();
        let same = xp == obs.p && (obs.p || xparts == obs.parts) && xlens == obs.lens && xmem == obs.mem;
        if !same {
            rep.problem(
                "mismatch",
                json!({"site": "bufvec", "action": a, "view": x["vk"]}),
                format!(
                    "step {i} ({a} {n}): model p={xp} parts={xparts:?} lens={xlens:?} mem={xmem:?}; impl p={} parts={:?} lens={:?} mem={:?}",
                    obs.p, obs.parts, obs.lens, obs.mem
                ),
                case,
                i,
            );
            return;
        }
        let okm = x["ok"].as_bool().unwrap();
        if okm != bad.is_empty() {
            rep.problem(
                "mismatch",
                json!({"site": "bufvec-contract-eval", "action": a}),
                format!("step {i}: model says contract={okm}, harness oracle says {bad:?}"),
                case,
                i,
            );
        }
    }
}

fn main() {
    if std::env::var("VERIF_SHOW_PANICS").is_err() {
        silence_panics();
    }
    let mut rep = Report::new();
    for case in cases_from_arg() {
        let r = std::panic::catch_unwind(std::panic::AssertUnwindSafe(|| run_case(&case, &mut rep)));
        if let Err(e) = r {
            rep.problem(
                "panic",
                json!({"site": "bufvec", "action": "observe", "deviation_predicted": false}),
                format!("panic while observing a view: {}", panic_msg(e)),
                &case,
                0,
            );
        }
        rep.cases += 1;
    }
    rep.finish();
}
