//! C10: replay BufView behaviours (spec/Gen_BufView.tla) on the real compio-buf views.
//!
//! For every step the real view's (as_init, as_uninit) pointers are projected to offsets in the
//! root allocation and compared with the model; independently the property's contract is
//! evaluated on the real observation (prefix / inside / fill-visible / rest untouched).
use std::mem::MaybeUninit;

use compio_buf::{
    IntoInner, IoBuf, IoBufExt, IoBufMut, IoBufMutExt, ReserveError, ReserveExactError, SetLen,
    SetLenExt, Slice, Uninit,
};
use hcore::out::{Report, cases_from_arg, panic_msg, silence_panics};
use serde_json::{Value, json};

#[derive(Clone, Debug)]
struct RootInfo {
    base: usize,
    cap: usize,
    len: usize,
    bytes: Vec<u8>,
}

trait DynView: IoBufMut {
    fn into_inner_dyn(self: Box<Self>) -> Option<Box<dyn DynView>>;
    fn root_info(&mut self) -> RootInfo;
}

struct RootV<T: IoBufMut> {
    buf: T,
}

impl<T: IoBufMut> IoBuf for RootV<T> {
    fn as_init(&self) -> &[u8] {
        self.buf.as_init()
    }
}
impl<T: IoBufMut> SetLen for RootV<T> {
    unsafe fn set_len(&mut self, len: usize) {
        unsafe { self.buf.set_len(len) }
    }
}
impl<T: IoBufMut> IoBufMut for RootV<T> {
    fn as_uninit(&mut self) -> &mut [MaybeUninit<u8>] {
        self.buf.as_uninit()
    }

    fn reserve(&mut self, _len: usize) -> Result<(), ReserveError> {
        Err(ReserveError::NotSupported)
    }

    fn reserve_exact(&mut self, _len: usize) -> Result<(), ReserveExactError> {
        Err(ReserveExactError::NotSupported)
    }
}
impl<T: IoBufMut> DynView for RootV<T> {
    fn into_inner_dyn(self: Box<Self>) -> Option<Box<dyn DynView>> {
        None
    }

    fn root_info(&mut self) -> RootInfo {
        let len = self.buf.buf_len();
        let un = self.buf.as_uninit();
        let cap = un.len();
        let base = un.as_ptr() as usize;
        // the harness initialised every byte of the capacity when it built the root
        let bytes = unsafe { std::slice::from_raw_parts(base as *const u8, cap) }.to_vec();
        RootInfo {
            base,
            cap,
            len,
            bytes,
        }
    }
}

macro_rules! wrapper {
    ($name:ident, $inner:ty) => {
        struct $name($inner);
        impl IoBuf for $name {
            fn as_init(&self) -> &[u8] {
                self.0.as_init()
            }
        }
        impl SetLen for $name {
            unsafe fn set_len(&mut self, len: usize) {
                unsafe { self.0.set_len(len) }
            }
        }
        impl IoBufMut for $name {
            fn as_uninit(&mut self) -> &mut [MaybeUninit<u8>] {
                self.0.as_uninit()
            }

            fn reserve(&mut self, len: usize) -> Result<(), ReserveError> {
                self.0.reserve(len)
            }

            fn reserve_exact(&mut self, len: usize) -> Result<(), ReserveExactError> {
                self.0.reserve_exact(len)
            }
        }
        impl DynView for $name {
            fn into_inner_dyn(self: Box<Self>) -> Option<Box<dyn DynView>> {
                Some(self.0.into_inner())
            }

            fn root_info(&mut self) -> RootInfo {
                self.0.as_inner_mut().root_info()
            }
        }
    };
}
wrapper!(SliceV, Slice<Box<dyn DynView>>);
wrapper!(UninitV, Uninit<Box<dyn DynView>>);

const PAT: u8 = 0xA0;

fn prefill(ptr: *mut u8, cap: usize) {
    for p in 0..cap {
        unsafe { ptr.add(p).write(PAT + p as u8) };
    }
}

fn make_root<const N: usize>(kind: &str, variant: usize, len0: usize) -> Option<Box<dyn DynView>>
where
    [u8; N]: smallvec::Array<Item = u8>,
{
    Some(match (kind, variant) {
        ("exact", 0) => {
            let mut v: Vec<u8> = Vec::with_capacity(N);
            assert_eq!(v.capacity(), N, "Vec capacity not exact");
            prefill(v.as_mut_ptr(), N);
            unsafe { v.set_len(len0) };
            Box::new(RootV { buf: v })
        }
        ("exact", 1) => {
            let mut v = bytes::BytesMut::with_capacity(N);
            assert_eq!(v.capacity(), N, "BytesMut capacity not exact");
            prefill(v.as_mut_ptr(), N);
            unsafe { v.set_len(len0) };
            Box::new(RootV { buf: v })
        }
        ("grow", 0) => {
            let mut v = arrayvec::ArrayVec::<u8, N>::new();
            prefill(v.as_mut_ptr(), N);
            unsafe { v.set_len(len0) };
            Box::new(RootV { buf: v })
        }
        ("grow", 1) => {
            let mut v = smallvec::SmallVec::<[u8; N]>::new();
            assert_eq!(v.capacity(), N);
            prefill(v.as_mut_ptr(), N);
            unsafe { v.set_len(len0) };
            Box::new(RootV { buf: v })
        }
        ("fixed", 0) => {
            if len0 != N {
                return None;
            }
            let mut v = [0u8; N];
            prefill(v.as_mut_ptr(), N);
            Box::new(RootV { buf: v })
        }
        ("fixed", 1) => {
            if len0 != N {
                return None;
            }
            let mut v: Box<[u8]> = vec![0u8; N].into_boxed_slice();
            prefill(v.as_mut_ptr(), N);
            Box::new(RootV { buf: v })
        }
        _ => return None,
    })
}

#[derive(Debug, Clone, PartialEq)]
struct Obs {
    p: bool,
    io: i64,
    il: i64,
    uo: i64,
    ul: i64,
    rl: i64,
    mem: Vec<u8>,
}

fn observe(v: &mut Box<dyn DynView>) -> Obs {
    let ri = (**v).root_info();
    let (ip, il) = {
        let s = (**v).as_init();
        (s.as_ptr() as usize, s.len())
    };
    let un = std::panic::catch_unwind(std::panic::AssertUnwindSafe(|| {
        let s = (**v).as_uninit();
        (s.as_ptr() as usize, s.len())
    }));
    let panicked = un.is_err();
    let (up, ul) = un.unwrap_or((ri.base, 0));
    Obs {
        p: panicked,
        io: ip as i64 - ri.base as i64,
        il: il as i64,
        uo: up as i64 - ri.base as i64,
        ul: ul as i64,
        rl: ri.len as i64,
        mem: ri.bytes,
    }
}

fn run_case(case: &Value, variant: usize, rep: &mut Report) -> bool {
    let kind = case["kind"].as_str().unwrap();
    let cap = case["cap"].as_u64().unwrap() as usize;
    let len0 = case["len0"].as_u64().unwrap() as usize;
    let root = match cap {
        4 => make_root::<4>(kind, variant, len0),
        6 => make_root::<6>(kind, variant, len0),
        8 => make_root::<8>(kind, variant, len0),
        _ => panic!("unsupported cap {cap}"),
    };
    let Some(mut view) = root else { return false };
    let noend = cap as u64 + 1;
    let steps = case["steps"].as_array().unwrap();
    // ghost memory: expected content of the root allocation
    let mut ghost: Vec<u8> = (0..cap).map(|p| PAT + p as u8).collect();
    let rootname = format!("{kind}{variant}");
    for (i, st) in steps.iter().enumerate() {
        rep.steps += 1;
        let a = st["a"].as_str().unwrap();
        let b = st["b"].as_u64().unwrap() as usize;
        let e = st["e"].as_u64().unwrap();
        let pre = observe(&mut view);
        let mut filled: Option<(i64, usize)> = None;
        let r = std::panic::catch_unwind(std::panic::AssertUnwindSafe(|| -> Box<dyn DynView> {
            match a {
                "slice" => {
                    if e == noend {
                        Box::new(SliceV(view.slice(b..)))
                    } else {
                        Box::new(SliceV(view.slice(b..e as usize)))
                    }
                }
                "uninit" => Box::new(UninitV(view.uninit())),
                "unwrap" => view.into_inner_dyn().expect("unwrap of root"),
                "fill" => {
                    let tag = (i + 1) as u8;
                    let un = view.as_uninit();
                    assert!(b <= un.len(), "harness: fill larger than writable region");
                    for p in 0..b {
                        un[p].write(tag);
                    }
                    unsafe { view.advance_to(b) };
                    view
                }
                _ => panic!("unknown action {a}"),
            }
        }));
        let mut v2 = match r {
            Ok(v) => v,
            Err(e) => {
                rep.problem(
                    "panic",
                    json!({"site": "bufview", "action": a}),
                    format!("panic in {a} on {rootname}: {}", panic_msg(e)),
                    case,
                    i,
                );
                return true;
            }
        };
        if a == "fill" {
            filled = Some((pre.uo, b));
            // ghost write (only if it lies inside the allocation, else the contract check below reports)
            for p in 0..b {
                let pos = pre.uo + p as i64;
                if pos >= 0 && (pos as usize) < cap {
                    ghost[pos as usize] = (i + 1) as u8;
                }
            }
        }
        let obs = observe(&mut v2);
        view = v2;
        let x = &st["x"];
        let dev = x["dev"].as_bool().unwrap();
        // ---- contract oracle on the real observation ----
        let mut bad: Vec<String> = vec![];
        // which predicates of the contract fail: part of the signature, so that a recorded finding (known set of failing
        // predicates) does not hide a different violation in the same states
        let mut which: Vec<&str> = vec![];
        if obs.p {
            bad.push("asking the view for its writable region panics".into());
            which.push("panic");
        }
        if !obs.p && !(obs.io == obs.uo && obs.il <= obs.ul) {
            bad.push(format!(
                "initialized bytes are not a prefix of the writable region: init=({},{}) writable=({},{})",
                obs.io, obs.il, obs.uo, obs.ul
            ));
            which.push("nonprefix");
        }
        if !(obs.uo >= 0 && obs.uo + obs.ul <= cap as i64 && obs.io >= 0 && obs.io + obs.il <= cap as i64) {
            bad.push(format!(
                "view outside the allocation (cap {cap}): init=({},{}) writable=({},{})",
                obs.io, obs.il, obs.uo, obs.ul
            ));
            which.push("outside");
        }
        if obs.rl > cap as i64 {
            bad.push(format!("root length {} exceeds capacity {cap}", obs.rl));
            which.push("rootlen-over-cap");
        }
        if let Some((off, k)) = filled {
            if obs.rl < pre.rl {
                bad.push(format!("root length shrank from {} to {} on fill", pre.rl, obs.rl));
                which.push("shrank");
            }
            if kind != "fixed" {
                let want = if k == 0 { pre.rl } else { pre.rl.max(off + k as i64) };
                if obs.rl != want {
                    bad.push(format!(
                        "after writing {k} bytes at root offset {off} the root reports {} initialized bytes, expected {want}",
                        obs.rl
                    ));
                    which.push("rootlen");
                }
            }
        }
        if obs.mem != ghost {
            bad.push(format!("root content {:?} differs from what was written {:?}", obs.mem, ghost));
            which.push("content");
        }
        if !bad.is_empty() {
            // the view kinds on the stack identify the site
            rep.problem(
                "contract",
                json!({"site": "bufview", "deviation_predicted": dev, "action": a, "which": which.join("+")}),
                format!("{rootname} step {i} ({a} {b} {e}): {}", bad.join("; ")),
                case,
                i,
            );
        }
        // ---- model comparison ----
        let exp = Obs {
            p: x["p"].as_bool().unwrap(),
            io: x["io"].as_i64().unwrap(),
            il: x["il"].as_i64().unwrap(),
            uo: x["uo"].as_i64().unwrap(),
            ul: x["ul"].as_i64().unwrap(),
            rl: x["rl"].as_i64().unwrap(),
            mem: vec![],
        };
        let memx: Vec<u8> = x["mem"]
            .as_array()
            .unwrap()
            .iter()
            .enumerate()
            .map(|(p, t)| {
                let t = t.as_u64().unwrap();
                if t == 0 { PAT + p as u8 } else { t as u8 }
            })
            .collect();
        let same = exp.p == obs.p
            && exp.io == obs.io
            && exp.il == obs.il
            && exp.uo == obs.uo
            && exp.ul == obs.ul
            && exp.rl == obs.rl
            && memx == obs.mem;
        if !same {
            rep.problem(
                "mismatch",
                json!({"site": "bufview", "action": a}),
                format!(
                    "{rootname} step {i} ({a} {b} {e}): model ({},{},{},{},{},{:?}) impl ({},{},{},{},{},{:?})",
                    exp.io, exp.il, exp.uo, exp.ul, exp.rl, memx, obs.io, obs.il, obs.uo, obs.ul, obs.rl, obs.mem
                ),
                case,
                i,
            );
            return true; // later steps would only repeat the divergence
        }
        let okm = x["ok"].as_bool().unwrap();
        if okm != bad.is_empty() {
            rep.problem(
                "mismatch",
                json!({"site": "bufview-contract-eval", "action": a}),
                format!("{rootname} step {i}: model says contract={okm}, harness oracle says {:?}", bad),
                case,
                i,
            );
        }
    }
    true
}

fn main() {
    if std::env::var("VERIF_SHOW_PANICS").is_err() { silence_panics(); }
    let mut rep = Report::new();
    let mut ran = [0u64; 2];
    for case in cases_from_arg() {
        for variant in 0..2 {
            let r = std::panic::catch_unwind(std::panic::AssertUnwindSafe(|| run_case(&case, variant, &mut rep)));
            match r {
                Ok(true) => {
                    ran[variant] += 1;
                    rep.cases += 1;
                }
                Ok(false) => {}
                Err(e) => {
                    // a panic while merely looking at a view (as_init / buf_len / root access)
                    rep.problem(
                        "panic",
                        json!({"site": "bufview", "action": "observe", "deviation_predicted": false}),
                        format!("panic while observing a view: {}", panic_msg(e)),
                        &case,
                        0,
                    );
                    rep.cases += 1;
                }
            }
        }
    }
    rep.set("per_variant", json!(ran));
    rep.finish();
}
