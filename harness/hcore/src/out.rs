//! Output protocol of every replay/record binary: JSON lines on stdout.
//!   {"type":"mismatch"|"contract"|"panic"|"hang", "sig":{..}, "desc":"..", "case":.., "step":n}
//!   {"type":"summary", "cases":n, "steps":m, ...}
use std::{
    collections::BTreeMap,
    io::{BufRead, BufReader, Write},
};

use serde_json::{Value, json};

pub struct Report {
    pub cases: u64,
    pub steps: u64,
    per_sig: BTreeMap<String, u64>,
    detail_limit: u64,
    extra: BTreeMap<String, Value>,
}

impl Default for Report {
    fn default() -> Self {
        Self::new()
    }
}

impl Report {
    pub fn new() -> Self {
        Self {
            cases: 0,
            steps: 0,
            per_sig: BTreeMap::new(),
            detail_limit: 3,
            extra: BTreeMap::new(),
        }
    }

    /// Report a problem. Only the first few per signature are written in full; all are counted.
    pub fn problem(&mut self, ty: &str, sig: Value, desc: String, case: &Value, step: usize) {
        let key = format!("{ty}:{sig}");
        let n = self.per_sig.entry(key).or_insert(0);
        *n += 1;
        if *n <= self.detail_limit {
            let line = json!({"type": ty, "sig": sig, "desc": desc, "case": case, "step": step});
            let mut o = std::io::stdout().lock();
            let _ = writeln!(o, "{line}");
        }
    }

    pub fn set(&mut self, k: &str, v: Value) {
        self.extra.insert(k.to_string(), v);
    }

    pub fn finish(self) {
        let counts: Vec<Value> = self
            .per_sig
            .iter()
            .map(|(k, v)| {
                let (ty, sig) = k.split_once(':').unwrap();
                json!({"type": ty, "sig": serde_json::from_str::<Value>(sig).unwrap(), "count": v})
            })
            .collect();
        let mut m = serde_json::Map::new();
        m.insert("type".into(), json!("summary"));
        m.insert("cases".into(), json!(self.cases));
        m.insert("steps".into(), json!(self.steps));
        m.insert("problems".into(), Value::Array(counts));
        for (k, v) in self.extra {
            m.insert(k, v);
        }
        println!("{}", Value::Object(m));
    }
}

/// Iterate over the JSON lines of the file given as first CLI argument.
pub fn cases_from_arg() -> impl Iterator<Item = Value> {
    let path = std::env::args().nth(1).expect("usage: <bin> <cases.jsonl>");
    let f = std::fs::File::open(&path).unwrap_or_else(|e| panic!("open {path}: {e}"));
    BufReader::new(f).lines().filter_map(|l| {
        let l = l.unwrap();
        let t = l.trim();
        if t.is_empty() {
            None
        } else {
            Some(serde_json::from_str(t).expect("bad json line"))
        }
    })
}

pub fn silence_panics() {
    std::panic::set_hook(Box::new(|_| {}));
}

pub fn panic_msg(e: Box<dyn std::any::Any + Send>) -> String {
    if let Some(s) = e.downcast_ref::<&str>() {
        s.to_string()
    } else if let Some(s) = e.downcast_ref::<String>() {
        s.clone()
    } else {
        "<non-string panic>".into()
    }
}
