//! Shared helpers of the conformance harness (core crates: buf, io, driver, executor, runtime).
pub mod out;
pub mod script_io;
