//! scripted in-memory streams (filled in with C11)
