//! harness package hdrv
