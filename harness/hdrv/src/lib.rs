//! harness package hdrv: driver-level conformance (C01 C02 C05 C06 C07 C03 C17)
pub mod ctl;
pub mod rec;
pub mod tbuf;
