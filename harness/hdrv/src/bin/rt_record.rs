//! C01/C02/C05 at the compio-runtime level: seeded programs of tasks awaiting `submit(op)` futures
//! (plain, under `timeout`, under a `CancelToken`, in a task whose JoinHandle is dropped) with the
//! runtime dropped while operations are still in flight. Hook events are recorded and written as an
//! ndjson trace for Trace_OpAbs (ownership monitor); the result each task observes is checked against
//! what the harness made the OS do (contract oracle, written into the trace as `hready`).
//!
//! usage: rt_record <runs> <seed> <trace-out.ndjson>
use std::{
    cell::RefCell,
    collections::HashMap,
    io::Write as _,
    os::fd::{AsRawFd, FromRawFd, OwnedFd},
    rc::Rc,
    time::{Duration, Instant},
};

use compio_buf::{BufResult, IntoInner};
use compio_driver::{DriverType, ProactorBuilder, SharedFd, op::{AcceptMulti, Asyncify, Read}};
use futures_util::StreamExt as _;
use compio_runtime::{CancelToken, FutureExt, Runtime, StreamExt as _};
use hcore::out::{Report, panic_msg};
use hdrv::{rec, tbuf::TBuf};
use rand::{RngExt, SeedableRng, rngs::StdRng};
use serde_json::{Value, json};

fn pipe_nonblock() -> (OwnedFd, OwnedFd) {
    let mut fds = [0i32; 2];
    let r = unsafe { libc::pipe2(fds.as_mut_ptr(), libc::O_NONBLOCK | libc::O_CLOEXEC) };
    assert_eq!(r, 0, "pipe2 failed");
    unsafe { (OwnedFd::from_raw_fd(fds[0]), OwnedFd::from_raw_fd(fds[1])) }
}

#[derive(Clone, Copy, Debug, PartialEq)]
enum Kind {
    Plain,     // read awaited to the end (fed at some point)
    Timeout,   // read under a timeout, never fed
    Token,     // read under a cancel token that is fired
    Dropped,   // read in a task whose handle is dropped
    Blocking,  // thread-pool job
    InFlight,  // read never fed, still pending when the runtime goes away
    Multi,     // multishot accept stream: two connections arrive in a burst, then the stream is cancelled
    Migrate,   // read polled once in the main task, then moved into a spawned task and awaited there (fed later)
}

#[derive(Debug, Clone)]
struct Outcome {
    kind: Kind,
    done: bool,
    ok: bool,
    note: String,
}

fn payload(i: usize) -> Vec<u8> {
    (0..4u8).map(|k| ((i as u8 + 1) << 4) | k).collect()
}

fn run_one(run: u64, rng: &mut StdRng, rep: &mut Report, trace_out: &mut Vec<String>) {
    let poll = rng.random_bool(0.5);
    let cap = *[1u32, 2, 4, 1024].get(rng.random_range(0..4usize)).unwrap();
    let n = rng.random_range(3..7usize);
    let kinds: Vec<Kind> = (0..n)
        .map(|_| match rng.random_range(0..8u8) {
            0 => Kind::Plain,
            1 => Kind::Timeout,
            2 => Kind::Token,
            3 => Kind::Dropped,
            4 => Kind::Blocking,
            5 => Kind::Multi,
            6 => Kind::Migrate,
            _ => Kind::InFlight,
        })
        .collect();
    let order: Vec<usize> = {
        let mut v: Vec<usize> = (0..n).collect();
        for i in (1..n).rev() {
            let j = rng.random_range(0..=i);
            v.swap(i, j);
        }
        v
    };
    let desc = json!({"run": run, "driver": if poll {"poll"} else {"iour"}, "capacity": cap,
                      "kinds": kinds.iter().map(|k| format!("{k:?}")).collect::<Vec<_>>(), "order": order});
    rec::clear();
    let outcomes: Rc<RefCell<Vec<Outcome>>> =
        Rc::new(RefCell::new(kinds.iter().map(|k| Outcome { kind: *k, done: false, ok: false, note: String::new() }).collect()));
    let t_start = Instant::now();
    {
        let mut pb = ProactorBuilder::new();
        pb.driver_type(if poll { DriverType::Poll } else { DriverType::IoUring }).capacity(cap);
        let rt = Runtime::builder().with_proactor(pb).build().expect("runtime");
        let out2 = outcomes.clone();
        let kinds2 = kinds.clone();
        rt.block_on(async move {
            let mut writers: Vec<Option<OwnedFd>> = vec![];
            let mut handles = vec![];
            let mut tokens: Vec<Option<CancelToken>> = vec![];
            let shared_token = CancelToken::new();
            let paths: Rc<RefCell<Vec<Option<std::path::PathBuf>>>> = Rc::new(RefCell::new(vec![None; kinds2.len()]));
            let accepted: Rc<RefCell<Vec<usize>>> = Rc::new(RefCell::new(vec![0; kinds2.len()]));
            let mut shared_fired = false;
            let mut clients: Vec<std::os::unix::net::UnixStream> = vec![];
            for (i, k) in kinds2.iter().enumerate() {
                let (r, w) = pipe_nonblock();
                writers.push(Some(w));
                let rfd = SharedFd::new(r);
                let out = out2.clone();
                // all token-route tasks of a run share ONE token: firing it must cancel every one of them
                let token = match *k {
                    Kind::Token => Some(shared_token.clone()),
                    Kind::Multi => Some(CancelToken::new()),
                    _ => None,
                };
                tokens.push(token.clone());
                let k = *k;
                let paths = paths.clone();
                let accepted = accepted.clone();
                let paths_main = paths.clone();
                let _ = &paths_main;
                // Migrate: the future is created and polled once HERE (the main task's waker is registered with the
                // operation), then it moves into the spawned task, whose waker must replace the first one
                let mut pre = None;
                if k == Kind::Migrate {
                    let mut f = Box::pin(compio_runtime::submit(Read::new(rfd.clone(), TBuf::with_capacity(i as u64 + 1, 8))));
                    rec::push("h.task_submit", i as u64, 0);
                    if futures_util::poll!(f.as_mut()).is_ready() {
                        panic!("harness: read on an empty pipe completed at its first poll");
                    }
                    pre = Some(f);
                }
                let h = compio_runtime::spawn(async move {
                    if pre.is_none() {
                        rec::push("h.task_submit", i as u64, 0);
                    }
                    let res: Option<(std::io::Result<usize>, Vec<u8>)> = match k {
                        Kind::Blocking => {
                            let buf = TBuf::with_capacity(i as u64 + 1, 4);
                            let BufResult(r, op) = compio_runtime::submit(Asyncify::new(move || {
                                std::thread::sleep(Duration::from_millis(2));
                                BufResult(Ok(77), buf)
                            }))
                            .await;
                            let mut b = op.into_inner();
                            b.taken = true;
                            Some((r, vec![]))
                        }
                        Kind::Timeout => {
                            let fut = compio_runtime::submit(Read::new(rfd, TBuf::with_capacity(i as u64 + 1, 8)));
                            match compio_runtime::time::timeout(Duration::from_millis(15), fut).await {
                                Ok(BufResult(r, op)) => {
                                    let mut b = op.into_inner();
                                    b.taken = true;
                                    Some((r, vec![]))
                                }
                                Err(_elapsed) => None,
                            }
                        }
                        Kind::Multi => {
                            let path = std::env::temp_dir().join(format!("verif_rt_{}_{}_{}.sock", std::process::id(), run, i));
                            let _ = std::fs::remove_file(&path);
                            let l = std::os::unix::net::UnixListener::bind(&path).expect("bind");
                            l.set_nonblocking(true).unwrap();
                            paths.borrow_mut()[i] = Some(path);
                            let lfd = SharedFd::new(l);
                            let st = compio_runtime::submit_multi(AcceptMulti::new(lfd.clone())).with_cancel(token.clone().unwrap());
                            let mut st = std::pin::pin!(st);
                            let mut got = 0usize;
                            let mut last: std::io::Result<usize> = Ok(0);
                            // a descriptor delivered by a MORE item belongs to the caller; the one of the final item
                            // belongs to the operation: close item N only when item N+1 shows that N was not final
                            let mut prev_fd: Option<i32> = None;
                            while let Some(BufResult(r, _extra)) = st.next().await {
                                if let Some(fd) = prev_fd.take() {
                                    unsafe { libc::close(fd) };
                                }
                                match r {
                                    Ok(fd) => {
                                        got += 1;
                                        prev_fd = Some(fd as i32);
                                    }
                                    Err(e) => last = Err(e),
                                }
                            }
                            // connections the stream did not yield must still be waiting in the listener's backlog
                            let mut remaining = 0usize;
                            loop {
                                let fd = unsafe { libc::accept4(std::os::fd::AsRawFd::as_raw_fd(&lfd), std::ptr::null_mut(), std::ptr::null_mut(), libc::SOCK_NONBLOCK | libc::SOCK_CLOEXEC) };
                                if fd < 0 {
                                    break;
                                }
                                remaining += 1;
                                unsafe { libc::close(fd) };
                            }
                            got += remaining * 100;
                            accepted.borrow_mut()[i] = got;
                            Some((last, vec![]))
                        }
                        _ => {
                            let BufResult(r, op) = if let Some(f) = pre {
                                f.await
                            } else {
                                let fut = compio_runtime::submit(Read::new(rfd, TBuf::with_capacity(i as u64 + 1, 8)));
                                match token {
                                    Some(t) => fut.with_cancel(t).await,
                                    None => fut.await,
                                }
                            };
                            let mut b = op.into_inner();
                            b.taken = true;
                            let data = match &r {
                                Ok(nn) if *nn <= b.v.capacity() => unsafe { std::slice::from_raw_parts(b.v.as_ptr(), *nn) }.to_vec(),
                                _ => vec![],
                            };
                            Some((r, data))
                        }
                    };
                    let got_buffer_back = res.is_some() && k != Kind::Multi;
                    let mut o = out.borrow_mut();
                    o[i].done = true;
                    match (k, res) {
                        (Kind::Plain | Kind::Migrate, Some((Ok(nn), data))) => {
                            o[i].ok = nn == 4 && data == payload(i);
                            o[i].note = format!("read {nn} bytes {data:?}");
                        }
                        (Kind::Blocking, Some((Ok(77), _))) => o[i].ok = true,
                        (Kind::Multi, Some((last, _))) => {
                            let got = accepted.borrow()[i];
                            let cancelled = matches!(&last, Err(e) if e.raw_os_error() == Some(libc::ECANCELED));
                            let (yielded, remaining) = (got % 100, got / 100);
                            o[i].ok = yielded + remaining == 2 && (cancelled || last.is_ok());
                            o[i].note = format!("multishot accept stream yielded {yielded} connections, {remaining} left in the backlog, 2 were made; end: {:?}", last.map_err(|e| e.to_string()));
                        }
                        (Kind::Timeout, None) => o[i].ok = true,
                        (Kind::Token, Some((Err(e), _))) => {
                            o[i].ok = e.raw_os_error() == Some(libc::ECANCELED);
                            o[i].note = format!("{e:?}");
                        }
                        (kk, other) => {
                            o[i].ok = false;
                            o[i].note = format!("{kk:?}: unexpected outcome {:?}", other.map(|(r, d)| (r.map_err(|e| e.to_string()), d)));
                        }
                    }
                    if got_buffer_back {
                        rec::push("h.hready", i as u64, o[i].ok as u64);
                    }
                });
                handles.push(Some(h));
            }
            // let every task submit its operation
            compio_runtime::time::sleep(Duration::from_millis(3)).await;
            // the script: in random order make things happen
            for &i in &order {
                match kinds2[i] {
                    Kind::Plain | Kind::Migrate => {
                        let w = writers[i].as_ref().unwrap();
                        let p = payload(i);
                        let r = unsafe { libc::write(w.as_raw_fd(), p.as_ptr() as _, p.len()) };
                        assert_eq!(r, 4);
                    }
                    Kind::Token => {
                        tokens[i].take();
                        if !shared_fired {
                            shared_fired = true;
                            shared_token.clone().cancel();
                        }
                    }
                    Kind::Dropped => {
                        drop(handles[i].take());
                    }
                    Kind::Multi => {
                        // two connections in a burst and the cancellation, with no poll of the runtime in between:
                        // the driver sees both multishot completions and the final one in a single batch
                        let p = paths.borrow()[i].clone();
                        if let Some(p) = p {
                            for _ in 0..2 {
                                if let Ok(c) = std::os::unix::net::UnixStream::connect(&p) {
                                    clients.push(c);
                                }
                            }
                        }
                        if let Some(t) = tokens[i].take() {
                            t.cancel();
                        }
                    }
                    _ => {}
                }
                compio_runtime::time::sleep(Duration::from_millis(1)).await;
            }
            // wait (bounded) for everything that must complete
            let deadline = Instant::now() + Duration::from_secs(8);
            loop {
                let all = {
                    let o = out2.borrow();
                    o.iter().all(|x| x.done || matches!(x.kind, Kind::Dropped | Kind::InFlight))
                };
                if all || Instant::now() > deadline {
                    break;
                }
                compio_runtime::time::sleep(Duration::from_millis(2)).await;
            }
            for h in handles.into_iter().flatten() {
                h.detach();
            }
            for p in paths.borrow().iter().flatten() {
                let _ = std::fs::remove_file(p);
            }
            drop(clients);
            // the main future returns with operations still in flight: the runtime is dropped next
        });
        rec::push("h.hdrvdrop", 0, 0);
        drop(rt);
    }
    // thread-pool jobs still running hold their operation: wait for them before judging leaks
    let t0 = Instant::now();
    loop {
        let evs = rec::since(0);
        let disp = evs.iter().filter(|e| e.site == "blocking.dispatch").count();
        let done = evs.iter().filter(|e| e.site == "blocking.done").count();
        // ... and the pool thread releases its reference a few instructions after `blocking.done`
        let allocs = evs.iter().filter(|e| e.site == "op.alloc").count();
        let frees = evs.iter().filter(|e| e.site == "op.free").count();
        if (disp == done && frees >= allocs) || t0.elapsed() > Duration::from_secs(10) {
            break;
        }
        std::thread::sleep(Duration::from_millis(1));
    }
    rec::push("h.hend", 0, 0);

    // ---- contract oracle on the outcomes (C02 delivery, C05 promptness/honesty)
    for (i, o) in outcomes.borrow().iter().enumerate() {
        let must = !matches!(o.kind, Kind::Dropped | Kind::InFlight);
        if must && !o.done {
            let (prop_kind, what) = match o.kind {
                Kind::Timeout | Kind::Token | Kind::Multi => ("cancel", "cancelled-op-never-completes"),
                _ => ("deliver", "finished-op-never-delivered"),
            };
            rep.problem(
                "hang",
                json!({"site": "runtime", "route": format!("{:?}", o.kind), "what": what, "class": prop_kind}),
                format!("task {i} ({:?}) did not get its result within 8 s ({} ms since start)", o.kind, t_start.elapsed().as_millis()),
                &desc,
                i,
            );
        } else if must && !o.ok {
            rep.problem(
                "contract",
                json!({"site": "runtime", "route": format!("{:?}", o.kind), "what": "wrong-result"}),
                format!("task {i} ({:?}) observed a result that is not what the OS did: {}", o.kind, o.note),
                &desc,
                i,
            );
        }
    }

    // ---- translate the events into the monitor's alphabet
    let raw = rec::since(0);
    let mut ptr2op: HashMap<u64, String> = HashMap::new();
    let mut next_task: Option<u64> = None;
    trace_out.push(json!({"ev": "reset", "op": "o1", "a": 0, "fd": 0, "case": run}).to_string());
    let mut unknown = 0u64;
    for e in &raw {
        let opname = |p: u64, m: &HashMap<u64, String>| m.get(&p).cloned();
        let (ev, op, a): (&str, Option<String>, u64) = match e.site {
            "h.task_submit" => {
                next_task = Some(e.a);
                continue;
            }
            "op.alloc" => {
                // the op allocated right after a task announced its submit belongs to that task;
                // anything else (timers are not ops; pool/pipe helpers) gets a fresh name
                let name = match next_task.take() {
                    Some(t) => format!("o{}", t + 1),
                    None => {
                        unknown += 1;
                        format!("x{unknown}")
                    }
                };
                ptr2op.insert(e.a, name.clone());
                ("alloc", Some(name), 0)
            }
            "op.free" => {
                let n = opname(e.a, &ptr2op);
                if let Some(name) = &n {
                    let idx: usize = name.trim_start_matches('o').parse::<usize>().unwrap_or(0);
                    if idx >= 1 && idx <= kinds.len() && kinds[idx - 1] == Kind::Multi && !name.starts_with('x') {
                        trace_out.push(json!({"ev": "free", "op": name, "a": 0, "fd": 0}).to_string());
                        trace_out.push(json!({"ev": "hbufdrop", "op": name, "a": 0, "fd": 0}).to_string());
                        continue;
                    }
                }
                ("free", n, 0)
            }
            "op.result" => ("result", opname(e.a, &ptr2op), 0),
            "op.cancelled" => ("cancelled", opname(e.a, &ptr2op), e.b),
            "iour.submit" => ("submit", opname(e.a, &ptr2op), 0),
            "iour.cqe" => ("cqe", opname(e.a, &ptr2op), e.b),
            "iour.cancel" => ("cancelreq", opname(e.a, &ptr2op), e.b),
            "iour.drop.cqe" => ("dropcqe", opname(e.a, &ptr2op), e.b),
            "iour.ring_closed" | "poll.dropped" => ("ringclosed", Some("o1".into()), 0),
            "iour.drop.free" => ("dropfree", opname(e.a, &ptr2op), 0),
            "poll.submit" => ("psubmit", opname(e.a, &ptr2op), 0),
            "poll.pop" => ("ppop", opname(e.a, &ptr2op), 0),
            "poll.cancel" => ("pcancel", opname(e.a, &ptr2op), 0),
            "poll.event" => ("pevent", opname(e.a, &ptr2op), 0),
            "blocking.dispatch" => ("bdispatch", opname(e.a, &ptr2op), 0),
            "blocking.start" => ("bstart", opname(e.a, &ptr2op), 0),
            "blocking.done" => ("bdone", opname(e.a, &ptr2op), 0),
            "h.bufdrop" => ("hbufdrop", Some(format!("o{}", e.a)), 0),
            "h.hready" => ("hready", Some(format!("o{}", e.a + 1)), e.b),
            "h.hdrvdrop" => ("hdrvdrop", Some("o1".into()), 0),
            "h.hend" => ("hend", Some("o1".into()), 0),
            _ => continue,
        };
        let Some(op) = op else { continue };
        if op.starts_with('x') {
            continue; // not one of the harness' operations
        }
        // poll driver: the fd is not needed by the monitor beyond set membership; use the op's own index
        let fd = if ev.starts_with('p') && ev != "pevent" { e.b } else { 0 };
        trace_out.push(json!({"ev": ev, "op": op, "a": a, "fd": fd}).to_string());
    }
    rep.steps += raw.len() as u64;
}

fn main() {
    if std::env::var("VERIF_SHOW_PANICS").is_err() {
        hcore::out::silence_panics();
    }
    let runs: u64 = std::env::args().nth(1).expect("runs").parse().unwrap();
    let seed: u64 = std::env::args().nth(2).expect("seed").parse().unwrap();
    let out_path = std::env::args().nth(3).expect("trace out");
    rec::install();
    let mut rng = StdRng::seed_from_u64(seed);
    let mut rep = Report::new();
    let mut trace: Vec<String> = vec![];
    for run in 0..runs {
        let r = std::panic::catch_unwind(std::panic::AssertUnwindSafe(|| run_one(run, &mut rng, &mut rep, &mut trace)));
        if let Err(e) = r {
            rep.problem("panic", json!({"site": "runtime", "action": "record"}), format!("panic during run {run}: {}", panic_msg(e)), &Value::Null, 0);
        }
        rep.cases += 1;
    }
    let mut f = std::fs::File::create(&out_path).expect("create trace");
    for l in &trace {
        writeln!(f, "{l}").unwrap();
    }
    rep.set("trace_events", json!(trace.len()));
    rep.finish();
}
