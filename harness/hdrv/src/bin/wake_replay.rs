//! C03: replay Wakeup schedules (spec/Gen_Wakeup.tla) on a real compio Runtime with real waking threads.
//!
//! usage: wake_replay <cases.jsonl>
//!
//! Roles: R = the runtime thread inside Runtime::block_on (or an external event loop), w1/w2 = threads
//! that call wake() on the waker of the main future or of a spawned task. Each role parks at the hook
//! sites of the real code (cfg(compio_verif)) and the schedule from TLC grants the turns.
//! Contract oracle (independent of the model): every condition that was set before a wake() call is
//! observed by a later poll of its target (the runtime does not sleep through a wake-up); checked in
//! free-run after the schedule, under a watchdog.
use std::{
    future::Future,
    pin::Pin,
    sync::{
        Arc, Mutex,
        atomic::{AtomicBool, AtomicU64, Ordering},
    },
    task::{Context, Poll, Waker},
    time::{Duration, Instant},
};

use compio_driver::{DriverType, ProactorBuilder};
use compio_runtime::Runtime;
use hcore::out::{Report, cases_from_arg, panic_msg};
use hdrv::ctl;
use serde_json::{Value, json};

const SITES: &[&str] = &[
    "w.begin",
    "exec.state.start_scheduling",
    "exec.remote.reserve",
    "exec.remote.push",
    "exec.remote.push_retry",
    "awake.wake",
    "notify.write",
    "exec.state.finish_scheduling",
    "rt.poll_main",
    "exec.drain.load",
    "exec.drain.popped",
    "exec.drain.sub",
    "exec.state.unschedule",
    "awake.reset",
    "iour.arm_notifier",
    "drv.wait.enter",
    "drv.wait.leave",
    "awake.set",
    "notify.clear",
    "ext.wait",
];

struct Shared {
    /// wakers by target: 0 = main, 1 = t1, 2 = t2
    wakers: [Mutex<Option<Waker>>; 3],
    /// per waking thread: condition set / seen by a poll of its target
    cond: [AtomicBool; 2],
    seen: [AtomicBool; 2],
    /// target index of each waking thread
    target: [usize; 2],
    exit: AtomicBool,
    polls: [AtomicU64; 3],
    /// the next task poll submits three operations into a submission queue of two entries (push_raw overflow)
    overflow_next: AtomicBool,
}

/// The future of target `me`: registers its waker, observes the conditions of its wakers.
type PendingOp = Pin<Box<dyn Future<Output = ()>>>;

struct Probe {
    sh: Arc<Shared>,
    me: usize,
    /// operations submitted by overflowing polls, kept pending (their descriptor never becomes readable)
    ops: Vec<PendingOp>,
    idle_fd: Option<compio_driver::SharedFd<std::os::fd::OwnedFd>>,
}

impl Future for Probe {
    type Output = ();

    fn poll(mut self: Pin<&mut Self>, cx: &mut Context<'_>) -> Poll<()> {
        let sh = self.sh.clone();
        let sh = &sh;
        sh.polls[self.me].fetch_add(1, Ordering::SeqCst);
        *sh.wakers[self.me].lock().unwrap() = Some(cx.waker().clone());
        for w in 0..2 {
            if sh.target[w] == self.me && sh.cond[w].load(Ordering::SeqCst) {
                sh.seen[w].store(true, Ordering::SeqCst);
            }
        }
        // the model polls the task (registers the waker, observes the conditions) and THEN overflows the queue
        if self.me != 0 && self.sh.overflow_next.swap(false, Ordering::SeqCst) {
            if let Some(fd) = self.idle_fd.clone() {
                for _ in 0..3 {
                    let fd = fd.clone();
                    let mut f: PendingOp = Box::pin(async move {
                        let _ = compio_runtime::submit(compio_driver::op::PollOnce::new(fd, compio_driver::op::Interest::Readable)).await;
                    });
                    let _ = f.as_mut().poll(cx);
                    self.ops.push(f);
                }
            }
        }
        if sh.exit.load(Ordering::SeqCst) { Poll::Ready(()) } else { Poll::Pending }
    }
}

fn tgt_index(s: &str) -> usize {
    match s {
        "main" => 0,
        "t1" => 1,
        "t2" => 2,
        _ => panic!("bad target {s}"),
    }
}

fn run_case(case: &Value, rep: &mut Report) {
    let driver = case["driver"].as_str().unwrap().to_string();
    let mode = case["mode"].as_str().unwrap().to_string();
    let qcap = case["qcap"].as_u64().unwrap() as usize;
    let ntasks = case["tasks"].as_array().unwrap().len();
    let overflow = case["steps"].as_array().unwrap().iter().any(|s| s["act"] == "RRunTaskOv") || case.get("overflow").and_then(|v| v.as_bool()).unwrap_or(false);
    let targets = [
        tgt_index(case["targets"]["w1"].as_str().unwrap()),
        tgt_index(case["targets"]["w2"].as_str().unwrap()),
    ];
    let sh = Arc::new(Shared {
        wakers: [Mutex::new(None), Mutex::new(None), Mutex::new(None)],
        cond: [AtomicBool::new(false), AtomicBool::new(false)],
        seen: [AtomicBool::new(false), AtomicBool::new(false)],
        target: targets,
        exit: AtomicBool::new(false),
        polls: [AtomicU64::new(0), AtomicU64::new(0), AtomicU64::new(0)],
        overflow_next: AtomicBool::new(false),
    });
    ctl::reset(3, SITES);

    // ---- runtime thread
    let sh_r = sh.clone();
    let drv = driver.clone();
    let mode_r = mode.clone();
    let rt_thread = std::thread::spawn(move || {
        let mut pb = ProactorBuilder::new();
        pb.driver_type(if drv == "poll" { DriverType::Poll } else { DriverType::IoUring });
        if overflow {
            // two SQ entries: an overflowing poll submits three operations (exactly one push_raw overflow)
            pb.capacity(2);
        }
        // a pipe whose read end never becomes readable (the write end stays open in this thread)
        let (idle_r, _idle_w) = {
            let mut fds = [0i32; 2];
            let r = unsafe { libc::pipe2(fds.as_mut_ptr(), libc::O_NONBLOCK | libc::O_CLOEXEC) };
            assert_eq!(r, 0);
            use std::os::fd::FromRawFd;
            unsafe { (std::os::fd::OwnedFd::from_raw_fd(fds[0]), std::os::fd::OwnedFd::from_raw_fd(fds[1])) }
        };
        let idle_fd = Some(compio_driver::SharedFd::new(idle_r));
        let rt = Runtime::builder().with_proactor(pb).sync_queue_size(qcap).build().expect("runtime");
        // the tasks exist (scheduled, hot) before the loop starts, as in the model's initial state
        let mut handles = vec![];
        for t in 0..ntasks {
            let p = Probe { sh: sh_r.clone(), me: t + 1, ops: vec![], idle_fd: idle_fd.clone() };
            handles.push(rt.enter(|| rt.spawn(p)));
        }
        ctl::register(0);
        if mode_r == "block_on" {
            rt.block_on(Probe { sh: sh_r.clone(), me: 0, ops: vec![], idle_fd: None });
        } else {
            // external event loop in the style of compio-compat: poll the main future, run the tasks,
            // flush, wait for the driver's descriptor, poll_with(0)
            use std::os::fd::AsRawFd;
            let waker = rt.waker();
            let mut cx = Context::from_waker(&waker);
            let mut main = std::pin::pin!(Probe { sh: sh_r.clone(), me: 0, ops: vec![], idle_fd: None });
            rt.enter(|| {
                loop {
                    ctl::point("rt.poll_main", 0, 0);
                    if main.as_mut().poll(&mut cx).is_ready() {
                        break;
                    }
                    rt.run();
                    let notified = rt.flush();
                    ctl::point("ext.wait", notified as u64, 0);
                    if !notified {
                        let mut pfd = libc::pollfd { fd: rt.as_raw_fd(), events: libc::POLLIN, revents: 0 };
                        // wait in slices so that the thread can leave when the harness gives up
                        loop {
                            let n = unsafe { libc::poll(&mut pfd, 1, 50) };
                            if n > 0 || sh_r.exit.load(Ordering::SeqCst) {
                                break;
                            }
                        }
                    }
                    rt.poll_with(Some(Duration::ZERO));
                }
            });
        }
        for h in handles {
            drop(h);
        }
        ctl::finish();
    });

    // ---- waking threads
    let mut wthreads = vec![];
    for w in 0..2usize {
        let sh_w = sh.clone();
        wthreads.push(std::thread::spawn(move || {
            ctl::register(w + 1);
            ctl::point("w.begin", w as u64, 0);
            sh_w.cond[w].store(true, Ordering::SeqCst);
            let wk = sh_w.wakers[sh_w.target[w]].lock().unwrap().clone();
            match wk {
                // negative control of the check: the condition is set but nobody wakes the target
                Some(_) if std::env::var("VERIF_NEG_SKIP_WAKE").is_ok() => {}
                Some(wk) => wk.wake_by_ref(),
                None => panic!("harness: target of w{} has not been polled yet", w + 1),
            }
            ctl::finish();
        }));
    }

    // ---- steer
    let steps = case["steps"].as_array().unwrap();
    let role_idx = |r: &str| match r {
        "R" => 0,
        "w1" => 1,
        "w2" => 2,
        _ => panic!("role {r}"),
    };
    let mut diverged: Option<String> = None;
    let mut r_in_kernel = false;
    let mut executed = 0usize;
    for (i, st) in steps.iter().enumerate() {
        rep.steps += 1;
        let role = role_idx(st["role"].as_str().unwrap());
        let site = st["site"].as_str().unwrap();
        let act = st["act"].as_str().unwrap();
        // a role that blocks in the kernel shows up at its next site only when the kernel wakes it
        let wait_ms = if role == 0 && r_in_kernel { 5_000 } else { 10_000 };
        match ctl::wait_parked(role, wait_ms) {
            Some(a) if a.site == site => {
                if act == "RRunTaskOv" {
                    sh.overflow_next.store(true, Ordering::SeqCst);
                }
                ctl::grant(role);
                executed += 1;
                if role == 0 {
                    r_in_kernel = st["blocks"].as_bool().unwrap_or(false);
                }
                if !(role == 0 && r_in_kernel) {
                    // let the segment finish before the next turn is granted (determinism)
                    let t0 = Instant::now();
                    loop {
                        if ctl::wait_parked(role, 20).is_some() || ctl::is_finished(role) {
                            break;
                        }
                        if t0.elapsed() > Duration::from_secs(5) {
                            break; // e.g. the role went to sleep in the kernel although the model did not expect it
                        }
                    }
                }
            }
            Some(a) => {
                // The role is at a site the model did not predict (the code has an extra or a missing step).
                // Keep steering if possible: let the role run through up to 8 unexpected sites until it
                // reaches the predicted one, so that the rest of the interleaving is still forced.
                if diverged.is_none() {
                    diverged = Some(format!("step {i} ({act}): role {role} is at site {} but the model expects {site}", a.site));
                }
                let mut resynced = false;
                for _ in 0..8 {
                    ctl::grant(role);
                    let t0 = Instant::now();
                    let mut next = None;
                    while t0.elapsed() < Duration::from_secs(3) {
                        if let Some(n) = ctl::wait_parked(role, 20) {
                            next = Some(n);
                            break;
                        }
                        if ctl::is_finished(role) {
                            break;
                        }
                    }
                    match next {
                        Some(n) if n.site == site => {
                            resynced = true;
                            break;
                        }
                        Some(_) => continue,
                        None => break,
                    }
                }
                if !resynced {
                    break;
                }
                // now at the predicted site: perform the scheduled turn
                if act == "RRunTaskOv" {
                    sh.overflow_next.store(true, Ordering::SeqCst);
                }
                ctl::grant(role);
                executed += 1;
                if role == 0 {
                    r_in_kernel = st["blocks"].as_bool().unwrap_or(false);
                }
                if !(role == 0 && r_in_kernel) {
                    let t0 = Instant::now();
                    loop {
                        if ctl::wait_parked(role, 20).is_some() || ctl::is_finished(role) || t0.elapsed() > Duration::from_secs(5) {
                            break;
                        }
                    }
                }
            }
            None => {
                diverged = Some(format!(
                    "step {i} ({act}): role {role} did not arrive at {site} within {wait_ms} ms (finished={}, was in kernel={})",
                    ctl::is_finished(role),
                    role == 0 && r_in_kernel
                ));
                break;
            }
        }
    }
    // ---- free run + oracle
    ctl::free_run();
    // no blind joins: on a broken tree a waking thread can spin for ever inside `Remote::schedule` (full cross-thread
    // queue, runtime asleep). Bounded wait; a waker that never returns is reported and its thread is left behind.
    for (wi, t) in wthreads.into_iter().enumerate() {
        let t0 = Instant::now();
        while !t.is_finished() && t0.elapsed() < Duration::from_secs(10) {
            std::thread::sleep(Duration::from_millis(2));
        }
        if t.is_finished() {
            let _ = t.join();
        } else {
            LEAKED.fetch_add(1, Ordering::SeqCst);
            rep.problem(
                "hang",
                json!({"site": "wakeup", "driver": driver, "mode": mode, "what": "waker-never-returns"}),
                format!("waking thread w{} did not return from wake() within 10 s after the schedule (the runtime does not drain the cross-thread queue)", wi + 1),
                case,
                executed,
            );
        }
    }
    let t0 = Instant::now();
    let mut lost: Vec<usize> = vec![];
    loop {
        lost = (0..2).filter(|&w| sh.cond[w].load(Ordering::SeqCst) && !sh.seen[w].load(Ordering::SeqCst)).collect();
        if lost.is_empty() || t0.elapsed() > Duration::from_secs(4) {
            break;
        }
        std::thread::sleep(Duration::from_millis(2));
    }
    if !lost.is_empty() {
        let names: Vec<String> = lost.iter().map(|w| format!("w{} -> {}", w + 1, ["main", "t1", "t2"][targets[*w]])).collect();
        rep.problem(
            "hang",
            json!({"site": "wakeup", "driver": driver, "mode": mode, "what": "woken-target-not-polled"}),
            format!(
                "wake-ups {:?} returned but their targets were not polled again within 4 s (runtime asleep); schedule position {executed}/{}; {}",
                names,
                steps.len(),
                diverged.clone().unwrap_or_default()
            ),
            case,
            executed,
        );
    } else if let Some(d) = &diverged {
        rep.problem("mismatch", json!({"site": "wakeup", "driver": driver, "mode": mode}), d.clone(), case, executed);
    }
    // ---- tear down: let the main future and the tasks finish. The wakes are made by a helper thread and with
    // no harness lock held: on a broken tree `wake_by_ref` may never return (a full cross-thread queue that a
    // sleeping runtime never drains), and the runtime thread takes the same slot lock inside `Probe::poll`.
    sh.exit.store(true, Ordering::SeqCst);
    let nudge_done = Arc::new(std::sync::atomic::AtomicBool::new(false));
    {
        let sh_n = sh.clone();
        let done = nudge_done.clone();
        std::thread::spawn(move || {
            while !done.load(Ordering::SeqCst) {
                for t in 0..3 {
                    let w = sh_n.wakers[t].lock().unwrap().clone();
                    if let Some(w) = w {
                        w.wake_by_ref();
                    }
                }
                std::thread::sleep(Duration::from_millis(20));
            }
        });
    }
    let t0 = Instant::now();
    while !rt_thread.is_finished() && t0.elapsed() < Duration::from_secs(10) {
        std::thread::sleep(Duration::from_millis(5));
    }
    nudge_done.store(true, Ordering::SeqCst);
    if rt_thread.is_finished() {
        let _ = rt_thread.join();
    } else {
        rep.problem(
            "hang",
            json!({"site": "wakeup", "driver": driver, "mode": mode, "what": "runtime-does-not-exit"}),
            "the runtime thread did not leave block_on within 10 s although its main future is ready and was woken repeatedly".into(),
            case,
            executed,
        );
        // leak the threads (the helper may be spinning inside the code under test); the process continues with
        // the next case, but not for ever
        LEAKED.fetch_add(1, Ordering::SeqCst);
    }
    let _ = ctl::take_log();
}

static LEAKED: std::sync::atomic::AtomicUsize = std::sync::atomic::AtomicUsize::new(0);

fn main() {
    if std::env::var("VERIF_SHOW_PANICS").is_err() {
        hcore::out::silence_panics();
    }
    let mut rep = Report::new();
    for case in cases_from_arg() {
        if LEAKED.load(Ordering::SeqCst) >= 12 {
            // a dozen runtimes never came back: every further case would add spinning threads; what was found is reported
            rep.set("abandoned_after_leaked_runtimes", json!(rep.cases));
            break;
        }
        let r = std::panic::catch_unwind(std::panic::AssertUnwindSafe(|| run_case(&case, &mut rep)));
        if let Err(e) = r {
            rep.problem("panic", json!({"site": "wakeup", "action": "replay"}), format!("panic during replay: {}", panic_msg(e)), &case, 0);
        }
        rep.cases += 1;
    }
    rep.finish();
}
