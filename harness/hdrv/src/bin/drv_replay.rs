//! C01/C02/C05: replay IourDriver behaviours (spec/Gen_IourDriver.tla) on the real io_uring driver.
//!
//! usage: drv_replay <cases.jsonl> <trace-out.ndjson>
//!
//! Each behaviour is a schedule of submitter commands (push / poll / pop / cancel / token / fire /
//! keydrop / dropdrv / end) and kernel actions the harness causes itself (kfinal = make the
//! operation's pipe readable, kmore = connect a client to the multishot accept's listener,
//! poolrun = open the gate of the thread-pool job). For every step the hook events of the real
//! driver are compared with the events the model emitted for that step (binding), and every event is
//! written to the ndjson trace that Trace_OpAbs validates (contract: OpAbs monitor invariants).
use std::{
    collections::HashMap,
    io::Write as _,
    os::{
        fd::{AsRawFd, FromRawFd, OwnedFd},
        unix::net::{UnixListener, UnixStream},
    },
    sync::mpsc,
    time::{Duration, Instant},
};

use compio_buf::BufResult;
use compio_driver::{
    Cancel, DriverType, Key, Proactor, PushEntry, SharedFd,
    op::{AcceptMulti, Asyncify, Read, SendZc, Write},
};
use hcore::out::{Report, cases_from_arg, panic_msg};
use hdrv::{
    rec::{self, RawEvent},
    tbuf::TBuf,
};
use serde_json::{Value, json};

type BlkFn = Box<dyn FnOnce() -> BufResult<usize, TBuf> + Send>;
type ReadOp = Read<TBuf, SharedFd<OwnedFd>>;
type AccOp = AcceptMulti<SharedFd<UnixListener>>;
type BlkOp = Asyncify<BlkFn, TBuf>;
type ZcOp = SendZc<TBuf, SharedFd<socket2::Socket>>;
type WriteOp = Write<TBuf, SharedFd<OwnedFd>>;

enum AnyKey {
    Read(Key<ReadOp>),
    Acc(Key<AccOp>),
    Blk(Key<BlkOp>),
    Zc(Key<ZcOp>),
    Write(Key<WriteOp>),
}

struct OpState {
    name: String,
    kind: String,
    key: Option<AnyKey>,
    token: Option<Cancel>,
    ptr: u64,
    // single: id of the pipe it reads from (model fd number; iour: 100 + op index, its own pipe)
    pipe: u64,
    // multi: listener path + clients
    sock_path: Option<std::path::PathBuf>,
    clients: Vec<UnixStream>,
    // blocking: gate
    gate: Option<mpsc::Sender<()>>,
    cancel_requested: bool,
    cancel_dropped: bool,
    completed: bool,
    /// the harness made the awaited event happen (pipe fed / gate opened)
    caused: bool,
    /// a sender (waits for writability) instead of a receiver
    dir_w: bool,
    /// the harness received this operation's result
    delivered: bool,
    /// number of wakers registered so far (every registration uses a new waker: the future "moved to another task")
    wn: u64,
}

/// Waker with an identity: records its own invocation in the event stream.
struct CountingWaker {
    op: usize,
    n: u64,
}

impl std::task::Wake for CountingWaker {
    fn wake(self: std::sync::Arc<Self>) {
        rec::push("h.hwoken", self.op as u64, self.n);
    }

    fn wake_by_ref(self: &std::sync::Arc<Self>) {
        rec::push("h.hwoken", self.op as u64, self.n);
    }
}

/// What a future does when its poll returned Pending: register the waker of the polling task. Every call
/// registers a NEW waker, as if the future had been moved to another task in between.
fn register_waker(d: &mut Proactor, ctx: &mut Ctx, oi: usize) {
    let n = ctx.ops[oi].wn;
    ctx.ops[oi].wn += 1;
    let w = std::task::Waker::from(std::sync::Arc::new(CountingWaker { op: oi, n }));
    match ctx.ops[oi].key.as_ref() {
        Some(AnyKey::Read(k)) => d.update_waker(k, &w),
        Some(AnyKey::Acc(k)) => d.update_waker(k, &w),
        Some(AnyKey::Blk(k)) => d.update_waker(k, &w),
        Some(AnyKey::Zc(k)) => d.update_waker(k, &w),
        Some(AnyKey::Write(k)) => d.update_waker(k, &w),
        None => return,
    }
    hev("h.hsetw", oi, n);
}

#[derive(Clone, Debug, PartialEq)]
struct Ev {
    ev: String,
    op: String,
    a: u64,
    fd: u64,
}

fn pipe_nonblock() -> (OwnedFd, OwnedFd) {
    let mut fds = [0i32; 2];
    let r = unsafe { libc::pipe2(fds.as_mut_ptr(), libc::O_NONBLOCK | libc::O_CLOEXEC) };
    assert_eq!(r, 0, "pipe2 failed");
    unsafe { (OwnedFd::from_raw_fd(fds[0]), OwnedFd::from_raw_fd(fds[1])) }
}

/// create the byte channel of model descriptor `pid` on first use: a pipe, or (polling-driver schedules)
/// a Unix socket pair whose driver-side send buffer is filled when some operation sends on it
fn ensure_channel(ctx: &mut Ctx, pid: u64, is_poll: bool, fd_has_writer: &dyn Fn(u64) -> bool) {
    if ctx.pipes.contains_key(&pid) {
        return;
    }
    let (r, w) = if is_poll { socketpair_nonblock() } else { pipe_nonblock() };
    if is_poll && fd_has_writer(pid) {
        let junk = [0x5Au8; 512];
        loop {
            let n = unsafe { libc::write(r.as_raw_fd(), junk.as_ptr() as _, junk.len()) };
            if n < 0 {
                break; // EAGAIN: the send buffer is full, the descriptor is not writable
            }
        }
    }
    ctx.rawfd2fd.insert(r.as_raw_fd() as u64, pid);
    ctx.pipes.insert(pid, PipeState {
        r: SharedFd::new(r),
        w,
        pending: Default::default(),
        feeds: 0,
    });
}

/// a read returned `data`: it must be the oldest bytes the harness wrote into that pipe which no other read has
/// returned. Bytes may be skipped only if another read on the same pipe completed and its result was thrown
/// away (key dropped / cancelled after completion): `discardable` = capacity of such reads.
fn take_pending(pipes: &mut HashMap<u64, PipeState>, pid: u64, data: &[u8], discardable: usize) -> bool {
    let Some(ps) = pipes.get_mut(&pid) else { return false };
    if data.is_empty() || data.len() > ps.pending.len() {
        return false;
    }
    let pend: Vec<u8> = ps.pending.iter().copied().collect();
    for skip in 0..=discardable.min(pend.len() - data.len()) {
        if pend[skip..skip + data.len()] == *data {
            ps.pending.drain(..skip + data.len());
            return true;
        }
    }
    false
}

/// bytes that reads on pipe `pid` other than `me` may have consumed without the harness ever seeing them:
/// completed (or released) operations whose key the schedule gave away
fn discardable_on(ctx: &Ctx, pid: u64, me: usize) -> usize {
    ctx.ops.iter().enumerate().filter(|(i, o)| *i != me && o.kind == "single" && !o.dir_w && o.pipe == pid && o.ptr != 0 && o.key.is_none() && !o.delivered).count() * 8
}

/// The driver-level API does not set the buffer length (the runtime layer does): look at the memory.
fn raw_prefix(b: &TBuf, n: usize) -> Vec<u8> {
    assert!(n <= b.v.capacity());
    unsafe { std::slice::from_raw_parts(b.v.as_ptr(), n) }.to_vec()
}

/// nonblocking Unix stream socket pair with small buffers (polling-driver schedules with senders)
fn socketpair_nonblock() -> (OwnedFd, OwnedFd) {
    let mut fds = [0i32; 2];
    let r = unsafe { libc::socketpair(libc::AF_UNIX, libc::SOCK_STREAM | libc::SOCK_NONBLOCK | libc::SOCK_CLOEXEC, 0, fds.as_mut_ptr()) };
    assert_eq!(r, 0, "socketpair failed");
    let small: libc::c_int = 4096;
    for fd in fds {
        unsafe {
            libc::setsockopt(fd, libc::SOL_SOCKET, libc::SO_SNDBUF, &small as *const _ as _, 4);
            libc::setsockopt(fd, libc::SOL_SOCKET, libc::SO_RCVBUF, &small as *const _ as _, 4);
        }
    }
    unsafe { (OwnedFd::from_raw_fd(fds[0]), OwnedFd::from_raw_fd(fds[1])) }
}

struct PipeState {
    r: SharedFd<OwnedFd>,
    w: OwnedFd,
    /// bytes written by the harness and not yet returned by a read operation
    pending: std::collections::VecDeque<u8>,
    feeds: u8,
}

struct Ctx {
    pipes: HashMap<u64, PipeState>,
    rawfd2fd: HashMap<u64, u64>,
    ops: Vec<OpState>,
    ptr2op: HashMap<u64, String>,
    zc_peers: Vec<std::net::TcpStream>,
    zc_failing: bool,
    trace: Vec<Ev>,
    bufid2op: HashMap<u64, String>,
}

impl Ctx {
    fn translate(&mut self, raw: &[RawEvent], commit: bool) -> Vec<Ev> {
        let mut out = vec![];
        for e in raw {
            let mut fd = 0u64;
            let (ev, key_is_ptr, a) = match e.site {
                "poll.submit" => {
                    fd = self.rawfd2fd.get(&e.b).copied().unwrap_or(999);
                    ("psubmit", true, 0)
                }
                "poll.pop" => {
                    fd = self.rawfd2fd.get(&e.b).copied().unwrap_or(999);
                    ("ppop", true, 0)
                }
                "poll.cancel" => {
                    fd = self.rawfd2fd.get(&e.b).copied().unwrap_or(999);
                    ("pcancel", true, 0)
                }
                "poll.event" => ("pevent", true, 0),
                "poll.dropped" => ("ringclosed", false, 0),
                "op.alloc" => ("alloc", true, 0),
                "op.free" => ("free", true, 0),
                "op.result" => ("result", true, 0),
                "op.cancelled" => ("cancelled", true, e.b),
                "iour.submit" => ("submit", true, 0),
                "iour.cqe" => ("cqe", true, e.b),
                "iour.cancel" => ("cancelreq", true, e.b),
                "iour.drop.cqe" => ("dropcqe", true, e.b),
                "iour.ring_closed" => ("ringclosed", false, 0),
                "iour.drop.free" => ("dropfree", true, 0),
                "blocking.dispatch" => ("bdispatch", true, 0),
                "blocking.start" => ("bstart", true, 0),
                "blocking.done" => ("bdone", true, 0),
                "h.bufdrop" => ("hbufdrop", false, 0),
                s if s.starts_with("h.") => (&s[2..], false, e.b),
                _ => continue, // sites of other subsystems
            };
            let op = if key_is_ptr {
                match self.ptr2op.get(&e.a) {
                    Some(n) => n.clone(),
                    None => continue, // not an operation of this behaviour (driver-internal)
                }
            } else if e.site == "h.bufdrop" {
                self.bufid2op.get(&e.a).cloned().unwrap_or_else(|| "?buf".into())
            } else if e.site == "iour.ring_closed" || e.site == "poll.dropped" {
                "o1".into()
            } else {
                // harness events carry the op index in a
                self.ops.get(e.a as usize).map(|o| o.name.clone()).unwrap_or_else(|| "o1".into())
            };
            if commit {
                if let Some(o) = self.ops.iter_mut().find(|o| o.name == op) {
                    match ev {
                        "alloc" => {
                            o.completed = false;
                            o.cancel_dropped = false;
                        }
                        "result" | "free" => o.completed = true,
                        "hready" => o.delivered = true,
                        "cancelreq" if a == 1 => o.cancel_dropped = true,
                        _ => {}
                    }
                }
            }
            // bufferless ops (multishot accept): synthesise the buffer drop right after the free so that
            // the monitor's buffer accounting is uniform
            let synth = ev == "free" && self.ops.iter().any(|o| o.name == op && o.kind == "multi");
            out.push(Ev {
                ev: ev.to_string(),
                op: op.clone(),
                a,
                fd,
            });
            if synth {
                out.push(Ev {
                    ev: "hbufdrop".into(),
                    op,
                    a: 0,
                    fd: 0,
                });
            }
        }
        out
    }
}

fn hev(site: &'static str, opidx: usize, a: u64) {
    rec::push(site, opidx as u64, a);
}

/// Normalised form for the step comparison.
fn norm(evs: &[Ev], kinds: &HashMap<String, String>) -> Vec<(String, String, u64, u64)> {
    evs.iter()
        .filter(|e| e.ev != "bstart")
        // waker registration / invocation is judged by the trace monitor only (the driver models do not carry wakers)
        .filter(|e| !matches!(e.ev.as_str(), "hsetw" | "hwoken" | "hwchk"))
        .filter(|e| !(e.ev == "hbufdrop" && kinds.get(&e.op).map(|k| k == "multi").unwrap_or(false)))
        .map(|e| {
            let a = if e.ev == "result" { 0 } else { e.a };
            (e.ev.clone(), e.op.clone(), a, e.fd)
        })
        .collect()
}

/// expected a MORE completion of a multishot op but the kernel delivered its final completion
fn env_diverged(ne: &[(String, String, u64, u64)], na: &[(String, String, u64, u64)], kinds: &HashMap<String, String>) -> bool {
    for (i, e) in ne.iter().enumerate() {
        if na.get(i) != Some(e) {
            return e.0 == "cqe" && e.2 == 1 && kinds.get(&e.1).map(|k| k == "multi").unwrap_or(false)
                && na.get(i).map(|a| a.0 == "cqe" && a.1 == e.1 && a.2 == 0).unwrap_or(false);
        }
    }
    false
}

/// C05 promptness / C02 delivery oracle, evaluated outside the model's schedule: every interruptible
/// operation whose cancellation was requested must complete although the awaited event never
/// happens. Polls the real driver for up to `ms`.
fn settle(driver: &mut Proactor, ctx: &mut Ctx, cursor: &mut usize, ms: u64, include_blocking: bool) -> Vec<usize> {
    let t0 = Instant::now();
    loop {
        let raw = rec::since(*cursor);
        *cursor += raw.len();
        let evs = ctx.translate(&raw, true);
        ctx.trace.extend(evs);
        // pipes that still hold unread bytes: a pending reader on such a pipe must make progress
        let mut readable: Vec<u64> = vec![];
        for (pid, ps) in ctx.pipes.iter() {
            let mut n: libc::c_int = 0;
            let r = unsafe { libc::ioctl(ps.r.as_raw_fd(), libc::FIONREAD, &mut n) };
            if r == 0 && n > 0 {
                readable.push(*pid);
            }
        }
        // descriptors that are writable: a pending sender on such a descriptor must make progress
        let mut writable: Vec<u64> = vec![];
        for (pid, ps) in ctx.pipes.iter() {
            let mut pfd = libc::pollfd { fd: ps.r.as_raw_fd(), events: libc::POLLOUT, revents: 0 };
            let n = unsafe { libc::poll(&mut pfd, 1, 0) };
            if n > 0 && (pfd.revents & libc::POLLOUT) != 0 {
                writable.push(*pid);
            }
        }
        let mut waiting: Vec<usize> = vec![];
        let mut seen_pipe: Vec<u64> = vec![];
        for (i, o) in ctx.ops.iter().enumerate() {
            if o.ptr == 0 || o.completed {
                continue;
            }
            let held = o.key.is_some();
            if o.cancel_requested && o.kind != "blocking" {
                waiting.push(i);
            } else if o.kind == "blocking" && o.caused {
                if include_blocking {
                    waiting.push(i);
                }
            } else if o.kind == "single" && o.dir_w && held && writable.contains(&o.pipe) {
                waiting.push(i);
            } else if o.kind == "single" && !o.dir_w && held && readable.contains(&o.pipe) && !seen_pipe.contains(&o.pipe) {
                seen_pipe.push(o.pipe);
                waiting.push(i);
            }
        }
        if waiting.is_empty() || t0.elapsed() > Duration::from_millis(ms) {
            return waiting;
        }
        let _ = driver.poll(Some(Duration::from_millis(5)));
    }
}

fn run_case(case: &Value, rep: &mut Report, trace_out: &mut Vec<String>, settle_mode: bool, pool: &compio_driver::AsyncifyPool) {
    let sqcap = case["sqcap"].as_u64().unwrap() as u32;
    let is_poll = case.get("driver").and_then(|d| d.as_str()) == Some("poll");
    let fdmap: HashMap<String, u64> = case
        .get("fds")
        .and_then(|f| f.as_object())
        .map(|m| m.iter().map(|(k, v)| (k.clone(), v.as_u64().unwrap())).collect())
        .unwrap_or_default();
    let dirs: HashMap<String, String> = case
        .get("dirs")
        .and_then(|f| f.as_object())
        .map(|m| m.iter().map(|(k, v)| (k.clone(), v.as_str().unwrap().to_string())).collect())
        .unwrap_or_default();
    let writer_fds: Vec<u64> = dirs.iter().filter(|(_, d)| d.as_str() == "w").filter_map(|(o, _)| fdmap.get(o).copied()).collect();
    let fd_has_writer = move |pid: u64| writer_fds.contains(&pid);
    let site = if is_poll { "poll" } else { "iour" };
    let kinds: HashMap<String, String> =
        case["kinds"].as_object().unwrap().iter().map(|(k, v)| (k.clone(), v.as_str().unwrap().to_string())).collect();
    let mut names: Vec<String> = kinds.keys().cloned().collect();
    names.sort();
    let dir = std::env::temp_dir().join(format!("verif_drv_{}_{}", std::process::id(), rep.cases));
    let _ = std::fs::create_dir_all(&dir);
    let mut ctx = Ctx {
        pipes: HashMap::new(),
        rawfd2fd: HashMap::new(),
        ops: names
            .iter()
            .map(|n| OpState {
                name: n.clone(),
                kind: kinds[n].clone(),
                key: None,
                token: None,
                ptr: 0,
                pipe: 0,
                sock_path: None,
                clients: vec![],
                gate: None,
                cancel_requested: false,
                cancel_dropped: false,
                completed: false,
                caused: false,
                dir_w: false,
                delivered: false,
                wn: 0,
            })
            .collect(),
        ptr2op: HashMap::new(),
        zc_peers: vec![],
        zc_failing: false,
        trace: vec![],
        bufid2op: HashMap::new(),
    };
    for (i, n) in names.iter().enumerate() {
        ctx.bufid2op.insert(i as u64 + 1, n.clone());
    }
    rec::clear();
    let mut driver = Some(
        Proactor::builder()
            .driver_type(if is_poll { DriverType::Poll } else { DriverType::IoUring })
            .capacity(sqcap)
            .cqsize(64)
            .reuse_thread_pool(pool.clone())
            .build()
            .expect("build proactor"),
    );
    let steps = case["steps"].as_array().unwrap();
    let mut teardown = false;
    let mut tail_expected: Vec<(String, String, u64, u64)> = vec![];
    let mut tail_actual: Vec<(String, String, u64, u64)> = vec![];
    // in settle mode the promptness oracle polls outside the schedule: no event comparison then
    let mut drifted = settle_mode;
    let mut cursor = rec::mark();
    for (si, st) in steps.iter().enumerate() {
        rep.steps += 1;
        let act = st["act"].as_str().unwrap();
        let opname = st["op"].as_str().unwrap();
        let oi = names.iter().position(|n| n == opname).unwrap();
        let expected: Vec<Ev> = st["evs"]
            .as_array()
            .unwrap()
            .iter()
            .map(|e| Ev {
                ev: e["ev"].as_str().unwrap().to_string(),
                op: e["op"].as_str().unwrap().to_string(),
                a: e["a"].as_u64().unwrap(),
                fd: e.get("fd").and_then(|f| f.as_u64()).unwrap_or(0),
            })
            .collect();
        // contiguous windows: events of pool threads between two steps belong to the next step
        let mut mark = cursor;
        let mut hang: Option<String> = None;
        // oracle pass: the extra polls may have completed an operation earlier than the schedule assumes; a
        // step on an operation whose key is already gone is moot then
        let act = if settle_mode && matches!(act, "pop" | "cancel" | "token" | "keydrop") && ctx.ops[oi].key.is_none() { "skip" } else { act };
        match act {
            "skip" => {}
            "push" => {
                let d = driver.as_mut().unwrap();
                let kind = ctx.ops[oi].kind.clone();
                match kind.as_str() {
                    "single" => {
                        // poll: the pipe named by the model's fd number (shared by the ops on that fd);
                        // io_uring model: every op has its own pipe
                        let pid = if is_poll { fdmap[opname] } else { 100 + oi as u64 };
                        ensure_channel(&mut ctx, pid, is_poll, &fd_has_writer);
                        ctx.ops[oi].pipe = pid;
                        let rfd = ctx.pipes[&pid].r.clone();
                        if dirs.get(opname).map(|d| d == "w").unwrap_or(false) {
                            ctx.ops[oi].dir_w = true;
                            // a send on a socket whose send buffer the harness has filled
                            let payload: Vec<u8> = (0..3u8).map(|i| 0xD0 | i).collect();
                            let buf = TBuf::from_vec(oi as u64 + 1, payload);
                            match d.push(Write::new(rfd, buf)) {
                                PushEntry::Pending(k) => {
                                    ctx.ops[oi].key = Some(AnyKey::Write(k));
                                    hev("h.hsub", oi, 0);
                                }
                                PushEntry::Ready(_) => panic!("harness: write on a full socket completed at push"),
                            }
                        } else {
                            let buf = TBuf::with_capacity(oi as u64 + 1, 8);
                            match d.push(Read::new(rfd, buf)) {
                                PushEntry::Pending(k) => {
                                    ctx.ops[oi].key = Some(AnyKey::Read(k));
                                    hev("h.hsub", oi, 0);
                                }
                                PushEntry::Ready(_) => panic!("harness: read on an empty pipe completed at push"),
                            }
                        }
                    }
                    "multi" => {
                        let path = dir.join(format!("l{oi}.sock"));
                        let _ = std::fs::remove_file(&path);
                        let l = UnixListener::bind(&path).expect("bind");
                        l.set_nonblocking(true).unwrap();
                        ctx.ops[oi].sock_path = Some(path);
                        match d.push(AcceptMulti::new(SharedFd::new(l))) {
                            PushEntry::Pending(k) => {
                                ctx.ops[oi].key = Some(AnyKey::Acc(k));
                                hev("h.hsub", oi, 0);
                            }
                            PushEntry::Ready(_) => panic!("harness: accept completed at push"),
                        }
                    }
                    "zc" => {
                        // zero-copy send over loopback TCP: result completion (MORE) + notification (final)
                        // every second behaviour sends on an unconnected UDP socket instead: the kernel fails the
                        // send (EDESTADDRREQ) but still posts two completions (error flagged MORE, then the notification)
                        let failing = rep.cases % 2 == 1;
                        ctx.zc_failing = failing;
                        let c: socket2::Socket = if failing {
                            std::net::UdpSocket::bind("127.0.0.1:0").expect("bind udp").into()
                        } else {
                            let l = std::net::TcpListener::bind("127.0.0.1:0").expect("bind");
                            let c = std::net::TcpStream::connect(l.local_addr().unwrap()).expect("connect");
                            let (srv, _) = l.accept().expect("accept");
                            ctx.zc_peers.push(srv);
                            c.into()
                        };
                        let payload: Vec<u8> = (0..6u8).map(|i| 0xC0 | i).collect();
                        let buf = TBuf::from_vec(oi as u64 + 1, payload);
                        match d.push(SendZc::new(SharedFd::new(c), buf, rustix::net::SendFlags::empty())) {
                            PushEntry::Pending(k) => {
                                ctx.ops[oi].key = Some(AnyKey::Zc(k));
                                hev("h.hsub", oi, 0);
                            }
                            PushEntry::Ready(_) => panic!("harness: zero-copy send completed at push"),
                        }
                    }
                    "blocking" => {
                        let (tx, rx) = mpsc::channel::<()>();
                        ctx.ops[oi].gate = Some(tx);
                        let buf = TBuf::with_capacity(oi as u64 + 1, 4);
                        let f: BlkFn = Box::new(move || {
                            let _ = rx.recv_timeout(Duration::from_secs(20));
                            BufResult(Ok(4242), buf)
                        });
                        match d.push(Asyncify::new(f)) {
                            PushEntry::Pending(k) => {
                                ctx.ops[oi].key = Some(AnyKey::Blk(k));
                                hev("h.hsub", oi, 0);
                            }
                            PushEntry::Ready(_) => panic!("harness: asyncify completed at push"),
                        }
                    }
                    k => panic!("unknown kind {k}"),
                }
                // learn the pointer of this op from its alloc event
                for e in rec::since(mark) {
                    if e.site == "op.alloc" {
                        ctx.ops[oi].ptr = e.a;
                        ctx.ptr2op.insert(e.a, opname.to_string());
                    }
                }
            }
            "kfinal" | "feed" => {
                // make the descriptor readable: write a tagged block into the pipe
                let pid = if act == "feed" { st["fd"].as_u64().unwrap() } else { ctx.ops[oi].pipe };
                ensure_channel(&mut ctx, pid, is_poll, &fd_has_writer);
                let ps = ctx.pipes.get_mut(&pid).unwrap();
                ps.feeds = ps.feeds.wrapping_add(1);
                let data: Vec<u8> = (0..3u8).map(|i| ((pid as u8 & 7) << 5) | ((ps.feeds & 7) << 2) | i).collect();
                let n = unsafe { libc::write(ps.w.as_raw_fd(), data.as_ptr() as _, data.len()) };
                if n == data.len() as isize {
                    ps.pending.extend(data);
                } else if !settle_mode {
                    panic!("harness: pipe write failed");
                }
            }
            "drain" => {
                // the peer reads everything: the driver-side descriptor becomes writable
                let pid = st["fd"].as_u64().unwrap();
                ensure_channel(&mut ctx, pid, is_poll, &fd_has_writer);
                let ps = ctx.pipes.get_mut(&pid).unwrap();
                let mut buf = [0u8; 4096];
                loop {
                    let n = unsafe { libc::read(ps.w.as_raw_fd(), buf.as_mut_ptr() as _, buf.len()) };
                    if n <= 0 {
                        break;
                    }
                }
            }
            "kmore" => {
                let p = ctx.ops[oi].sock_path.clone().expect("harness: listener");
                // in the oracle pass (settle) the extra polls may already have completed the operation: the
                // listener is gone then and the schedule step is moot
                match UnixStream::connect(&p) {
                    Ok(c) => ctx.ops[oi].clients.push(c),
                    Err(e) if settle_mode => drop(e),
                    Err(e) => panic!("harness: connect: {e:?}"),
                }
            }
            "poolrun" => {
                if let Some(g) = ctx.ops[oi].gate.take() {
                    let _ = g.send(());
                }
                ctx.ops[oi].caused = true;
                let ptr = ctx.ops[oi].ptr;
                if !rec::wait_for(0, 10_000, |e| e.site == "blocking.done" && e.a == ptr) {
                    hang = Some("thread-pool job did not finish within 10 s after its gate was opened".into());
                }
                // the entry is sent right after the hook; give the pool thread a moment
                std::thread::sleep(Duration::from_millis(2));
            }
            "poll" => {
                if let Some(d) = driver.as_mut() {
                    // poll until the events the model expects have been seen (kernel timing) or 2 s
                    let want = norm(&expected, &kinds);
                    let t0 = Instant::now();
                    loop {
                        let _ = d.poll(Some(Duration::ZERO));
                        let raw = rec::since(mark);
                        let got = norm(&ctx.translate(&raw, false), &kinds);
                        if got.len() >= want.len() || t0.elapsed() > Duration::from_millis(2000) {
                            break;
                        }
                        std::thread::sleep(Duration::from_millis(1));
                    }
                    if settle_mode {
                        // oracle pass: after every poll everything that can make progress must do so promptly
                        // (ring/poller operations only; thread-pool jobs are judged at the end)
                        let mut cur = cursor;
                        let raw0 = rec::since(cur);
                        cur += raw0.len();
                        let evs0 = ctx.translate(&raw0, true);
                        ctx.trace.extend(evs0);
                        let late = settle(d, &mut ctx, &mut cur, 250, false);
                        cursor = cur;
                        mark = cur;
                        for oi2 in late {
                            let o = &ctx.ops[oi2];
                            rep.problem(
                                "hang",
                                json!({"site": site, "what": if !o.cancel_requested { "finished-op-never-delivered" } else { "cancelled-op-never-completes" }, "cancel_dropped_sq_full": o.cancel_dropped, "kind": o.kind}),
                                format!("operation {} ({}): cancelled={} but no completion was delivered within 250 ms of polling although what it waits for is ready", o.name, o.kind, o.cancel_requested),
                                case,
                                si,
                            );
                        }
                    }
                }
            }
            "pop" => {
                let d = driver.as_mut().unwrap();
                hev("h.htake", oi, 0);
                let key = ctx.ops[oi].key.take().expect("harness: pop without key");
                let cancel_req = ctx.ops[oi].cancel_requested;
                let pid = ctx.ops[oi].pipe;
                let discardable = discardable_on(&ctx, pid, oi);
                let back = match key {
                    AnyKey::Read(k) => match d.pop(k) {
                        PushEntry::Pending(k) => Some(AnyKey::Read(k)),
                        PushEntry::Ready(BufResult(res, op)) => {
                            use compio_buf::IntoInner;
                            let mut buf = op.into_inner();
                            buf.taken = true;
                            let ok = match &res {
                                Ok(n) => take_pending(&mut ctx.pipes, pid, &raw_prefix(&buf, *n), discardable),
                                Err(e) => cancel_req && e.raw_os_error() == Some(libc::ECANCELED),
                            };
                            hev("h.hready", oi, ok as u64);
                            None
                        }
                    },
                    AnyKey::Acc(k) => {
                        while let Some(BufResult(r, _)) = d.pop_multishot(&k) {
                            if let Ok(fd) = r {
                                drop(unsafe { OwnedFd::from_raw_fd(fd as i32) });
                            }
                        }
                        match d.pop(k) {
                            PushEntry::Pending(k) => Some(AnyKey::Acc(k)),
                            PushEntry::Ready(BufResult(res, _op)) => {
                                let ok = match &res {
                                    Ok(_) => true,
                                    Err(e) => cancel_req && e.raw_os_error() == Some(libc::ECANCELED),
                                };
                                hev("h.hready", oi, ok as u64);
                                None
                            }
                        }
                    }
                    AnyKey::Zc(k) => {
                        let first = d.pop_multishot(&k);
                        match d.pop(k) {
                            PushEntry::Pending(k) => Some(AnyKey::Zc(k)),
                            PushEntry::Ready(BufResult(res, op)) => {
                                use compio_buf::IntoInner;
                                let mut buf = op.into_inner();
                                buf.taken = true;
                                // the send result travels in the first (MORE) completion; the final one is the notification
                                let sent = first.map(|BufResult(r, _)| r);
                                let zc_failing = ctx.zc_failing;
                                let ok = match (&sent, &res) {
                                    (Some(Err(e)), _) if zc_failing => e.raw_os_error() == Some(libc::EDESTADDRREQ) || cancel_req,
                                    (Some(Ok(n)), _) => *n == 6 && buf.v.len() == 6 && buf.v.iter().enumerate().all(|(i, b)| *b == 0xC0 | i as u8),
                                    (_, Err(e)) => cancel_req && e.raw_os_error() == Some(libc::ECANCELED),
                                    _ => res.is_ok(),
                                };
                                hev("h.hready", oi, ok as u64);
                                None
                            }
                        }
                    }
                    AnyKey::Write(k) => match d.pop(k) {
                        PushEntry::Pending(k) => Some(AnyKey::Write(k)),
                        PushEntry::Ready(BufResult(res, op)) => {
                            use compio_buf::IntoInner;
                            let mut buf = op.into_inner();
                            buf.taken = true;
                            let ok = match &res {
                                Ok(n) => *n == 3 && buf.v == [0xD0, 0xD1, 0xD2],
                                Err(e) => cancel_req && e.raw_os_error() == Some(libc::ECANCELED),
                            };
                            hev("h.hready", oi, ok as u64);
                            None
                        }
                    },
                    AnyKey::Blk(k) => match d.pop(k) {
                        PushEntry::Pending(k) => Some(AnyKey::Blk(k)),
                        PushEntry::Ready(BufResult(res, op)) => {
                            use compio_buf::IntoInner;
                            let mut buf = op.into_inner();
                            buf.taken = true;
                            let ok = matches!(res, Ok(4242));
                            hev("h.hready", oi, ok as u64);
                            None
                        }
                    },
                };
                if back.is_some() {
                    hev("h.hpending", oi, 0);
                }
                ctx.ops[oi].key = back;
            }
            "cancel" => {
                let d = driver.as_mut().unwrap();
                hev("h.htake", oi, 0);
                ctx.ops[oi].cancel_requested = true;
                let pid = ctx.ops[oi].pipe;
                let discardable = discardable_on(&ctx, pid, oi);
                match ctx.ops[oi].key.take().expect("harness: cancel without key") {
                    AnyKey::Read(k) => {
                        if let Some(BufResult(res, op)) = d.cancel(k) {
                            use compio_buf::IntoInner;
                            let mut buf = op.into_inner();
                            buf.taken = true;
                            let ok = match &res {
                                Ok(n) => take_pending(&mut ctx.pipes, pid, &raw_prefix(&buf, *n), discardable),
                                Err(e) => e.raw_os_error() == Some(libc::ECANCELED),
                            };
                            hev("h.hready", oi, ok as u64);
                        }
                    }
                    AnyKey::Acc(k) => {
                        if let Some(BufResult(_res, _)) = d.cancel(k) {
                            hev("h.hready", oi, 1);
                        }
                    }
                    AnyKey::Write(k) => {
                        if let Some(BufResult(res, op)) = d.cancel(k) {
                            use compio_buf::IntoInner;
                            let mut buf = op.into_inner();
                            buf.taken = true;
                            let ok = match &res {
                                Ok(n) => *n == 3,
                                Err(e) => e.raw_os_error() == Some(libc::ECANCELED),
                            };
                            hev("h.hready", oi, ok as u64);
                        }
                    }
                    AnyKey::Zc(k) => {
                        if let Some(BufResult(_res, op)) = d.cancel(k) {
                            use compio_buf::IntoInner;
                            let mut buf = op.into_inner();
                            buf.taken = true;
                            hev("h.hready", oi, 1);
                        }
                    }
                    AnyKey::Blk(k) => {
                        if let Some(BufResult(res, op)) = d.cancel(k) {
                            use compio_buf::IntoInner;
                            let mut buf = op.into_inner();
                            buf.taken = true;
                            hev("h.hready", oi, matches!(res, Ok(4242)) as u64);
                        }
                    }
                }
            }
            "token" => {
                let d = driver.as_mut().unwrap();
                let t = match ctx.ops[oi].key.as_ref().expect("harness: token without key") {
                    AnyKey::Read(k) => d.register_cancel(k),
                    AnyKey::Acc(k) => d.register_cancel(k),
                    AnyKey::Blk(k) => d.register_cancel(k),
                    AnyKey::Zc(k) => d.register_cancel(k),
                    AnyKey::Write(k) => d.register_cancel(k),
                };
                ctx.ops[oi].token = Some(t);
            }
            "fire" => {
                let d = driver.as_mut().unwrap();
                if let Some(t) = ctx.ops[oi].token.take() {
                    if d.cancel_token(t) {
                        ctx.ops[oi].cancel_requested = true;
                    }
                }
            }
            "keydrop" => {
                hev("h.htake", oi, 0);
                drop(ctx.ops[oi].key.take());
            }
            "dropdrv" => {
                if let Some(d) = driver.as_mut().filter(|_| settle_mode) {
                    let mut cur = cursor;
                    // events of the settle phase are recorded but not compared with the model
                    let late = settle(d, &mut ctx, &mut cur, 400, true);
                    cursor = cur;
                    mark = cur;
                    for oi2 in late {
                        let o = &ctx.ops[oi2];
                        rep.problem(
                            "hang",
                            json!({"site": site, "what": if !o.cancel_requested { "finished-op-never-delivered" } else { "cancelled-op-never-completes" }, "cancel_dropped_sq_full": o.cancel_dropped, "kind": o.kind}),
                            format!("operation {} ({}): cancelled={} event-happened={} but no completion was delivered within 400 ms of polling", o.name, o.kind, o.cancel_requested, o.caused),
                            case,
                            si,
                        );
                    }
                }
                teardown = true;
                hev("h.hdrvdrop", 0, 0);
                drop(driver.take());
            }
            "dropdrv2" | "dropdrv3" | "dropchan" => {}
            "end" => {
                for o in ctx.ops.iter_mut() {
                    o.gate.take();
                    o.token.take();
                }
                // a pool thread releases its reference (and the completed channel) a few instructions after
                // its `blocking.done` hook: give every allocated operation up to 5 s to be released before
                // the run is declared finished (a leak is what is still there after that)
                let t0 = Instant::now();
                loop {
                    let evs = rec::since(0);
                    let allocs = evs.iter().filter(|e| e.site == "op.alloc").count();
                    let frees = evs.iter().filter(|e| e.site == "op.free").count();
                    if frees >= allocs || t0.elapsed() > Duration::from_secs(5) {
                        break;
                    }
                    std::thread::sleep(Duration::from_millis(1));
                }
                hev("h.hend", 0, 0);
            }
            a => panic!("unknown action {a}"),
        }
        // a poll that returned Pending registers the polling task's waker (push -> Pending, pop -> Pending)
        if matches!(act, "push" | "pop") && ctx.ops[oi].key.is_some() {
            if let Some(d) = driver.as_mut() {
                register_waker(d, &mut ctx, oi);
            }
        }
        // end of the step: a result stored during it must have invoked the latest waker of every operation
        // whose key the submitter still holds
        if driver.is_some() {
            for (i, o) in ctx.ops.iter().enumerate() {
                if o.key.is_some() {
                    hev("h.hwchk", i, 0);
                }
            }
        }
        let raw = rec::since(mark);
        cursor = mark + raw.len();
        let got = ctx.translate(&raw, true);
        let got2 = got;
        ctx.trace.extend(got2.iter().cloned());
        if let Some(h) = hang {
            rep.problem("hang", json!({"site": site, "action": act, "kind": ctx.ops[oi].kind}), h, case, si);
        }
        let mut ne = norm(&expected, &kinds);
        let mut na = norm(&got2, &kinds);
        if is_poll && (act == "poll" || act == "dropdrv") {
            ne.sort();
            na.sort();
        }
        let na: Vec<_> = na.into_iter().filter(|e| !(e.0 == "hbufdrop" && kinds.get(&e.1).map(|k| k == "multi").unwrap_or(false))).collect();
        if teardown {
            tail_expected.extend(ne);
            tail_actual.extend(na);
        } else if ne != na && !drifted && env_diverged(&ne, &na, &kinds) {
            // the kernel ended a multishot operation on its own: legitimate environment behaviour the
            // schedule did not plan; the rest of the behaviour is still recorded and validated
            drifted = true;
            rep.set("env_diverged", json!(true));
        } else if ne != na && !drifted {
            drifted = true;
            rep.problem(
                "mismatch",
                json!({"site": site, "action": act}),
                format!("step {si} ({act} {opname}): model events {ne:?}, driver events {na:?}"),
                case,
                si,
            );
        }
    }
    if teardown && !drifted && !settle_mode {
        let mut a = tail_expected.clone();
        let mut b = tail_actual.clone();
        a.sort();
        b.sort();
        if a != b {
            rep.problem(
                "mismatch",
                json!({"site": site, "action": "teardown"}),
                format!("teardown: model events {tail_expected:?}, driver events {tail_actual:?}"),
                case,
                steps.len(),
            );
        }
    }
    if settle_mode {
        if let Some(d) = driver.as_mut() {
            let mut cur = cursor;
            let late = settle(d, &mut ctx, &mut cur, 400, true);
            for oi2 in late {
                let o = &ctx.ops[oi2];
                rep.problem(
                    "hang",
                    json!({"site": site, "what": if !o.cancel_requested { "finished-op-never-delivered" } else { "cancelled-op-never-completes" }, "cancel_dropped_sq_full": o.cancel_dropped, "kind": o.kind}),
                    format!("operation {} ({}): cancelled={} event-happened={} but no completion was delivered within 400 ms of polling", o.name, o.kind, o.cancel_requested, o.caused),
                    case,
                    steps.len(),
                );
            }
        }
    }
    // behaviours cut at MaxLen: tear everything down so that nothing leaks into the next case
    drop(driver.take());
    for o in ctx.ops.iter_mut() {
        o.gate.take();
        o.key.take();
    }
    // wait for thread-pool jobs of this case to finish (their hooks must not land in the next case)
    for o in ctx.ops.iter() {
        if o.kind == "blocking" && o.ptr != 0 {
            let ptr = o.ptr;
            let dispatched = rec::since(0).iter().any(|e| e.site == "blocking.dispatch" && e.a == ptr);
            if dispatched {
                rec::wait_for(0, 10_000, |e| e.site == "blocking.done" && e.a == ptr);
            }
        }
    }
    std::thread::sleep(Duration::from_millis(1));
    let _ = std::fs::remove_dir_all(&dir);
    trace_out.push(json!({"ev": "reset", "op": "o1", "a": 0, "fd": 0, "case": rep.cases}).to_string());
    for e in &ctx.trace {
        trace_out.push(json!({"ev": e.ev, "op": e.op, "a": e.a, "fd": e.fd}).to_string());
    }
}

fn main() {
    if std::env::var("VERIF_SHOW_PANICS").is_err() {
        hcore::out::silence_panics();
    }
    let out_path = std::env::args().nth(2).expect("usage: drv_replay <cases.jsonl> <trace.ndjson>");
    let settle_mode = std::env::args().any(|a| a == "--settle");
    rec::install();
    // one pool for all behaviours; the idle timeout is long on purpose: a worker that retires between
    // `spawn` and the blocking `send` of AsyncifyPool::dispatch would hang the dispatcher (see C17)
    let pool = compio_driver::AsyncifyPool::new(4, Duration::from_secs(30));
    let mut rep = Report::new();
    let mut trace: Vec<String> = vec![];
    // `--from N`: skip the first N behaviours (the check restarts after a crash of the code under test)
    let from: u64 = std::env::args().position(|a| a == "--from").and_then(|i| std::env::args().nth(i + 1)).and_then(|v| v.parse().ok()).unwrap_or(0);
    for (idx, case) in cases_from_arg().enumerate() {
        if (idx as u64) < from {
            rep.cases += 1;
            continue;
        }
        // progress marker: if the process dies (SIGSEGV in the code under test) the check knows the behaviour
        eprintln!("CASE {idx}");
        let r = std::panic::catch_unwind(std::panic::AssertUnwindSafe(|| run_case(&case, &mut rep, &mut trace, settle_mode, &pool)));
        if let Err(e) = r {
            let msg = panic_msg(e);
            // a panic of the harness' own bookkeeping means the schedule no longer fits the code (drift), a panic
            // out of the code under test is a finding
            let ty = if msg.starts_with("harness:") { "mismatch" } else { "panic" };
            rep.problem(ty, json!({"site": case.get("driver").and_then(|d| d.as_str()).unwrap_or("iour"), "action": "replay"}), format!("panic during replay: {msg}"), &case, 0);
        }
        rep.cases += 1;
    }
    let mut f = std::fs::File::create(&out_path).expect("create trace");
    for l in &trace {
        writeln!(f, "{l}").unwrap();
    }
    rep.set("trace_events", json!(trace.len()));
    rep.finish();
}
