//! Schedule controller: real threads park at hook sites until the controller grants them a turn.
//!
//! A thread takes part only after `register(role)`; a site is a scheduling point only if it is in the
//! filter, every other hook passes through (but is still logged). In free-run mode nothing parks.
use std::{
    collections::{HashMap, HashSet},
    sync::{Condvar, Mutex, OnceLock},
    thread::ThreadId,
    time::{Duration, Instant},
};

#[derive(Clone, Debug)]
pub struct Arrival {
    pub role: usize,
    pub site: &'static str,
    pub a: u64,
    pub b: u64,
}

#[derive(Default)]
struct Inner {
    roles: HashMap<ThreadId, usize>,
    parked: Vec<Option<Arrival>>,
    grants: Vec<u64>,
    arrivals: Vec<u64>,
    finished: Vec<bool>,
    free_run: bool,
    filter: HashSet<&'static str>,
    log: Vec<Arrival>,
}

struct Ctl {
    m: Mutex<Inner>,
    cv: Condvar,
}

static CTL: OnceLock<Ctl> = OnceLock::new();

fn ctl() -> &'static Ctl {
    CTL.get_or_init(|| Ctl {
        m: Mutex::new(Inner::default()),
        cv: Condvar::new(),
    })
}

fn sink(site: &'static str, a: u64, b: u64) {
    point(site, a, b);
}

/// Install the controller as hook sink and reset it for `nroles` roles.
pub fn reset(nroles: usize, sites: &[&'static str]) {
    let c = ctl();
    let mut g = c.m.lock().unwrap_or_else(|e| e.into_inner());
    *g = Inner::default();
    g.parked = vec![None; nroles];
    g.grants = vec![0; nroles];
    g.arrivals = vec![0; nroles];
    g.finished = vec![false; nroles];
    g.filter = sites.iter().copied().collect();
    drop(g);
    compio_log::verif::set_sink(Some(sink));
}

/// The calling thread plays `role` from now on.
pub fn register(role: usize) {
    let c = ctl();
    let mut g = c.m.lock().unwrap_or_else(|e| e.into_inner());
    g.roles.insert(std::thread::current().id(), role);
}

/// The calling thread is done (no more turns).
pub fn finish() {
    let c = ctl();
    let mut g = c.m.lock().unwrap_or_else(|e| e.into_inner());
    if let Some(&r) = g.roles.get(&std::thread::current().id()) {
        g.finished[r] = true;
        g.roles.remove(&std::thread::current().id());
    }
    c.cv.notify_all();
}

/// A hook site (also called directly by the harness for its own sites).
pub fn point(site: &'static str, a: u64, b: u64) {
    let c = ctl();
    let mut g = c.m.lock().unwrap_or_else(|e| e.into_inner());
    let Some(&role) = g.roles.get(&std::thread::current().id()) else { return };
    let arr = Arrival { role, site, a, b };
    if g.log.len() < 100_000 {
        g.log.push(arr.clone());
    }
    if g.free_run || !g.filter.contains(site) {
        return;
    }
    g.parked[role] = Some(arr);
    g.arrivals[role] += 1;
    c.cv.notify_all();
    while g.grants[role] < g.arrivals[role] && !g.free_run {
        g = c.cv.wait(g).unwrap_or_else(|e| e.into_inner());
    }
    g.parked[role] = None;
    c.cv.notify_all();
}

/// Wait until `role` is parked at a site (Some), or finished / timed out (None).
pub fn wait_parked(role: usize, ms: u64) -> Option<Arrival> {
    let c = ctl();
    let t0 = Instant::now();
    let mut g = c.m.lock().unwrap_or_else(|e| e.into_inner());
    loop {
        if let Some(a) = &g.parked[role] {
            if g.grants[role] < g.arrivals[role] {
                return Some(a.clone());
            }
        }
        if g.finished[role] {
            return None;
        }
        let left = (ms as i64) - t0.elapsed().as_millis() as i64;
        if left <= 0 {
            return None;
        }
        let (g2, _) = c.cv.wait_timeout(g, Duration::from_millis(left.min(50) as u64)).unwrap_or_else(|e| e.into_inner());
        g = g2;
    }
}

pub fn is_finished(role: usize) -> bool {
    ctl().m.lock().unwrap_or_else(|e| e.into_inner()).finished[role]
}

/// Let `role` run to its next scheduling point.
pub fn grant(role: usize) {
    let c = ctl();
    let mut g = c.m.lock().unwrap_or_else(|e| e.into_inner());
    g.grants[role] = g.arrivals[role];
    c.cv.notify_all();
}

/// Stop steering: every parked thread is released and nothing parks any more.
pub fn free_run() {
    let c = ctl();
    let mut g = c.m.lock().unwrap_or_else(|e| e.into_inner());
    g.free_run = true;
    c.cv.notify_all();
}

pub fn take_log() -> Vec<Arrival> {
    std::mem::take(&mut ctl().m.lock().unwrap_or_else(|e| e.into_inner()).log)
}
