//! Instrumented buffer: logs `hbufdrop(id)` when it is dropped while still owned by an operation.
use std::mem::MaybeUninit;

use compio_buf::{IoBuf, IoBufMut, SetLen};

pub struct TBuf {
    pub v: Vec<u8>,
    pub id: u64,
    /// set once the harness has the buffer back (its drop is then not an ownership event)
    pub taken: bool,
}

impl TBuf {
    pub fn with_capacity(id: u64, cap: usize) -> Self {
        let mut v: Vec<u8> = Vec::with_capacity(cap);
        // initialise the spare capacity with a canary so that content checks are meaningful
        for i in 0..cap {
            unsafe { v.as_mut_ptr().add(i).write(0xEE) };
        }
        Self {
            v,
            id,
            taken: false,
        }
    }

    pub fn from_vec(id: u64, v: Vec<u8>) -> Self {
        Self {
            v,
            id,
            taken: false,
        }
    }
}

impl Drop for TBuf {
    fn drop(&mut self) {
        if !self.taken {
            crate::rec::push("h.bufdrop", self.id, 0);
        }
    }
}

impl IoBuf for TBuf {
    fn as_init(&self) -> &[u8] {
        &self.v
    }
}

impl SetLen for TBuf {
    unsafe fn set_len(&mut self, len: usize) {
        unsafe { self.v.set_len(len) }
    }
}

impl IoBufMut for TBuf {
    fn as_uninit(&mut self) -> &mut [MaybeUninit<u8>] {
        self.v.as_uninit()
    }
}
