//! harness package hfd: C06 (descriptors are closed exactly once, never in use, never leaked),
//! built against compio-driver WITHOUT feature `sync` (SharedFd = Rc based).
pub mod prod;
pub mod rec;
pub mod replay;
pub mod util;

/// Compile-time proof that this build is the unsync variant: the call is ambiguous (does not
/// compile) if SharedFd<()> is Send.
#[allow(dead_code)]
mod not_send {
    pub trait AmbiguousIfSend<A> {
        fn some_item() {}
    }
    impl<T: ?Sized> AmbiguousIfSend<()> for T {}
    impl<T: ?Sized + Send> AmbiguousIfSend<u8> for T {}
    pub fn check() {
        let _ = <compio_driver::SharedFd<()> as AmbiguousIfSend<_>>::some_item;
    }
}
