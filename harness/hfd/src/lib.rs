//! harness package hfd
