//! C06, feature `sync`: schedule controller for the SharedFd take / drop protocol and seeded
//! free-running stress.
//!
//! usage: fd_sched_sync <schedules.jsonl> [--stress N --seed S]
//!
//! A schedule (spec/Gen_SharedFdSync.tla) is a list of atomic steps {r, s, x}: role r ("C" = the
//! closer polling take(), any other name = a holder living on its own thread that drops its handle,
//! or calls take() itself when its first site is fd.take.swap) is expected to be parked at hook
//! site s; granting the turn lets it perform exactly that atomic operation and run to its next hook
//! (or to its end). x is the model state after the step. The hook reports the strong count it
//! sees, which is compared with the model (binding); the number of closes is compared after every
//! step. Independently of the model the contract is evaluated on the real observation:
//!   * the owned value is dropped at most once, and only when every holder has let go;
//!   * when every holder has let go the closer is done or has been woken - otherwise nobody is
//!     left who could ever wake it: close().await never resolves (decided without any timing);
//!   * a second take() returns None.
use std::{
    cell::Cell,
    future::Future,
    io::Write as _,
    pin::Pin,
    sync::{
        Arc, Condvar, Mutex, OnceLock,
        atomic::{AtomicBool, AtomicUsize, Ordering},
        mpsc,
    },
    task::{Context, Poll, Wake, Waker},
    time::{Duration, Instant},
};

use compio_driver::SharedFd;
use hcore::out::{Report, cases_from_arg};
use rand::{RngExt, SeedableRng, rngs::StdRng};
use serde_json::{Value, json};

use crate::util;

thread_local! {
    static ROLE: Cell<Option<usize>> = const { Cell::new(None) };
}

// ---------------------------------------------------------------------------------------------
// instrumented owner, thread-safe

pub struct ThrBook {
    closes: AtomicUsize,
    released: Vec<AtomicBool>, // per holder role (index 1..), index 0 unused (closer)
    is_op: Vec<bool>,
    viol: Mutex<Option<String>>,
}

pub struct ThrIns(Arc<ThrBook>);

impl Drop for ThrIns {
    fn drop(&mut self) {
        let b = &self.0;
        b.closes.fetch_add(1, Ordering::SeqCst);
        let me = ROLE.with(|r| r.get());
        let mut held = vec![];
        let mut ops = vec![];
        for i in 1..b.released.len() {
            if Some(i) != me && !b.released[i].load(Ordering::SeqCst) {
                held.push(i);
                if b.is_op[i] {
                    ops.push(i);
                }
            }
        }
        if !held.is_empty() {
            let mut v = b.viol.lock().unwrap_or_else(|e| e.into_inner());
            v.get_or_insert_with(|| {
                format!("closed while holders {held:?} (operations in flight: {ops:?}) still hold a clone")
            });
        }
    }
}

// ---------------------------------------------------------------------------------------------
// controller

#[derive(Default)]
struct CtlState {
    /// 0 = pass-through, 1 = steer (park at hooks), 2 = mark only (stress)
    mode: u8,
    at: Vec<Option<(&'static str, u64)>>,
    grant: Vec<bool>,
    finished: Vec<bool>,
    book: Option<Arc<ThrBook>>,
}

struct Ctl {
    m: Mutex<CtlState>,
    cv: Condvar,
}

static CTL: OnceLock<Ctl> = OnceLock::new();

fn ctl() -> &'static Ctl {
    CTL.get_or_init(|| Ctl {
        m: Mutex::new(CtlState::default()),
        cv: Condvar::new(),
    })
}

fn lock() -> std::sync::MutexGuard<'static, CtlState> {
    ctl().m.lock().unwrap_or_else(|e| e.into_inner())
}

/// the site that announces the decrement of the strong count (since the repair of the silent
/// release a take() that resolves to None gives its reference up through Drop as well)
fn is_release_site(site: &str) -> bool {
    site == "fd.drop.dec"
}

/// Park the calling role at `site` until the controller grants a turn.
fn park(site: &'static str, b: u64) {
    let Some(role) = ROLE.with(|r| r.get()) else { return };
    let mut st = lock();
    if st.mode == 1 && role < st.at.len() {
        st.at[role] = Some((site, b));
        ctl().cv.notify_all();
        while st.mode == 1 && !st.grant[role] {
            st = ctl().cv.wait_timeout(st, Duration::from_millis(200)).unwrap_or_else(|e| e.into_inner()).0;
        }
        if role < st.grant.len() {
            st.grant[role] = false;
            st.at[role] = None;
        }
    }
    // the reference is given up by the very next atomic operation
    if is_release_site(site) {
        if let Some(b) = st.book.as_ref() {
            if role >= 1 && role < b.released.len() {
                b.released[role].store(true, Ordering::SeqCst);
            }
        }
    }
}

fn sink(site: &'static str, _a: u64, b: u64) {
    if site.starts_with("fd.") {
        park(site, b);
    }
}

fn finish_role() {
    let Some(role) = ROLE.with(|r| r.get()) else { return };
    let mut st = lock();
    if role < st.finished.len() {
        st.finished[role] = true;
    }
    ctl().cv.notify_all();
}

enum Parked {
    At(&'static str, u64),
    Finished,
    Timeout,
}

/// Controller-side patience (thread start-up and scheduling on a heavily loaded machine).
const CTL_WAIT: Duration = Duration::from_secs(30);

fn wait_parked(role: usize) -> Parked {
    let t0 = Instant::now();
    let mut st = lock();
    loop {
        if !st.grant[role] {
            if let Some((s, b)) = st.at[role] {
                return Parked::At(s, b);
            }
            if st.finished[role] {
                return Parked::Finished;
            }
        }
        if t0.elapsed() > CTL_WAIT {
            return Parked::Timeout;
        }
        st = ctl().cv.wait_timeout(st, Duration::from_millis(100)).unwrap_or_else(|e| e.into_inner()).0;
    }
}

fn grant(role: usize) {
    let mut st = lock();
    st.grant[role] = true;
    ctl().cv.notify_all();
}

fn setup(n_roles: usize, mode: u8, book: Arc<ThrBook>) {
    let mut st = lock();
    st.mode = mode;
    st.at = vec![None; n_roles];
    st.grant = vec![false; n_roles];
    st.finished = vec![false; n_roles];
    st.book = Some(book);
}

fn release_all() {
    let mut st = lock();
    st.mode = 0;
    ctl().cv.notify_all();
}

// ---------------------------------------------------------------------------------------------
// wakers

struct CloserWaker {
    woken: AtomicBool,
    thread: Mutex<Option<std::thread::Thread>>,
}

impl Wake for CloserWaker {
    fn wake(self: Arc<Self>) {
        self.wake_by_ref()
    }

    fn wake_by_ref(self: &Arc<Self>) {
        self.woken.store(true, Ordering::SeqCst);
        if let Some(t) = self.thread.lock().unwrap_or_else(|e| e.into_inner()).as_ref() {
            t.unpark();
        }
        ctl().cv.notify_all();
    }
}

struct Noop;
impl Wake for Noop {
    fn wake(self: Arc<Self>) {}
}

// ---------------------------------------------------------------------------------------------
// one schedule

#[derive(Debug, Clone, PartialEq)]
enum CloserEnd {
    Some,
    None,
    Stopped,
    /// free running: neither woken nor all holders finished within the controller's patience
    TimedOut,
}

struct Threads {
    joins: Vec<(String, mpsc::Receiver<()>, std::thread::JoinHandle<()>)>,
}

impl Threads {
    /// true when every thread ended within the watchdog
    fn join_all(self) -> Result<(), String> {
        let mut bad = vec![];
        for (name, rx, j) in self.joins {
            match rx.recv_timeout(CTL_WAIT) {
                Ok(()) | Err(mpsc::RecvTimeoutError::Disconnected) => {
                    let _ = j.join();
                }
                Err(mpsc::RecvTimeoutError::Timeout) => bad.push(name),
            }
        }
        if bad.is_empty() { Ok(()) } else { Err(format!("threads {bad:?} did not end")) }
    }
}

struct Setup {
    book: Arc<ThrBook>,
    /// two task identities for the closer's future; `cur` = the one its next / latest poll uses
    wakers: [Arc<CloserWaker>; 2],
    cur: Arc<AtomicUsize>,
    stop: Arc<AtomicBool>,
    closer_end: Arc<Mutex<Option<CloserEnd>>>,
    second_take_bad: Arc<Mutex<Option<String>>>,
    threads: Threads,
}

/// roles: index 0 = closer, 1.. = holders; scripts[i] = "drop" | "take2"
fn spawn_all(
    names: &[String],
    scripts: &[&str],
    is_op: &[bool],
    steer: bool,
    delays: Option<Vec<u32>>,
    free_migrate: bool,
) -> Setup {
    let n = names.len();
    let book = Arc::new(ThrBook {
        closes: AtomicUsize::new(0),
        released: (0..n).map(|_| AtomicBool::new(false)).collect(),
        is_op: is_op.to_vec(),
        viol: Mutex::new(None),
    });
    setup(n, if steer { 1 } else { 2 }, book.clone());
    let root = unsafe { SharedFd::new_unchecked(ThrIns(book.clone())) };
    let handles: Vec<SharedFd<ThrIns>> = (1..n).map(|_| root.clone()).collect();
    let mk = || {
        Arc::new(CloserWaker {
            woken: AtomicBool::new(false),
            thread: Mutex::new(None),
        })
    };
    let wakers = [mk(), mk()];
    let cur = Arc::new(AtomicUsize::new(0));
    let stop = Arc::new(AtomicBool::new(false));
    let closer_end = Arc::new(Mutex::new(None));
    let second_take_bad = Arc::new(Mutex::new(None));
    let finished_holders = Arc::new(AtomicUsize::new(0));
    let start = Arc::new(std::sync::Barrier::new(n));
    let mut joins = vec![];
    // holders
    for (k, h) in handles.into_iter().enumerate() {
        let role = k + 1;
        let script = scripts[role].to_string();
        let (tx, rx) = mpsc::channel();
        let bad = second_take_bad.clone();
        let fin = finished_holders.clone();
        let start = start.clone();
        let delay = delays.as_ref().map(|d| d[role]).unwrap_or(0);
        let steer2 = steer;
        let j = std::thread::spawn(move || {
            ROLE.with(|r| r.set(Some(role)));
            if !steer2 {
                start.wait();
                for _ in 0..delay {
                    std::hint::spin_loop();
                }
            }
            if script == "take2" {
                let w = Waker::from(Arc::new(Noop));
                let mut cx = Context::from_waker(&w);
                let mut f = Box::pin(h.take());
                match f.as_mut().poll(&mut cx) {
                    Poll::Ready(None) => {}
                    Poll::Ready(Some(v)) => {
                        *bad.lock().unwrap_or_else(|e| e.into_inner()) = Some("second take() returned the descriptor".into());
                        drop(v);
                    }
                    Poll::Pending => {
                        // only meaningful while the controller orders the swaps (closer first)
                        let st = lock();
                        if st.mode == 1 {
                            *bad.lock().unwrap_or_else(|e| e.into_inner()) = Some("second take() is pending".into());
                        }
                        if let Some(b) = st.book.as_ref() {
                            b.released[role].store(true, Ordering::SeqCst);
                        }
                    }
                }
                drop(f);
            } else {
                drop(h);
            }
            fin.fetch_add(1, Ordering::SeqCst);
            finish_role();
            let _ = tx.send(());
        });
        joins.push((names[role].clone(), rx, j));
    }
    // closer
    {
        let (tx, rx) = mpsc::channel();
        let wfs = wakers.clone();
        let cur2 = cur.clone();
        let stop2 = stop.clone();
        let end = closer_end.clone();
        let fin = finished_holders.clone();
        let nh = n - 1;
        let start = start.clone();
        let delay = delays.as_ref().map(|d| d[0]).unwrap_or(0);
        let j = std::thread::spawn(move || {
            ROLE.with(|r| r.set(Some(0)));
            for wf in &wfs {
                *wf.thread.lock().unwrap_or_else(|e| e.into_inner()) = Some(std::thread::current());
            }
            if !steer {
                start.wait();
                for _ in 0..delay {
                    std::hint::spin_loop();
                }
            }
            let ws = [Waker::from(wfs[0].clone()), Waker::from(wfs[1].clone())];
            let mut f: Pin<Box<dyn Future<Output = Option<ThrIns>> + Send>> = Box::pin(root.take());
            let mut may_migrate = free_migrate;
            let result = loop {
                // the task that owns the future now polls it with its own waker
                let k = cur2.load(Ordering::SeqCst) & 1;
                let wf = &wfs[k];
                let mut cx = Context::from_waker(&ws[k]);
                wf.woken.store(false, Ordering::SeqCst);
                match f.as_mut().poll(&mut cx) {
                    Poll::Ready(Some(v)) => {
                        drop(v); // the close; checked against the holders' state inside
                        break CloserEnd::Some;
                    }
                    Poll::Ready(None) => break CloserEnd::None,
                    Poll::Pending => {
                        let mut steered = false;
                        if steer && lock().mode == 1 {
                            // wait for the controller's decision (pseudo site of action CRepoll)
                            park("repoll", 0);
                            if stop2.load(Ordering::SeqCst) {
                                break CloserEnd::Stopped;
                            }
                            // granted while still steering: poll again; released: run free below
                            steered = lock().mode == 1;
                        }
                        if !steered && may_migrate {
                            // free running: the pending future moves to another task once, which
                            // polls it at once with its own waker
                            may_migrate = false;
                            cur2.store(1 - k, Ordering::SeqCst);
                            continue;
                        }
                        if !steered {
                            // free running: wait for the wake-up; when every holder has finished
                            // and no wake-up has arrived none can ever arrive
                            let t0 = Instant::now();
                            let mut timed_out = false;
                            let stranded = loop {
                                if wf.woken.load(Ordering::SeqCst) {
                                    break false;
                                }
                                if stop2.load(Ordering::SeqCst) {
                                    break true;
                                }
                                if fin.load(Ordering::SeqCst) == nh {
                                    break !wf.woken.load(Ordering::SeqCst);
                                }
                                if t0.elapsed() > CTL_WAIT {
                                    timed_out = true;
                                    break true;
                                }
                                std::thread::park_timeout(Duration::from_millis(2));
                            };
                            if stranded {
                                break if timed_out { CloserEnd::TimedOut } else { CloserEnd::Stopped };
                            }
                        }
                    }
                }
            };
            drop(f);
            *end.lock().unwrap_or_else(|e| e.into_inner()) = Some(result);
            finish_role();
            let _ = tx.send(());
        });
        joins.push(("C".into(), rx, j));
    }
    Setup {
        book,
        wakers,
        cur,
        stop,
        closer_end,
        second_take_bad,
        threads: Threads { joins },
    }
}

fn sig(what: &str, extra: Value) -> Value {
    let mut m = serde_json::Map::new();
    m.insert("site".into(), json!("sharedfd"));
    m.insert("build".into(), json!("sync"));
    m.insert("what".into(), json!(what));
    if let Value::Object(o) = extra {
        for (k, v) in o {
            m.insert(k, v);
        }
    }
    Value::Object(m)
}

struct Problems(Vec<(&'static str, Value, String, usize)>);

fn contract_now(s: &Setup, p: &mut Problems, step: usize, mode: &str, ordered: bool) {
    let closes = s.book.closes.load(Ordering::SeqCst);
    if closes > 1 {
        p.0.push(("contract", sig("closed-twice", json!({"mode": mode})), format!("the descriptor was closed {closes} times"), step));
    }
    if !ordered {
        // after a divergence the roles run free (a holder calling take() may win the swap): the
        // per-holder bookkeeping no longer says who is entitled to close
        return;
    }
    if let Some(v) = s.book.viol.lock().unwrap_or_else(|e| e.into_inner()).clone() {
        p.0.push(("contract", sig("closed-while-held", json!({"mode": mode})), v, step));
    }
    if let Some(v) = s.second_take_bad.lock().unwrap_or_else(|e| e.into_inner()).clone() {
        p.0.push(("contract", sig("second-take", json!({"mode": mode})), v, step));
    }
}

fn run_schedule(case: &Value) -> (Problems, u64, u64) {
    let mut p = Problems(vec![]);
    let empty = vec![];
    let steps = case["steps"].as_array().unwrap_or(&empty);
    // roles
    let mut names: Vec<String> = vec!["C".into()];
    for st in steps {
        let r = st["r"].as_str().unwrap_or("").to_string();
        if !names.contains(&r) {
            names.push(r);
        }
    }
    let ops: Vec<String> = case["ops"].as_array().map(|a| a.iter().filter_map(|v| v.as_str().map(String::from)).collect()).unwrap_or_default();
    let is_op: Vec<bool> = names.iter().map(|n| ops.contains(n)).collect();
    let mut scripts: Vec<&str> = vec!["close"; names.len()];
    for (i, n) in names.iter().enumerate().skip(1) {
        let first = steps.iter().find(|st| st["r"] == json!(n)).map(|st| st["s"].as_str().unwrap_or("")).unwrap_or("");
        scripts[i] = if first == "fd.take.swap" { "take2" } else { "drop" };
    }
    let s = spawn_all(&names, &scripts, &is_op, true, None, false);
    let mut migrated = false;
    // strong count a role reads when it arrives at a hook: the model count after its previous step
    // (only one role runs at a time), initially the number of holders + closer
    let mut arrival: Vec<u64> = vec![names.len() as u64; names.len()];
    let mut done = 0u64;
    let mut diverged: Option<String> = None;
    let mut compared = 0u64;
    // every role first runs to its first hook: all of them see the initial state
    for role in 0..names.len() {
        if let Parked::Timeout = wait_parked(role) {
            p.0.push(("hang", sig("role-never-arrives", json!({"role": if role == 0 { "closer" } else { "holder" }, "expected": "first hook"})),
                format!("role {} did not reach its first hook within {CTL_WAIT:?}", names[role]), 0));
            diverged = Some("timeout".into());
        }
    }
    for (i, st) in steps.iter().enumerate() {
        if diverged.is_some() {
            break;
        }
        let r = st["r"].as_str().unwrap_or("");
        let site = st["s"].as_str().unwrap_or("");
        let x = &st["x"];
        let role = names.iter().position(|n| n == r).unwrap_or(0);
        match wait_parked(role) {
            Parked::At(real, b) => {
                // "migrate" = the pending future is polled with the other waker: the closer is parked at
                // the same place, the controller switches the waker before granting
                let expect_real = if site == "migrate" { "repoll" } else { site };
                if real != expect_real {
                    diverged = Some(format!("step {i}: role {r} is at {real}, the model expects {site}"));
                    break;
                }
                if site == "repoll" {
                    let k = s.cur.load(Ordering::SeqCst) & 1;
                    if !s.wakers[k].woken.load(Ordering::SeqCst) {
                        diverged = Some(format!(
                            "step {i}: the model re-polls a woken closer but the waker of its latest poll (waker {}) was not invoked",
                            k + 1
                        ));
                        break;
                    }
                } else if site == "migrate" {
                    let k = s.cur.load(Ordering::SeqCst) & 1;
                    s.cur.store(1 - k, Ordering::SeqCst);
                    migrated = true;
                } else if b != arrival[role] {
                    diverged = Some(format!("step {i}: {r} at {site} sees strong count {b}, model {}", arrival[role]));
                    break;
                } else {
                    compared += 1;
                }
            }
            Parked::Finished => {
                diverged = Some(format!("step {i}: role {r} has already finished, the model expects it at {site}"));
                break;
            }
            Parked::Timeout => {
                p.0.push(("hang", sig("role-never-arrives", json!({"role": if role == 0 { "closer" } else { "holder" }, "expected": site})),
                    format!("step {i}: role {r} did not reach {site} within {CTL_WAIT:?}"), i));
                diverged = Some("timeout".into());
                break;
            }
        }
        grant(role);
        // the atomic operation has happened when the role shows up at its next hook or has ended
        match wait_parked(role) {
            Parked::Timeout => {
                p.0.push(("hang", sig("step-never-ends", json!({"site": site})), format!("step {i}: role {r} did not get past {site} within {CTL_WAIT:?}"), i));
                diverged = Some("timeout".into());
                break;
            }
            _ => {}
        }
        done += 1;
        arrival[role] = x["count"].as_u64().unwrap_or(0);
        contract_now(&s, &mut p, i, "schedule", true);
        let closes = s.book.closes.load(Ordering::SeqCst) as u64;
        if closes != x["closed"].as_u64().unwrap_or(0) {
            diverged = Some(format!("step {i}: closes real {closes} model {}", x["closed"]));
            break;
        }
    }
    // ---- end of the schedule
    let mut strand = false;
    if diverged.is_none() {
        // every holder has finished in the model's terminal state
        for role in 1..names.len() {
            match wait_parked(role) {
                Parked::Finished => {}
                Parked::At(site, _) => {
                    diverged = Some(format!("end: holder {} is still at {site}", names[role]));
                }
                Parked::Timeout => diverged = Some(format!("end: holder {} neither parked nor finished", names[role])),
            }
        }
    }
    if diverged.is_none() {
        match wait_parked(0) {
            Parked::Finished => {
                if case["strand"] == true {
                    diverged = Some("end: the model strands the closer, the real closer finished".into());
                }
            }
            Parked::At("repoll", _) => {
                // all holders are gone (checked above): nobody is left who could wake the closer
                let k = s.cur.load(Ordering::SeqCst) & 1;
                let stale = s.wakers[1 - k].woken.load(Ordering::SeqCst);
                if s.wakers[k].woken.load(Ordering::SeqCst) {
                    diverged = Some("end: the real closer has been woken, the model says it has not".into());
                } else {
                    strand = true;
                    p.0.push((
                        "contract",
                        sig(
                            "close-never-resolves",
                            json!({"mode": "schedule", "predicted": case["strand"] == true,
                                   "take2": scripts.iter().any(|s| *s == "take2"),
                                   "repolled_with_other_waker": migrated, "stale_waker_woken": stale}),
                        ),
                        format!(
                            "every other holder has released the descriptor, the closer returned Pending and the waker given \
                             to its latest poll was never invoked{}: nobody is left to wake it, close().await never resolves",
                            if stale { " (the waker of an EARLIER poll was woken instead)" } else { "" }
                        ),
                        steps.len(),
                    ));
                    if case["strand"] != true {
                        diverged = Some("end: the real closer is stranded, the model says it completes".into());
                    }
                }
            }
            Parked::At(site, _) => diverged = Some(format!("end: closer parked at {site}")),
            Parked::Timeout => diverged = Some("end: closer neither parked nor finished".into()),
        }
    }
    // ---- wind down. Normal end: a pending closer gives up. After a divergence everybody runs
    // free and the closer waits for its wake-up like a real task would: whether close() resolves
    // is still observed (on the real code, for whatever interleaving the threads then take)
    if diverged.is_none() {
        s.stop.store(true, Ordering::SeqCst);
    }
    release_all();
    let was_diverged = diverged.is_some();
    let stop = s.stop.clone();
    let end = s.closer_end.clone();
    let joined = s.threads.join_all();
    stop.store(true, Ordering::SeqCst);
    if let Err(e) = &joined {
        p.0.push(("hang", sig("threads-do-not-end", json!({})), e.clone(), steps.len()));
    }
    if was_diverged && joined.is_ok() {
        if let Some(CloserEnd::Stopped) = end.lock().unwrap_or_else(|e| e.into_inner()).clone() {
            p.0.push((
                "contract",
                sig("close-never-resolves", json!({"mode": "after-divergence", "predicted": false})),
                "after the real code left the model's schedule the threads ran free: every holder thread has ended, the \
                 closer is pending and was never woken"
                    .into(),
                done as usize,
            ));
        }
    }
    let s2 = Setup {
        threads: Threads { joins: vec![] },
        ..s
    };
    contract_now(&s2, &mut p, steps.len(), "schedule", diverged.is_none());
    let closes = s2.book.closes.load(Ordering::SeqCst);
    if joined.is_ok() && closes != 1 {
        p.0.push(("contract", sig("leaked", json!({"mode": "schedule"})), format!("all handles and the future are gone, closes = {closes}"), steps.len()));
    }
    if let Some(d) = diverged {
        if d != "timeout" {
            p.0.push(("mismatch", sig("divergence", json!({})), d, done as usize));
        }
    }
    let _ = strand;
    (p, done, compared)
}

// ---------------------------------------------------------------------------------------------
// free-running stress

fn run_stress(iter: u64, rng: &mut StdRng) -> (Problems, Value) {
    let mut p = Problems(vec![]);
    let n_holders = rng.random_range(1..=3usize);
    let mut names = vec!["C".to_string()];
    let mut scripts = vec!["close"];
    let mut is_op = vec![false];
    for i in 0..n_holders {
        names.push(format!("h{}", i + 1));
        // drops only: with free-running threads a holder calling take() could win the swap and
        // become the closer (the second-take interleavings are covered by the steered schedules)
        scripts.push("drop");
        is_op.push(rng.random_range(0..3) == 0);
    }
    let delays: Vec<u32> = (0..names.len()).map(|_| if rng.random_range(0..3) == 0 { 0 } else { rng.random_range(0..400) }).collect();
    // in a third of the iterations the pending close future moves to another task (other waker)
    let migrate = rng.random_range(0..3) == 0;
    let case = json!({"mode": "stress", "iter": iter, "scripts": scripts, "delays": delays, "migrate": migrate});
    let s = spawn_all(&names, &scripts, &is_op, false, Some(delays), migrate);
    let joined = s.threads.join_all();
    release_all();
    let s2 = Setup {
        threads: Threads { joins: vec![] },
        ..s
    };
    if let Err(e) = &joined {
        p.0.push(("hang", sig("threads-do-not-end", json!({"mode": "stress"})), e.clone(), 0));
        return (p, case);
    }
    contract_now(&s2, &mut p, 0, "stress", true);
    let end = s2.closer_end.lock().unwrap_or_else(|e| e.into_inner()).clone();
    let any_take2 = scripts.iter().any(|s| *s == "take2");
    match end {
        Some(CloserEnd::Some) => {}
        Some(CloserEnd::None) => {
            if !any_take2 {
                p.0.push(("contract", sig("first-take-none", json!({"mode": "stress"})), "the only take() returned None".into(), 0));
            }
        }
        Some(CloserEnd::Stopped) => {
            p.0.push((
                "contract",
                sig("close-never-resolves", json!({"mode": "stress"})),
                "free-running threads: every holder thread has ended, the closer is pending and was never woken".into(),
                0,
            ));
        }
        Some(CloserEnd::TimedOut) => {
            p.0.push(("hang", sig("holders-never-finish", json!({"mode": "stress"})), "the holder threads did not end".into(), 0));
        }
        None => {}
    }
    let closes = s2.book.closes.load(Ordering::SeqCst);
    if closes != 1 {
        p.0.push(("contract", sig("leaked", json!({"mode": "stress"})), format!("all handles and the future are gone, closes = {closes}"), 0));
    }
    (p, case)
}

pub fn main() {
    hcore::out::silence_panics();
    let args: Vec<String> = std::env::args().collect();
    let mut stress = 0u64;
    let mut seed = 1u64;
    let mut i = 2;
    while i < args.len() {
        match args[i].as_str() {
            "--stress" => {
                stress = args.get(i + 1).and_then(|s| s.parse().ok()).unwrap_or(0);
                i += 1;
            }
            "--seed" => {
                seed = args.get(i + 1).and_then(|s| s.parse().ok()).unwrap_or(1);
                i += 1;
            }
            _ => {}
        }
        i += 1;
    }
    compio_log::verif::set_sink(Some(sink));
    let mut rep = Report::new();
    let cur = Arc::new(Mutex::new(Value::Null));
    let cur2 = cur.clone();
    let wd = util::ProcWatchdog::start(Duration::from_secs(90), move |label| {
        let case = cur2.lock().map(|g| g.clone()).unwrap_or(Value::Null);
        println!(
            "{}",
            json!({"type": "hang", "sig": {"site": "sharedfd", "build": "sync", "what": "harness-watchdog"},
                   "desc": format!("no progress for 90 s in {label}"), "case": case, "step": 0})
        );
        println!(
            "{}",
            json!({"type": "summary", "cases": 0, "steps": 0, "aborted": true,
                   "problems": [{"type": "hang", "sig": {"site": "sharedfd", "build": "sync", "what": "harness-watchdog"}, "count": 1}]})
        );
        let _ = std::io::stdout().flush();
    });
    let mut compared = 0u64;
    let mut strands = 0u64;
    for case in cases_from_arg() {
        rep.cases += 1;
        wd.beat(&format!("schedule {}", rep.cases));
        if let Ok(mut g) = cur.lock() {
            *g = case.clone();
        }
        let (p, done, cmp) = run_schedule(&case);
        rep.steps += done;
        compared += cmp;
        for (ty, sg, desc, step) in p.0 {
            if ty == "contract" && sg["what"] == "close-never-resolves" {
                strands += 1;
            }
            rep.problem(ty, sg, desc, &case, step);
        }
    }
    let mut rng = StdRng::seed_from_u64(seed);
    let mut stress_strands = 0u64;
    for it in 0..stress {
        wd.beat(&format!("stress {it}"));
        let (p, case) = run_stress(it, &mut rng);
        for (ty, sg, desc, step) in p.0 {
            if sg["what"] == "close-never-resolves" {
                stress_strands += 1;
            }
            rep.problem(ty, sg, desc, &case, step);
        }
    }
    compio_log::verif::set_sink(None);
    rep.set("count_comparisons", json!(compared));
    rep.set("schedule_strands", json!(strands));
    rep.set("stress_iterations", json!(stress));
    rep.set("stress_strands", json!(stress_strands));
    rep.finish();
}
