//! Event recorder installed into the hook sink `compio_log::verif`.
//!
//! Every event gets a sequence number under one lock (never wall-clock). Hook events carry
//! raw pointers / fds; the harness maps them to small operation names before writing traces.
use std::sync::{Mutex, OnceLock};

#[derive(Clone, Debug)]
pub struct RawEvent {
    pub seq: u64,
    pub site: &'static str,
    pub a: u64,
    pub b: u64,
    pub main: bool,
}

struct State {
    events: Vec<RawEvent>,
    seq: u64,
}

static REC: OnceLock<Mutex<State>> = OnceLock::new();
static MAIN: OnceLock<std::thread::ThreadId> = OnceLock::new();

fn state() -> &'static Mutex<State> {
    REC.get_or_init(|| {
        Mutex::new(State {
            events: Vec::new(),
            seq: 0,
        })
    })
}

fn sink(site: &'static str, a: u64, b: u64) {
    push(site, a, b);
}

/// Record one event (hooks come through `sink`, harness events call this directly).
pub fn push(site: &'static str, a: u64, b: u64) {
    let main = MAIN.get().map(|m| *m == std::thread::current().id()).unwrap_or(false);
    let mut s = state().lock().unwrap_or_else(|e| e.into_inner());
    s.seq += 1;
    let seq = s.seq;
    s.events.push(RawEvent {
        seq,
        site,
        a,
        b,
        main,
    });
}

/// Install the recorder; the calling thread is the "main" (driver) thread.
pub fn install() {
    let _ = MAIN.set(std::thread::current().id());
    compio_log::verif::set_sink(Some(sink));
}

/// Number of events recorded so far.
pub fn mark() -> usize {
    state().lock().unwrap_or_else(|e| e.into_inner()).events.len()
}

/// Events recorded since `mark`.
pub fn since(mark: usize) -> Vec<RawEvent> {
    let s = state().lock().unwrap_or_else(|e| e.into_inner());
    s.events[mark.min(s.events.len())..].to_vec()
}

/// Drop everything recorded so far (between behaviours).
pub fn clear() {
    let mut s = state().lock().unwrap_or_else(|e| e.into_inner());
    s.events.clear();
}

/// Wait until an event satisfying `pred` has been recorded after `mark` (watchdog in ms).
pub fn wait_for(mark: usize, ms: u64, pred: impl Fn(&RawEvent) -> bool) -> bool {
    let t0 = std::time::Instant::now();
    loop {
        if since(mark).iter().any(&pred) {
            return true;
        }
        if t0.elapsed().as_millis() as u64 > ms {
            return false;
        }
        std::thread::sleep(std::time::Duration::from_micros(200));
    }
}
