fn main() {
    hfd::prod::main()
}
