// scratch probe (to be deleted)
use std::{ffi::CString, os::fd::AsRawFd, os::unix::net::{UnixListener, UnixStream}, task::{Context, Poll, Wake, Waker}, sync::{Arc, atomic::{AtomicUsize, Ordering}}, future::Future, pin::pin, time::Duration};
use compio_driver::{SharedFd, Proactor, DriverType, PushEntry, op::Accept};

fn fds() -> Vec<i32> {
    let mut v: Vec<i32> = std::fs::read_dir("/proc/self/fd").unwrap().filter_map(|e| e.ok()?.file_name().to_str()?.parse().ok()).collect();
    v.sort(); v
}
struct CW(AtomicUsize);
impl Wake for CW { fn wake(self: Arc<Self>) { self.0.fetch_add(1, Ordering::SeqCst); } }
struct Ins(Arc<AtomicUsize>);
impl Drop for Ins { fn drop(&mut self) { self.0.fetch_add(1, Ordering::SeqCst); } }

fn main() {
    // 1. second take silent strand
    let closes = Arc::new(AtomicUsize::new(0));
    let a = unsafe { SharedFd::new_unchecked(Ins(closes.clone())) };
    let b = a.clone();
    let cw = Arc::new(CW(AtomicUsize::new(0)));
    let w = Waker::from(cw.clone());
    let mut cx = Context::from_waker(&w);
    let mut fa = pin!(a.take());
    println!("first poll A: {:?}", fa.as_mut().poll(&mut cx).is_ready());
    {
        let mut fb = pin!(b.take());
        match fb.as_mut().poll(&mut cx) { Poll::Ready(r) => println!("B take -> {:?}", r.is_some()), Poll::Pending => println!("B pending") }
    }
    println!("wakes after B released: {}", cw.0.load(Ordering::SeqCst));
    println!("A repoll (spurious): ready={:?} closes={}", fa.as_mut().poll(&mut cx).map(|r| r.is_some()), closes.load(Ordering::SeqCst));

    // 2. iour driver drop with completed accept
    for ty in [DriverType::IoUring, DriverType::Poll] {
        let dir = std::env::temp_dir().join(format!("c06probe{}", std::process::id()));
        let _ = std::fs::remove_file(&dir);
        let before = fds();
        {
            let l = UnixListener::bind(&dir).unwrap();
            let mut d = Proactor::builder().driver_type(ty).build().unwrap();
            let sl = SharedFd::new(l);
            d.attach(sl.as_raw_fd()).unwrap();
            let k = match d.push(Accept::new(sl.clone())) { PushEntry::Pending(k) => k, PushEntry::Ready(_) => panic!("ready") };
            let _ = d.poll(Some(Duration::ZERO));
            let c = UnixStream::connect(&dir).unwrap();
            let _ = unsafe { libc::getpid() };
            drop(d);
            drop(k);
            drop(c);
            drop(sl);
        }
        let _ = std::fs::remove_file(&dir);
        let after = fds();
        println!("{:?}: before {:?} after {:?}", ty, before, after);
    }
    let _ = CString::new("x");
}
