fn main() {
    hfd::replay::main()
}
