//! Shared helpers of the C06 harness: descriptor table, instrumented owner type, flag waker.
use std::{
    collections::BTreeSet,
    sync::{
        Arc,
        atomic::{AtomicBool, AtomicU64, AtomicUsize, Ordering},
    },
    task::{Wake, Waker},
    time::{Duration, Instant},
};

/// Generous watchdog for everything that waits on another thread / the kernel (loaded machine).
pub const WATCHDOG: Duration = Duration::from_secs(10);

/// The open descriptors of this process (the directory handle used for listing excluded).
pub fn fd_table() -> BTreeSet<i32> {
    let mut out = BTreeSet::new();
    let dir = match std::fs::read_dir("/proc/self/fd") {
        Ok(d) => d,
        Err(_) => return out,
    };
    let mut names = vec![];
    for e in dir.flatten() {
        if let Some(n) = e.file_name().to_str().and_then(|s| s.parse::<i32>().ok()) {
            names.push(n);
        }
    }
    // the read_dir handle itself is closed by now: keep only descriptors that still exist
    for n in names {
        if fd_open(n) {
            out.insert(n);
        }
    }
    out
}

pub fn fd_open(fd: i32) -> bool {
    unsafe { libc::fcntl(fd, libc::F_GETFD) != -1 }
}

/// What a descriptor is (for reports).
pub fn fd_desc(fd: i32) -> String {
    std::fs::read_link(format!("/proc/self/fd/{fd}"))
        .map(|p| p.display().to_string())
        .unwrap_or_else(|_| "?".into())
}

/// Compare with a baseline; descriptors that appeared. `settle`: re-check for a while (used only
/// where another thread closes asynchronously).
pub fn leaked_since(base: &BTreeSet<i32>, settle: Duration) -> Vec<i32> {
    let t0 = Instant::now();
    loop {
        let now = fd_table();
        let extra: Vec<i32> = now.difference(base).copied().collect();
        if extra.is_empty() || t0.elapsed() >= settle {
            return extra;
        }
        std::thread::sleep(Duration::from_millis(5));
    }
}

/// Book-keeping shared by all handles of one instrumented descriptor.
#[derive(Default)]
pub struct Book {
    /// number of times the owned value was dropped (= close)
    pub closes: AtomicUsize,
    /// holders (handles + operations) that have NOT finished releasing; maintained by the harness
    pub holders: AtomicUsize,
    /// holders of kind "operation in flight"
    pub ops: AtomicUsize,
    /// set by `Instrumented::drop` when it ran while `holders` / `ops` was non-zero
    pub closed_while_held: AtomicUsize,
    pub closed_while_op: AtomicUsize,
}

/// The owned "descriptor": its Drop is the close.
pub struct Instrumented(pub Arc<Book>);

impl Drop for Instrumented {
    fn drop(&mut self) {
        self.0.closes.fetch_add(1, Ordering::SeqCst);
        let h = self.0.holders.load(Ordering::SeqCst);
        if h != 0 {
            self.0.closed_while_held.fetch_add(h, Ordering::SeqCst);
        }
        let o = self.0.ops.load(Ordering::SeqCst);
        if o != 0 {
            self.0.closed_while_op.fetch_add(o, Ordering::SeqCst);
        }
    }
}

/// A waker that records that it was invoked.
#[derive(Default)]
pub struct FlagWaker {
    pub woken: AtomicBool,
    pub count: AtomicU64,
}

impl Wake for FlagWaker {
    fn wake(self: Arc<Self>) {
        self.wake_by_ref()
    }

    fn wake_by_ref(self: &Arc<Self>) {
        self.count.fetch_add(1, Ordering::SeqCst);
        self.woken.store(true, Ordering::SeqCst);
    }
}

impl FlagWaker {
    pub fn new() -> (Arc<Self>, Waker) {
        let f = Arc::new(Self::default());
        (f.clone(), Waker::from(f))
    }

    pub fn take(&self) -> bool {
        self.woken.swap(false, Ordering::SeqCst)
    }

    pub fn is_set(&self) -> bool {
        self.woken.load(Ordering::SeqCst)
    }
}

/// Process-level watchdog: a blocking call of the code under test cannot be interrupted, so a
/// helper thread reports the current case as a hang and ends the process (exit code 0 with a
/// summary, the check turns the `hang` line into a finding).
pub struct ProcWatchdog {
    beat: Arc<AtomicU64>,
    label: Arc<std::sync::Mutex<String>>,
}

impl ProcWatchdog {
    pub fn start(limit: Duration, on_hang: impl Fn(&str) + Send + 'static) -> Self {
        let beat = Arc::new(AtomicU64::new(0));
        let label = Arc::new(std::sync::Mutex::new(String::new()));
        let (b, l) = (beat.clone(), label.clone());
        std::thread::spawn(move || {
            let mut last = b.load(Ordering::SeqCst);
            let mut since = Instant::now();
            loop {
                std::thread::sleep(Duration::from_millis(200));
                let now = b.load(Ordering::SeqCst);
                if now != last {
                    last = now;
                    since = Instant::now();
                } else if since.elapsed() > limit {
                    let s = l.lock().map(|g| g.clone()).unwrap_or_default();
                    on_hang(&s);
                    std::process::exit(0);
                }
            }
        });
        Self { beat, label }
    }

    pub fn beat(&self, what: &str) {
        if let Ok(mut g) = self.label.lock() {
            g.clear();
            g.push_str(what);
        }
        self.beat.fetch_add(1, Ordering::SeqCst);
    }
}
