//! C06, part 2: descriptor-producing operations through the raw Proactor API, cancelled / dropped
//! at every moment (programs of spec/Gen_SharedFdProd.tla), descriptor table of the process
//! compared before and after every program.
//!
//! usage: fd_prod <programs.jsonl>
//!
//! A program is {driver, class, leaks, steps:[{a, x}]}: a = push | trigger | poll | cancel | pop |
//! popmulti | dropkey | dropdrv | calldrop; x = model state after the step (own[i] = owner of the
//! i-th produced descriptor, hasres, ukey ...). Every program runs once per concrete operation of
//! its class: accept -> Accept on a unix and on a tcp listener; imm -> OpenFile, CreateSocket,
//! Pipe; multi -> AcceptMulti on a unix listener.
//! Contract (independent of the model): after everything has been let go the descriptor table is
//! what it was before the program; everything handed to the caller is an open descriptor.
//! Binding: push ready / cancel returns the result / pop ready / pop_multishot yields / number of
//! descriptors the caller holds, compared with the model after every step.
use std::{
    collections::BTreeSet,
    ffi::CString,
    io::Write as _,
    os::fd::{AsRawFd, FromRawFd, OwnedFd},
    panic::{AssertUnwindSafe, catch_unwind},
    sync::Arc,
    task::Waker,
    time::{Duration, Instant},
};

use compio_buf::{BufResult, IntoInner};
use compio_driver::{
    DriverType, Key, OpCode, Proactor, PushEntry, SharedFd,
    op::{Accept, AcceptMulti, CreateSocket, CurrentDir, Mode, OFlags, OpenFile, Pipe},
};
use hcore::out::{Report, cases_from_arg, panic_msg};
use serde_json::{Value, json};
use socket2::Socket as Socket2;

use crate::{
    rec,
    util::{self, FlagWaker, WATCHDOG},
};

/// How a concrete operation is made and how its result is turned into owned descriptors.
trait Kind {
    type Op: OpCode + 'static;
    const NAME: &'static str;
    fn make(env: &Env) -> Self::Op;
    /// the caller takes the descriptors out of a successfully completed op
    fn deliver(op: Self::Op) -> Vec<OwnedFd>;
}

struct Env {
    listener: Option<SharedFd<Socket2>>,
    addr: Option<socket2::SockAddr>,
    path: Option<std::path::PathBuf>,
    file: std::path::PathBuf,
}

struct AccUnix;
struct AccTcp;
struct Open;
struct Sock;
struct MkPipe;
struct Multi;

impl Kind for AccUnix {
    type Op = Accept<SharedFd<Socket2>>;

    const NAME: &'static str = "accept_unix";

    fn make(env: &Env) -> Self::Op {
        Accept::new(env.listener.clone().unwrap())
    }

    fn deliver(op: Self::Op) -> Vec<OwnedFd> {
        vec![op.into_inner().0.into()]
    }
}

impl Kind for AccTcp {
    type Op = Accept<SharedFd<Socket2>>;

    const NAME: &'static str = "accept_tcp";

    fn make(env: &Env) -> Self::Op {
        Accept::new(env.listener.clone().unwrap())
    }

    fn deliver(op: Self::Op) -> Vec<OwnedFd> {
        vec![op.into_inner().0.into()]
    }
}

impl Kind for Open {
    type Op = OpenFile<CurrentDir>;

    const NAME: &'static str = "open";

    fn make(env: &Env) -> Self::Op {
        OpenFile::new(
            CurrentDir,
            CString::new(env.file.to_str().unwrap()).unwrap(),
            OFlags::RDONLY | OFlags::CLOEXEC,
            Mode::from_bits_retain(0o600),
        )
    }

    fn deliver(op: Self::Op) -> Vec<OwnedFd> {
        vec![op.into_inner()]
    }
}

impl Kind for Sock {
    type Op = CreateSocket;

    const NAME: &'static str = "socket";

    fn make(_: &Env) -> Self::Op {
        CreateSocket::new(libc::AF_INET, libc::SOCK_STREAM, 0)
    }

    fn deliver(op: Self::Op) -> Vec<OwnedFd> {
        vec![op.into_inner().into()]
    }
}

impl Kind for MkPipe {
    type Op = Pipe;

    const NAME: &'static str = "pipe";

    fn make(_: &Env) -> Self::Op {
        Pipe::new()
    }

    fn deliver(op: Self::Op) -> Vec<OwnedFd> {
        let (a, b) = op.into_inner();
        vec![a, b]
    }
}

impl Kind for Multi {
    type Op = AcceptMulti<SharedFd<Socket2>>;

    const NAME: &'static str = "acceptmulti_unix";

    fn make(env: &Env) -> Self::Op {
        AcceptMulti::new(env.listener.clone().unwrap())
    }

    fn deliver(op: Self::Op) -> Vec<OwnedFd> {
        // the final result of a multishot accept is its cancellation: nothing to take out; the op
        // (with whatever is still queued in it) is simply dropped by the caller
        drop(op);
        vec![]
    }
}

struct Out {
    problems: Vec<(&'static str, Value, String, usize)>,
    steps: u64,
    late: u64,
}

fn count_own(x: &Value, who: &str) -> usize {
    x["own"].as_array().map(|a| a.iter().filter(|v| v.as_str() == Some(who)).count()).unwrap_or(0)
}

fn sig(driver: &str, kind: &str, what: &str, extra: Value) -> Value {
    let mut m = serde_json::Map::new();
    m.insert("site".into(), json!("producer"));
    m.insert("driver".into(), json!(driver));
    m.insert("kind".into(), json!(kind));
    m.insert("what".into(), json!(what));
    if let Value::Object(o) = extra {
        for (k, v) in o {
            m.insert(k, v);
        }
    }
    Value::Object(m)
}

fn poll_once(d: &mut Proactor, t: Duration) {
    let _ = d.poll(Some(t));
}

/// Wait (polling the driver) until the key's waker has been invoked.
fn catch_up(d: &mut Proactor, flag: &FlagWaker, late: &mut u64) -> bool {
    if flag.is_set() {
        return true;
    }
    *late += 1;
    let t0 = Instant::now();
    while !flag.is_set() && t0.elapsed() < WATCHDOG {
        poll_once(d, Duration::from_millis(10));
    }
    flag.is_set()
}

fn run_kind<K: Kind>(case: &Value, drv_name: &str) -> Out {
    let mut out = Out {
        problems: vec![],
        steps: 0,
        late: 0,
    };
    let name = K::NAME;
    let base: BTreeSet<i32> = util::fd_table();
    let is_multi = name.starts_with("acceptmulti");
    let pid = std::process::id();
    // ---- environment: listener / file (harness-owned descriptors, dropped before the final compare)
    let mut env = Env {
        listener: None,
        addr: None,
        path: None,
        file: std::env::temp_dir().join(format!("c06_prod_{pid}.dat")),
    };
    if !env.file.exists() {
        let _ = std::fs::write(&env.file, b"x");
    }
    if name.contains("unix") {
        let p = std::env::temp_dir().join(format!("c06_prod_{pid}.sock"));
        let _ = std::fs::remove_file(&p);
        let l = Socket2::new(socket2::Domain::UNIX, socket2::Type::STREAM, None).unwrap();
        let addr = socket2::SockAddr::unix(&p).unwrap();
        l.bind(&addr).unwrap();
        l.listen(8).unwrap();
        l.set_nonblocking(true).unwrap();
        env.listener = Some(SharedFd::new(l));
        env.addr = Some(addr);
        env.path = Some(p);
    } else if name.contains("tcp") {
        let l = Socket2::new(socket2::Domain::IPV4, socket2::Type::STREAM, None).unwrap();
        let any: std::net::SocketAddr = "127.0.0.1:0".parse().unwrap();
        l.bind(&any.into()).unwrap();
        l.listen(8).unwrap();
        l.set_nonblocking(true).unwrap();
        env.addr = Some(l.local_addr().unwrap());
        env.listener = Some(SharedFd::new(l));
    }
    let ty = if drv_name == "poll" { DriverType::Poll } else { DriverType::IoUring };
    let mut drv: Option<Proactor> = match Proactor::builder().driver_type(ty).build() {
        Ok(d) => Some(d),
        Err(e) => {
            out.problems.push(("mismatch", sig(drv_name, name, "setup-failed", json!({})), e.to_string(), 0));
            return out;
        }
    };
    if let (Some(d), Some(l)) = (drv.as_mut(), env.listener.as_ref()) {
        let _ = d.attach(l.as_raw_fd());
    }
    let mut key: Option<Key<K::Op>> = None;
    let mut caller: Vec<OwnedFd> = vec![];
    let mut caller_ops: Vec<K::Op> = vec![];
    let mut clients: Vec<Socket2> = vec![];
    let (flag, waker): (Arc<FlagWaker>, Waker) = FlagWaker::new();
    let mut final_seen = false; // the final result has been observed by the harness
    let mut pushed = false;
    let mut drvdrop_inflight = false;
    let mut dispatched = false;
    let empty = vec![];
    let steps = case["steps"].as_array().unwrap_or(&empty);
    let mut prev_ncaller = 0usize;
    for (i, st) in steps.iter().enumerate() {
        out.steps += 1;
        let a = st["a"].as_str().unwrap_or("");
        let x = &st["x"];
        let mut diffs: Vec<String> = vec![];
        match a {
            "push" => {
                let d = drv.as_mut().unwrap();
                let blocking_mark = rec::mark();
                let op = K::make(&env);
                match d.push(op) {
                    PushEntry::Pending(k) => {
                        d.update_waker(&k, &waker);
                        key = Some(k);
                        if count_own(x, "caller") > prev_ncaller {
                            diffs.push("push is pending, the model completes it at once".into());
                        }
                    }
                    PushEntry::Ready(BufResult(res, op)) => {
                        final_seen = true;
                        match res {
                            Ok(_) => caller.extend(K::deliver(op)),
                            Err(e) => diffs.push(format!("push completed with {e}")),
                        }
                        if count_own(x, "caller") == prev_ncaller {
                            diffs.push("push completed at once, the model keeps it pending".into());
                        }
                    }
                }
                pushed = true;
                // thread-pool operations: eager pool, wait until the job has run
                if rec::since(blocking_mark).iter().any(|e| e.site == "blocking.dispatch") {
                    dispatched = true;
                    if !rec::wait_for(blocking_mark, WATCHDOG.as_millis() as u64, |e| e.site == "blocking.done") {
                        out.problems.push(("hang", sig(drv_name, name, "pool-job-never-ran", json!({})), "the thread-pool job did not run".into(), i));
                    }
                }
            }
            "trigger" => {
                let addr = env.addr.as_ref().unwrap();
                let c = if name.contains("unix") {
                    Socket2::new(socket2::Domain::UNIX, socket2::Type::STREAM, None).unwrap()
                } else {
                    Socket2::new(socket2::Domain::IPV4, socket2::Type::STREAM, None).unwrap()
                };
                if let Err(e) = c.connect(addr) {
                    diffs.push(format!("connect: {e}"));
                }
                clients.push(c);
                // io_uring runs the completion as task work of this thread on its next return from
                // the kernel: make sure there is one
                unsafe { libc::syscall(libc::SYS_getpid) };
            }
            "poll" => {
                let d = drv.as_mut().unwrap();
                let was = flag.take();
                poll_once(d, Duration::ZERO);
                // eager kernel: when the model sees a completion in this poll, wait for it
                let model_new = x["hasres"] == true && !final_seen
                    || (is_multi && count_own(x, "op") > 0 && count_own(&steps[i - 1]["x"], "op") < count_own(x, "op"));
                if model_new && key.is_some() && !flag.is_set() && !was {
                    catch_up(d, &flag, &mut out.late);
                }
                if was {
                    flag.woken.store(true, std::sync::atomic::Ordering::SeqCst);
                }
            }
            "cancel" => {
                let d = drv.as_mut().unwrap();
                let k = key.take().unwrap();
                let model_some = steps[i - 1]["x"]["hasres"] == true && steps[i - 1]["x"]["dkey"] == false;
                if model_some && !final_seen {
                    // the model's poll has stored the result: let the real driver get there
                    catch_up(d, &flag, &mut out.late);
                }
                match d.cancel(k) {
                    Some(BufResult(res, op)) => {
                        final_seen = true;
                        if !model_some {
                            diffs.push("cancel handed the result back, the model does not".into());
                        }
                        match res {
                            Ok(_) if !is_multi => caller.extend(K::deliver(op)),
                            _ => caller_ops.push(op),
                        }
                    }
                    None => {
                        if model_some {
                            diffs.push("cancel did not hand the result back, the model does".into());
                        }
                    }
                }
            }
            "pop" => {
                let d = drv.as_mut().unwrap();
                let mut k = key.take().unwrap();
                let t0 = Instant::now();
                loop {
                    match d.pop(k) {
                        PushEntry::Ready(BufResult(res, op)) => {
                            final_seen = true;
                            match res {
                                Ok(_) if !is_multi => caller.extend(K::deliver(op)),
                                _ => caller_ops.push(op),
                            }
                            break;
                        }
                        PushEntry::Pending(kk) => {
                            k = kk;
                            if t0.elapsed() > WATCHDOG {
                                out.problems.push((
                                    "hang",
                                    sig(drv_name, name, "result-never-arrives", json!({})),
                                    "pop: the completed operation's result did not arrive".into(),
                                    i,
                                ));
                                key = Some(k);
                                break;
                            }
                            out.late += 1;
                            poll_once(d, Duration::from_millis(10));
                        }
                    }
                }
            }
            "popmulti" => {
                let d = drv.as_mut().unwrap();
                let k = key.as_ref().unwrap();
                let t0 = Instant::now();
                loop {
                    match d.pop_multishot(k) {
                        Some(BufResult(Ok(fd), _)) => {
                            caller.push(unsafe { OwnedFd::from_raw_fd(fd as i32) });
                            break;
                        }
                        Some(BufResult(Err(e), _)) => {
                            diffs.push(format!("pop_multishot: {e}"));
                            break;
                        }
                        None => {
                            if t0.elapsed() > WATCHDOG {
                                diffs.push("pop_multishot yields nothing, the model has a queued descriptor".into());
                                break;
                            }
                            out.late += 1;
                            poll_once(d, Duration::from_millis(10));
                        }
                    }
                }
            }
            "dropkey" => {
                drop(key.take());
            }
            "dropdrv" => {
                if pushed && !final_seen && !(flag.is_set() && !is_multi) {
                    drvdrop_inflight = true;
                }
                drop(drv.take());
            }
            "calldrop" => {
                caller.clear();
                caller_ops.clear();
            }
            other => diffs.push(format!("unknown action {other}")),
        }
        // everything the caller holds is an open descriptor
        for fd in &caller {
            if !util::fd_open(fd.as_raw_fd()) {
                out.problems.push((
                    "contract",
                    sig(drv_name, name, "delivered-descriptor-not-open", json!({})),
                    format!("descriptor {} handed to the caller is not open", fd.as_raw_fd()),
                    i,
                ));
            }
        }
        // binding: descriptors in the caller's hands
        let want = count_own(x, "caller");
        let per = if name == "pipe" { 2 } else { 1 };
        let have = caller.len() / per;
        if !is_multi && have != want && caller_ops.is_empty() {
            diffs.push(format!("caller holds {have} produced descriptors, model {want}"));
        }
        if is_multi && a == "popmulti" && have != want {
            diffs.push(format!("caller holds {have} produced descriptors, model {want}"));
        }
        prev_ncaller = want;
        if !diffs.is_empty() {
            out.problems.push(("mismatch", sig(drv_name, name, "step", json!({"a": a})), format!("step {i} {a}: {}", diffs.join("; ")), i));
            break;
        }
    }
    // ---- the program is over: let go of everything, then compare the descriptor table
    drop(key.take());
    if pushed && !final_seen && drv.is_some() && !(flag.is_set() && !is_multi) {
        drvdrop_inflight = true;
    }
    drop(drv.take());
    caller.clear();
    caller_ops.clear();
    clients.clear();
    env.listener = None;
    if let Some(p) = env.path.take() {
        let _ = std::fs::remove_file(p);
    }
    // pool jobs hand their result (an owned value) back from another thread
    let settle = if dispatched || drv_name == "poll" { Duration::from_millis(1500) } else { Duration::ZERO };
    let left = util::leaked_since(&base, settle);
    if !left.is_empty() {
        let desc: Vec<String> = left.iter().map(|fd| format!("{fd}:{}", util::fd_desc(*fd))).collect();
        let predicted = case["leaks"].as_u64().unwrap_or(0) > 0;
        out.problems.push((
            "contract",
            sig(
                drv_name,
                name,
                "leaked",
                json!({"cause": if drvdrop_inflight { "driver-dropped-with-unreaped-completion" } else { "other" }, "predicted": predicted}),
            ),
            format!(
                "after the operation, its key, the driver and everything delivered were dropped the process still has {} more \
                 descriptor(s) than before: {desc:?} (program: {:?})",
                left.len(),
                steps.iter().map(|s| s["a"].as_str().unwrap_or("")).collect::<Vec<_>>()
            ),
            steps.len(),
        ));
        for fd in &left {
            unsafe { libc::close(*fd) };
        }
    }
    let leaks_model = case["leaks"].as_u64().unwrap_or(0) as usize;
    let per = if name == "pipe" { 2 } else { 1 };
    if left.len() != leaks_model * per && out.problems.iter().all(|p| p.0 != "mismatch") {
        out.problems.push((
            "mismatch",
            sig(drv_name, name, "leak-count", json!({})),
            format!("descriptors left over: real {}, model {}", left.len(), leaks_model * per),
            steps.len(),
        ));
    }
    out
}

pub fn main() {
    hcore::out::silence_panics();
    rec::install();
    let mut rep = Report::new();
    let cur = Arc::new(std::sync::Mutex::new(Value::Null));
    let cur2 = cur.clone();
    let wd = util::ProcWatchdog::start(Duration::from_secs(60), move |label| {
        let case = cur2.lock().map(|g| g.clone()).unwrap_or(Value::Null);
        println!(
            "{}",
            json!({"type": "hang", "sig": {"site": "producer", "what": "harness-watchdog"}, "desc": format!("no progress for 60 s in {label}"), "case": case, "step": 0})
        );
        println!(
            "{}",
            json!({"type": "summary", "cases": 0, "steps": 0, "aborted": true,
                   "problems": [{"type": "hang", "sig": {"site": "producer", "what": "harness-watchdog"}, "count": 1}]})
        );
        let _ = std::io::stdout().flush();
    });
    let mut late = 0u64;
    let mut runs = 0u64;
    let mut per_kind = std::collections::BTreeMap::<String, u64>::new();
    for case in cases_from_arg() {
        rep.cases += 1;
        let driver = case["driver"].as_str().unwrap_or("iour").to_string();
        let class = case["class"].as_str().unwrap_or("").to_string();
        let kinds: &[&str] = match class.as_str() {
            "accept" => &["accept_unix", "accept_tcp"],
            "imm" => &["open", "socket", "pipe"],
            "multi" => &["acceptmulti_unix"],
            _ => &[],
        };
        for k in kinds {
            wd.beat(&format!("program {} kind {k} driver {driver}", rep.cases));
            rec::clear();
            let mut c = case.clone();
            c["kind"] = json!(k);
            if let Ok(mut g) = cur.lock() {
                *g = c.clone();
            }
            let r = catch_unwind(AssertUnwindSafe(|| match *k {
                "accept_unix" => run_kind::<AccUnix>(&case, &driver),
                "accept_tcp" => run_kind::<AccTcp>(&case, &driver),
                "open" => run_kind::<Open>(&case, &driver),
                "socket" => run_kind::<Sock>(&case, &driver),
                "pipe" => run_kind::<MkPipe>(&case, &driver),
                _ => run_kind::<Multi>(&case, &driver),
            }));
            runs += 1;
            *per_kind.entry(format!("{driver}/{k}")).or_insert(0) += 1;
            match r {
                Ok(o) => {
                    rep.steps += o.steps;
                    late += o.late;
                    for (ty, sg, desc, step) in o.problems {
                        rep.problem(ty, sg, desc, &c, step);
                    }
                }
                Err(e) => rep.problem(
                    "panic",
                    json!({"site": "producer", "driver": driver, "kind": k, "what": "panic"}),
                    panic_msg(e),
                    &c,
                    0,
                ),
            }
        }
    }
    let _ = std::fs::remove_file(std::env::temp_dir().join(format!("c06_prod_{}.dat", std::process::id())));
    rep.set("program_runs", json!(runs));
    rep.set("per_kind", json!(per_kind));
    rep.set("late_completions_waited_for", json!(late));
    rep.finish();
}
