//! C06: replay of the sequential (single-threaded) SharedFd programs of spec/Gen_SharedFd.tla.
//!
//! usage: fd_replay[_sync] <programs.jsonl> <subject> [driver]
//!   subject = ins                      SharedFd<Instrumented> (Drop of the owned value counts closes)
//!           | file | tcp | unix        compio_fs::File / compio_net::TcpStream / UnixStream with
//!                                      close().await, descriptor table of the process observed
//!   driver  = iour | poll              (real subjects only)
//!
//! A program is a list of completed methods {a, h, src, w, x}: clone / drop / opstart / opfinish /
//! poll (one poll of the close future, made by hand with counting waker w = 1 or 2: the programs
//! re-poll the pending future with the same and with the OTHER waker, i.e. the future moved to
//! another task) / take2 (close() on another handle) / cancel (pending close
//! future dropped) / dropunpolled (close future dropped before its first poll); x is the projected
//! model state after the step. After every step the real observation (number of closes, whether
//! each of the two wakers was invoked, whether the close future is ready) is compared with x
//! (mismatch = drift) and, independently of the model, the property's predicates are evaluated on
//! the real observation (contract).
use std::{
    cell::{Cell, RefCell},
    collections::{BTreeMap, BTreeSet},
    future::Future,
    io::Write as _,
    os::fd::{AsRawFd, FromRawFd, IntoRawFd},
    panic::{AssertUnwindSafe, catch_unwind},
    pin::Pin,
    rc::Rc,
    sync::{Arc, atomic::Ordering},
    task::{Context, Poll, Waker},
    time::{Duration, Instant},
};

use compio_driver::{DriverType, ProactorBuilder, SharedFd};
use compio_runtime::Runtime;
use hcore::out::{Report, cases_from_arg, panic_msg};
use serde_json::{Value, json};

use crate::util::{self, Book, FlagWaker, Instrumented, WATCHDOG};

type LocalFut<T> = Pin<Box<dyn Future<Output = T>>>;

thread_local! {
    /// the holder whose method (drop / take) is running on this thread
    pub static CUR_HOLDER: Cell<Option<usize>> = const { Cell::new(None) };
}

/// true when compio-driver was built with feature `sync` (SharedFd is Send)
pub fn build_is_sync() -> bool {
    cfg!(feature = "syncbuild")
}

/// What the executor needs from the thing under test.
pub trait Subject {
    type H;
    type Op;
    fn name(&self) -> &'static str;
    /// the handle close() will be called on
    fn root(&mut self) -> Result<Self::H, String>;
    fn dup(&mut self, h: &Self::H) -> Self::H;
    fn release(&mut self, h: Self::H);
    /// close() / take(): Ok(Some(true)) took the descriptor, Ok(Some(false)) returned None,
    /// Ok(None) cannot tell (decided by the descriptor table)
    fn close(&mut self, h: Self::H) -> LocalFut<Result<Option<bool>, String>>;
    /// start an operation that holds a clone and poll it once
    fn op_start(&mut self, src: &Self::H) -> Result<Self::Op, String>;
    /// let it complete and drop it
    fn op_finish(&mut self, op: Self::Op) -> Result<(), String>;
    /// give the runtime a chance to deliver completions / wake-ups
    fn drive(&mut self, wait: Duration);
    /// how often the descriptor has been closed so far
    fn closes(&self) -> usize;
    /// a close happened while somebody else still held the descriptor
    fn held_violation(&self) -> Option<String>;
    /// descriptors of the process that were not there before the program (after `finish`)
    fn leftover(&mut self) -> Vec<String>;
}

// ---------------------------------------------------------------------------------------------
// SharedFd<Instrumented>

pub struct InsSubject {
    book: Arc<Book>,
    /// per holder: released?
    table: Rc<RefCell<Vec<bool>>>,
}

thread_local! {
    static INS_TABLE: RefCell<Option<Rc<RefCell<Vec<bool>>>>> = const { RefCell::new(None) };
    static INS_VIOL: RefCell<Option<String>> = const { RefCell::new(None) };
}

/// Called from the instrumented close (single-threaded subjects).
fn ins_on_close() {
    let me = CUR_HOLDER.with(|c| c.get());
    INS_TABLE.with(|t| {
        if let Some(t) = t.borrow().as_ref() {
            let t = t.borrow();
            let others: Vec<usize> = t
                .iter()
                .enumerate()
                .filter(|(i, rel)| !**rel && Some(*i) != me)
                .map(|(i, _)| i)
                .collect();
            if !others.is_empty() {
                INS_VIOL.with(|v| {
                    v.borrow_mut()
                        .get_or_insert_with(|| format!("closed while holders {others:?} still hold a clone"));
                });
            }
        }
    });
}

/// Owned value of the sequential instrumented subject.
pub struct SeqIns {
    inner: Instrumented,
}

impl Drop for SeqIns {
    fn drop(&mut self) {
        ins_on_close();
        let _ = &self.inner;
    }
}

impl InsSubject {
    pub fn new() -> Self {
        let table = Rc::new(RefCell::new(Vec::new()));
        INS_TABLE.with(|t| *t.borrow_mut() = Some(table.clone()));
        INS_VIOL.with(|v| *v.borrow_mut() = None);
        Self {
            book: Arc::new(Book::default()),
            table,
        }
    }
}

pub struct InsH {
    fd: SharedFd<SeqIns>,
    idx: Option<usize>,
}

impl Subject for InsSubject {
    type H = InsH;
    type Op = InsH;

    fn name(&self) -> &'static str {
        "ins"
    }

    fn root(&mut self) -> Result<InsH, String> {
        let fd = unsafe {
            SharedFd::new_unchecked(SeqIns {
                inner: Instrumented(self.book.clone()),
            })
        };
        Ok(InsH { fd, idx: None })
    }

    fn dup(&mut self, h: &InsH) -> InsH {
        let idx = self.table.borrow().len();
        self.table.borrow_mut().push(false);
        InsH {
            fd: h.fd.clone(),
            idx: Some(idx),
        }
    }

    fn release(&mut self, h: InsH) {
        CUR_HOLDER.with(|c| c.set(h.idx));
        let idx = h.idx;
        drop(h.fd);
        if let Some(i) = idx {
            self.table.borrow_mut()[i] = true;
        }
        CUR_HOLDER.with(|c| c.set(None));
    }

    fn close(&mut self, h: InsH) -> LocalFut<Result<Option<bool>, String>> {
        let idx = h.idx;
        let table = self.table.clone();
        let fut = h.fd.take();
        Box::pin(async move {
            // the method of holder idx runs whenever this future is polled
            struct Guard(Option<usize>, Rc<RefCell<Vec<bool>>>, bool);
            impl Drop for Guard {
                fn drop(&mut self) {
                    // the future is gone (resolved or dropped): its reference is released
                    if let Some(i) = self.0 {
                        self.1.borrow_mut()[i] = true;
                    }
                }
            }
            let mut g = Guard(idx, table, false);
            let r = PollAs(idx, Box::pin(fut)).await;
            g.2 = true;
            match r {
                Some(owned) => {
                    // closing is the caller's next step: do it right here so that the moment is checked
                    CUR_HOLDER.with(|c| c.set(idx));
                    drop(owned);
                    CUR_HOLDER.with(|c| c.set(None));
                    Ok(Some(true))
                }
                None => Ok(Some(false)),
            }
        })
    }

    fn op_start(&mut self, src: &InsH) -> Result<InsH, String> {
        Ok(self.dup(src))
    }

    fn op_finish(&mut self, op: InsH) -> Result<(), String> {
        self.release(op);
        Ok(())
    }

    fn drive(&mut self, _: Duration) {}

    fn closes(&self) -> usize {
        self.book.closes.load(Ordering::SeqCst)
    }

    fn held_violation(&self) -> Option<String> {
        INS_VIOL.with(|v| v.borrow().clone())
    }

    fn leftover(&mut self) -> Vec<String> {
        vec![]
    }
}

/// Polls the inner future with CUR_HOLDER set (a release inside the poll belongs to that holder).
struct PollAs<T: 'static>(Option<usize>, LocalFut<T>);

impl<T: 'static> Future for PollAs<T> {
    type Output = T;

    fn poll(mut self: Pin<&mut Self>, cx: &mut Context<'_>) -> Poll<T> {
        let idx = self.0;
        CUR_HOLDER.with(|c| c.set(idx));
        let r = self.1.as_mut().poll(cx);
        CUR_HOLDER.with(|c| c.set(None));
        r
    }
}

impl<T: 'static> Drop for PollAs<T> {
    fn drop(&mut self) {
        // dropping the pending take() future releases its reference: attribute it
        CUR_HOLDER.with(|c| c.set(self.0));
        // replace the future by a finished one so that it is dropped here, under the attribution
        self.1 = Box::pin(std::future::pending());
        CUR_HOLDER.with(|c| c.set(None));
    }
}

// ---------------------------------------------------------------------------------------------
// real handles: compio_fs::File, compio_net::TcpStream, compio_net::UnixStream

#[derive(Clone, Copy, PartialEq, Debug)]
pub enum RealKind {
    File,
    Tcp,
    Unix,
}

#[derive(Clone)]
pub enum RealH {
    File(compio_fs::File),
    Tcp(compio_net::TcpStream),
    Unix(compio_net::UnixStream),
}

pub struct RealSubject<'a> {
    rt: &'a Runtime,
    kind: RealKind,
    raw: i32,
    base: BTreeSet<i32>,
    peer: Option<Box<dyn std::io::Write>>,
    path: Option<std::path::PathBuf>,
    ops_in_flight: usize,
    dummy_waker: Waker,
}

impl<'a> RealSubject<'a> {
    pub fn new(rt: &'a Runtime, kind: RealKind) -> Self {
        let (_, w) = FlagWaker::new();
        Self {
            rt,
            kind,
            raw: -1,
            base: util::fd_table(),
            peer: None,
            path: None,
            ops_in_flight: 0,
            dummy_waker: w,
        }
    }

    fn complete<T>(&mut self, fut: &mut LocalFut<T>, what: &str) -> Result<T, String> {
        let t0 = Instant::now();
        let w = self.dummy_waker.clone();
        let mut cx = Context::from_waker(&w);
        loop {
            if let Poll::Ready(v) = fut.as_mut().poll(&mut cx) {
                return Ok(v);
            }
            if t0.elapsed() > watchdog() {
                note_expired();
                return Err(format!("{what} did not complete within {WATCHDOG:?}"));
            }
            self.drive(Duration::from_millis(20));
        }
    }
}

impl Subject for RealSubject<'_> {
    type H = RealH;
    type Op = LocalFut<()>;

    fn name(&self) -> &'static str {
        match self.kind {
            RealKind::File => "file",
            RealKind::Tcp => "tcp",
            RealKind::Unix => "unix",
        }
    }

    fn root(&mut self) -> Result<RealH, String> {
        let e = |e: std::io::Error| e.to_string();
        match self.kind {
            RealKind::File => {
                let p = std::env::temp_dir().join(format!("c06_{}_{:p}.dat", std::process::id(), self));
                std::fs::write(&p, b"0123456789abcdef").map_err(e)?;
                let f = std::fs::File::open(&p).map_err(e)?;
                self.path = Some(p);
                self.raw = f.as_raw_fd();
                Ok(RealH::File(unsafe { compio_fs::File::from_raw_fd(f.into_raw_fd()) }))
            }
            RealKind::Tcp => {
                let l = std::net::TcpListener::bind("127.0.0.1:0").map_err(e)?;
                let peer = std::net::TcpStream::connect(l.local_addr().map_err(e)?).map_err(e)?;
                let (s, _) = l.accept().map_err(e)?;
                s.set_nonblocking(true).map_err(e)?;
                self.raw = s.as_raw_fd();
                self.peer = Some(Box::new(peer));
                Ok(RealH::Tcp(compio_net::TcpStream::from_std(s).map_err(e)?))
            }
            RealKind::Unix => {
                let (s, peer) = std::os::unix::net::UnixStream::pair().map_err(e)?;
                s.set_nonblocking(true).map_err(e)?;
                self.raw = s.as_raw_fd();
                self.peer = Some(Box::new(peer));
                Ok(RealH::Unix(compio_net::UnixStream::from_std(s).map_err(e)?))
            }
        }
    }

    fn dup(&mut self, h: &RealH) -> RealH {
        h.clone()
    }

    fn release(&mut self, h: RealH) {
        drop(h)
    }

    fn close(&mut self, h: RealH) -> LocalFut<Result<Option<bool>, String>> {
        // close() is called here (eagerly); the returned future is what the program polls / drops
        let fut: LocalFut<std::io::Result<()>> = match h {
            RealH::File(f) => Box::pin(f.close()),
            RealH::Tcp(s) => Box::pin(s.close()),
            RealH::Unix(s) => Box::pin(s.close()),
        };
        Box::pin(async move { fut.await.map(|_| None).map_err(|e| format!("close() returned {e}")) })
    }

    fn op_start(&mut self, src: &RealH) -> Result<Self::Op, String> {
        use compio_io::{AsyncRead, AsyncReadAt};
        let mut fut: LocalFut<()> = match src.clone() {
            RealH::File(f) => Box::pin(async move {
                let _ = f.read_at(Vec::with_capacity(4), 0).await;
            }),
            RealH::Tcp(s) => Box::pin(async move {
                let mut r = &s;
                let _ = r.read(Vec::with_capacity(4)).await;
            }),
            RealH::Unix(s) => Box::pin(async move {
                let mut r = &s;
                let _ = r.read(Vec::with_capacity(4)).await;
            }),
        };
        let w = self.dummy_waker.clone();
        let mut cx = Context::from_waker(&w);
        match fut.as_mut().poll(&mut cx) {
            Poll::Pending => {
                self.ops_in_flight += 1;
                Ok(fut)
            }
            Poll::Ready(()) => Err("operation completed in its first poll (cannot be held in flight)".into()),
        }
    }

    fn op_finish(&mut self, mut op: Self::Op) -> Result<(), String> {
        if let Some(p) = self.peer.as_mut() {
            p.write_all(b"x").map_err(|e| e.to_string())?;
        }
        let r = self.complete(&mut op, "operation in flight");
        self.ops_in_flight -= 1;
        drop(op);
        r
    }

    fn drive(&mut self, wait: Duration) {
        self.rt.poll_with(Some(wait));
        self.rt.run();
    }

    fn closes(&self) -> usize {
        if self.raw >= 0 && !util::fd_open(self.raw) { 1 } else { 0 }
    }

    fn held_violation(&self) -> Option<String> {
        None
    }

    fn leftover(&mut self) -> Vec<String> {
        self.peer = None;
        if let Some(p) = self.path.take() {
            let _ = std::fs::remove_file(p);
        }
        // completions of cancelled operations may still be on their way (pool threads)
        for _ in 0..3 {
            self.drive(Duration::ZERO);
        }
        let mut left = util::leaked_since(&self.base, Duration::ZERO);
        if !left.is_empty() {
            let t0 = Instant::now();
            while !left.is_empty() && t0.elapsed() < Duration::from_millis(1500) {
                self.drive(Duration::from_millis(20));
                left = util::leaked_since(&self.base, Duration::ZERO);
            }
        }
        let out = left.iter().map(|fd| format!("{fd}:{}", util::fd_desc(*fd))).collect();
        // keep the process healthy: a leaked descriptor is reported once, then closed by hand
        for fd in left {
            unsafe { libc::close(fd) };
        }
        out
    }
}

// ---------------------------------------------------------------------------------------------
// the executor

thread_local! {
    static EXPIRED: Cell<u32> = const { Cell::new(0) };
}

/// The watchdog shrinks after it has expired many times (a broken tree must not take hours).
fn watchdog() -> Duration {
    if EXPIRED.with(|e| e.get()) > 12 { Duration::from_millis(300) } else { WATCHDOG }
}

fn note_expired() {
    EXPIRED.with(|e| e.set(e.get() + 1));
}

pub struct Outcome {
    pub problems: Vec<(&'static str, Value, String, usize)>,
    pub steps: u64,
}

struct Exec<S: Subject> {
    s: S,
    handles: BTreeMap<String, S::H>,
    ops: BTreeMap<String, S::Op>,
    closer: Option<S::H>,
    fut: Option<LocalFut<Result<Option<bool>, String>>>,
    fut_done: bool,
    fut_polled: bool,
    /// two task identities: the close future may be polled with either waker (a future that moves
    /// from one task to another, or is polled under select!/timeout first)
    flags: [Arc<FlagWaker>; 2],
    wakers: [Waker; 2],
    /// the waker given to the LATEST poll of the close future: the task that has to be woken
    latest: usize,
    /// the close future has been polled with more than one waker
    migrated: bool,
    /// own accounting (independent of the model): holders that exist
    live: BTreeSet<String>,
    /// how the most recent reference was released
    last_release: &'static str,
    forgot: bool,
}

fn sig(s: &str, what: &str, extra: Value) -> Value {
    let mut m = serde_json::Map::new();
    m.insert("site".into(), json!(s));
    m.insert("build".into(), json!(if build_is_sync() { "sync" } else { "unsync" }));
    m.insert("what".into(), json!(what));
    if let Value::Object(o) = extra {
        for (k, v) in o {
            m.insert(k, v);
        }
    }
    Value::Object(m)
}

pub fn run_program<S: Subject>(subject: S, case: &Value) -> Outcome {
    let (f1, w1) = FlagWaker::new();
    let (f2, w2) = FlagWaker::new();
    let mut ex = Exec {
        s: subject,
        handles: BTreeMap::new(),
        ops: BTreeMap::new(),
        closer: None,
        fut: None,
        fut_done: false,
        fut_polled: false,
        flags: [f1, f2],
        wakers: [w1, w2],
        latest: 0,
        migrated: false,
        live: BTreeSet::new(),
        last_release: "-",
        forgot: false,
    };
    let mut out = Outcome {
        problems: vec![],
        steps: 0,
    };
    let site = ex.s.name();
    match ex.s.root() {
        Ok(h) => ex.closer = Some(h),
        Err(e) => {
            out.problems.push(("mismatch", sig(site, "setup-failed", json!({})), e, 0));
            return out;
        }
    }
    let empty = vec![];
    let steps = case["steps"].as_array().unwrap_or(&empty);
    let mut strand_reported = false;
    for (i, st) in steps.iter().enumerate() {
        out.steps += 1;
        let a = st["a"].as_str().unwrap_or("");
        let h = st["h"].as_str().unwrap_or("").to_string();
        let src = st["src"].as_str().unwrap_or("");
        let x = &st["x"];
        let mut ready: Option<Result<Option<bool>, String>> = None;
        let r: Result<(), String> = (|| {
            match a {
                "clone" | "opstart" => {
                    let srch = if src == "C" {
                        ex.closer.as_ref().ok_or("closer handle is gone")?
                    } else {
                        ex.handles.get(src).ok_or("source handle is gone")?
                    };
                    if a == "clone" {
                        let n = ex.s.dup(srch);
                        ex.handles.insert(h.clone(), n);
                    } else {
                        let op = ex.s.op_start(srch)?;
                        ex.ops.insert(h.clone(), op);
                    }
                    ex.live.insert(h.clone());
                }
                "drop" => {
                    let hh = ex.handles.remove(&h).ok_or("no such handle")?;
                    ex.s.release(hh);
                    ex.live.remove(&h);
                    ex.last_release = "drop";
                }
                "opfinish" => {
                    let op = ex.ops.remove(&h).ok_or("no such op")?;
                    ex.s.op_finish(op)?;
                    ex.live.remove(&h);
                    ex.last_release = "drop";
                }
                "poll" => {
                    if ex.fut.is_none() {
                        let c = ex.closer.take().ok_or("closer handle is gone")?;
                        ex.fut = Some(ex.s.close(c));
                    }
                    // the waker this poll is made with (identity chosen by the program)
                    let wi = (st["w"].as_u64().unwrap_or(1).clamp(1, 2) - 1) as usize;
                    if ex.fut_polled && wi != ex.latest {
                        ex.migrated = true;
                    }
                    ex.fut_polled = true;
                    ex.latest = wi;
                    ex.flags[wi].take();
                    let w = ex.wakers[wi].clone();
                    let mut cx = Context::from_waker(&w);
                    let expect_done = x["c"] == "done";
                    let t0 = Instant::now();
                    loop {
                        let f = ex.fut.as_mut().unwrap();
                        match f.as_mut().poll(&mut cx) {
                            Poll::Ready(v) => {
                                ready = Some(v);
                                ex.fut = None;
                                ex.fut_done = true;
                                break;
                            }
                            Poll::Pending => {
                                // close() of the real handles submits a close operation after take():
                                // when the model says done, wait for the wake-up of that operation
                                if !expect_done || site == "ins" {
                                    break;
                                }
                                while !ex.flags[wi].is_set() && t0.elapsed() < watchdog() {
                                    ex.s.drive(Duration::from_millis(10));
                                }
                                if !ex.flags[wi].take() {
                                    note_expired();
                                    break;
                                }
                            }
                        }
                    }
                }
                "take2" => {
                    let hh = ex.handles.remove(&h).ok_or("no such handle")?;
                    let mut f = ex.s.close(hh);
                    let (_, w2) = FlagWaker::new();
                    let mut cx = Context::from_waker(&w2);
                    match f.as_mut().poll(&mut cx) {
                        Poll::Ready(Ok(Some(true))) => {
                            return Err("CONTRACT second take() returned the descriptor".into());
                        }
                        Poll::Ready(Ok(_)) => {}
                        Poll::Ready(Err(e)) => return Err(format!("second close(): {e}")),
                        Poll::Pending => return Err("CONTRACT second take() is pending instead of returning None".into()),
                    }
                    drop(f);
                    ex.live.remove(&h);
                    ex.last_release = "take2";
                }
                "cancel" => {
                    let f = ex.fut.take().ok_or("no close future")?;
                    drop(f);
                    ex.last_release = "cancel";
                }
                "dropunpolled" => {
                    let c = ex.closer.take().ok_or("closer handle is gone")?;
                    let f = ex.s.close(c);
                    drop(f);
                    ex.forgot = true;
                    ex.last_release = "dropunpolled";
                }
                other => return Err(format!("unknown action {other}")),
            }
            Ok(())
        })();
        if let Err(e) = r {
            if let Some(m) = e.strip_prefix("CONTRACT ") {
                out.problems.push(("contract", sig(site, "second-take", json!({})), m.to_string(), i));
            } else {
                out.problems.push(("mismatch", sig(site, "step-failed", json!({"a": a})), e, i));
            }
            break;
        }
        ex.s.drive(Duration::ZERO);
        // ---- contract, on the real observation only
        let closes = ex.s.closes();
        if closes > 1 {
            out.problems.push((
                "contract",
                sig(site, "closed-twice", json!({})),
                format!("the descriptor was closed {closes} times"),
                i,
            ));
        }
        if let Some(v) = ex.s.held_violation() {
            out.problems.push(("contract", sig(site, "closed-while-held", json!({})), v, i));
        }
        if closes >= 1 && !ex.live.is_empty() {
            out.problems.push((
                "contract",
                sig(site, "closed-while-held", json!({})),
                format!("the descriptor is closed while {:?} still hold it (operations in flight among them: {:?})",
                    ex.live, ex.ops.keys().collect::<Vec<_>>()),
                i,
            ));
        }
        if let Some(Err(e)) = &ready {
            out.problems.push(("contract", sig(site, "close-error", json!({})), e.clone(), i));
        }
        if let Some(Ok(Some(true))) = &ready {
            if !ex.live.is_empty() {
                out.problems.push((
                    "contract",
                    sig(site, "close-resolved-early", json!({})),
                    format!("close() resolved while {:?} still hold the descriptor", ex.live),
                    i,
                ));
            }
        }
        let pending = ex.fut.is_some();
        if pending && ex.live.is_empty() && !strand_reported {
            // everybody else has let go: the closer must have been woken (or be done)
            for _ in 0..3 {
                ex.s.drive(Duration::ZERO);
            }
            // ... and it is the task that owns the future now that counts: the waker of the LATEST poll
            if !ex.flags[ex.latest].is_set() {
                let stale = ex.flags[1 - ex.latest].is_set();
                strand_reported = true;
                out.problems.push((
                    "contract",
                    sig(
                        site,
                        "close-never-resolves",
                        json!({"last_release": ex.last_release, "predicted": x["strand"] == true,
                               "repolled_with_other_waker": ex.migrated, "stale_waker_woken": stale}),
                    ),
                    format!(
                        "every other handle and operation has let go (last release: {}), the close future is pending and \
                         the waker given to its latest poll was never invoked{}: close().await cannot resolve",
                        ex.last_release,
                        if stale { " (the waker of an EARLIER poll was woken instead)" } else { "" }
                    ),
                    i,
                ));
            }
        }
        // ---- binding: compare with the model
        let xc = x["closed"].as_u64().unwrap_or(0) as usize;
        let mut diffs = vec![];
        if closes != xc && !(site != "ins" && closes > 1) {
            diffs.push(format!("closes real {closes} model {xc}"));
        }
        if a == "poll" {
            let is_ready = ready.is_some();
            if is_ready != (x["c"] == "done") {
                diffs.push(format!("close future ready={is_ready}, model closer state {}", x["c"]));
            }
        }
        if pending {
            for k in 0..2 {
                let xw = x["wok"][k] == true;
                if ex.flags[k].is_set() != xw {
                    diffs.push(format!(
                        "waker {} (latest poll used waker {}) woken real {} model {xw}",
                        k + 1,
                        ex.latest + 1,
                        ex.flags[k].is_set()
                    ));
                }
            }
        }
        if !diffs.is_empty() {
            out.problems.push(("mismatch", sig(site, "state", json!({"a": a})), diffs.join("; "), i));
            break;
        }
    }
    // ---- end of program: everybody lets go
    let names: Vec<String> = ex.ops.keys().cloned().collect();
    for n in names {
        if let Some(op) = ex.ops.remove(&n) {
            let _ = ex.s.op_finish(op);
        }
    }
    let names: Vec<String> = ex.handles.keys().cloned().collect();
    for n in names {
        if let Some(h) = ex.handles.remove(&n) {
            ex.s.release(h);
        }
    }
    ex.fut = None;
    if let Some(c) = ex.closer.take() {
        ex.s.release(c);
    }
    ex.s.drive(Duration::ZERO);
    let closes = ex.s.closes();
    let left = ex.s.leftover();
    if closes == 0 || !left.is_empty() {
        out.problems.push((
            "contract",
            sig(
                site,
                "leaked",
                json!({"cause": if ex.forgot { "close-future-dropped-unpolled" } else { "other" },
                       "predicted": steps.iter().any(|st| st["x"]["c"] == "forgot")}),
            ),
            format!(
                "every handle, operation and future is gone but the descriptor was closed {closes} times; left over: {left:?}"
            ),
            steps.len(),
        ));
    }
    if closes > 1 {
        out.problems.push((
            "contract",
            sig(site, "closed-twice", json!({})),
            format!("the descriptor was closed {closes} times"),
            steps.len(),
        ));
    }
    if let Some(v) = ex.s.held_violation() {
        out.problems.push(("contract", sig(site, "closed-while-held", json!({})), v, steps.len()));
    }
    out
}

pub fn main() {
    hcore::out::silence_panics();
    let args: Vec<String> = std::env::args().collect();
    let subject = args.get(2).map(|s| s.as_str()).unwrap_or("ins").to_string();
    let driver = args.get(3).map(|s| s.as_str()).unwrap_or("iour").to_string();
    let mut rep = Report::new();
    let rt = if subject != "ins" {
        let mut pb = ProactorBuilder::new();
        pb.driver_type(if driver == "poll" { DriverType::Poll } else { DriverType::IoUring });
        match Runtime::builder().with_proactor(pb).build() {
            Ok(rt) => Some(rt),
            Err(e) => {
                println!("{}", json!({"type": "fatal", "desc": format!("runtime: {e}")}));
                std::process::exit(2);
            }
        }
    } else {
        None
    };
    let cur = Arc::new(std::sync::Mutex::new(Value::Null));
    let cur2 = cur.clone();
    let subj2 = subject.clone();
    let wd = util::ProcWatchdog::start(Duration::from_secs(60), move |label| {
        let case = cur2.lock().map(|g| g.clone()).unwrap_or(Value::Null);
        println!(
            "{}",
            json!({"type": "hang", "sig": {"site": subj2, "what": "harness-watchdog"}, "desc": format!("no progress for 60 s in {label}"), "case": case, "step": 0})
        );
        println!(
            "{}",
            json!({"type": "summary", "cases": 0, "steps": 0, "aborted": true,
                   "problems": [{"type": "hang", "sig": {"site": subj2, "what": "harness-watchdog"}, "count": 1}]})
        );
        let _ = std::io::stdout().flush();
    });
    for case in cases_from_arg() {
        rep.cases += 1;
        wd.beat(&format!("case {}", rep.cases));
        if let Ok(mut g) = cur.lock() {
            *g = case.clone();
        }
        let res = catch_unwind(AssertUnwindSafe(|| match (subject.as_str(), &rt) {
            ("ins", _) => run_program(InsSubject::new(), &case),
            (k, Some(rt)) => {
                let kind = match k {
                    "file" => RealKind::File,
                    "tcp" => RealKind::Tcp,
                    _ => RealKind::Unix,
                };
                rt.enter(|| run_program(RealSubject::new(rt, kind), &case))
            }
            _ => unreachable!(),
        }));
        match res {
            Ok(o) => {
                rep.steps += o.steps;
                for (ty, mut sg, desc, step) in o.problems {
                    if subject != "ins" {
                        sg["driver"] = json!(driver);
                    }
                    rep.problem(ty, sg, desc, &case, step);
                }
            }
            Err(e) => rep.problem(
                "panic",
                json!({"site": subject, "what": "panic"}),
                panic_msg(e),
                &case,
                0,
            ),
        }
    }
    rep.set("subject", json!(subject));
    rep.set("driver", json!(driver));
    rep.set("sync_build", json!(build_is_sync()));
    rep.finish();
}
