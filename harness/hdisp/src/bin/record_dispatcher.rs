//! C18: record histories of the REAL compio Dispatcher for Trace_Dispatcher.tla.
//!
//! Runs seeded random programs (worker counts 1..3, concurrent / sequential mode, 1..3 dispatching
//! threads, dispatch and dispatch_blocking, bodies that yield / sleep / do socket I/O / use the
//! blocking pool / are woken from another thread / panic, worker faults, early and late join).
//! The closures and the calling threads log the events themselves (hdisp::recorder), nothing in
//! the code under test is hooked.  Output: an ndjson trace (runs separated by `reset` events), the
//! programs (one JSON line per run) and the harness protocol on stdout.  The property's predicates
//! are evaluated on the trace by lib/checks/c18.py; this binary only reports what it alone can
//! see: hangs (watchdog), panics of the calling threads, errors of the harness itself.
//!
//!   record_dispatcher --seed S --runs N [--from K] --out T.ndjson --programs P.jsonl
//!   record_dispatcher --replay prog.json --repeat R --out .. --programs ..
//!   record_dispatcher --scenario pool1|poolrace|poolpanic|forget [--repeat R] --out .. --programs ..
use std::{
    cell::{Cell, RefCell},
    fs::File,
    future::Future,
    io::Write,
    num::NonZeroUsize,
    panic::{AssertUnwindSafe, catch_unwind},
    pin::Pin,
    sync::{
        Arc, Condvar, Mutex, OnceLock, RwLock,
        atomic::{AtomicUsize, Ordering},
        mpsc::{self, RecvTimeoutError},
    },
    task::{Context, Poll},
    time::Duration,
};

use compio_buf::BufResult;
use compio_dispatcher::Dispatcher;
use compio_driver::{DispatchError, DriverType, ProactorBuilder};
use compio_io::{AsyncReadExt, AsyncWriteExt};
use compio_net::UnixStream;
use compio_runtime::Runtime;
use futures_channel::oneshot;
use hcore::out::{Report, panic_msg};
use hdisp::{
    program::{
        Op, Program, Step, TaskSpec, generate, scenario_pool1, scenario_poolpanic, scenario_poolrace,
        scenario_forget,
    },
    recorder::{Ev, Recorder},
};
use serde_json::{Value, json};

// ---------------------------------------------------------------------------------------------
// what the closures need
// ---------------------------------------------------------------------------------------------

thread_local! {
    /// set while the harness calls a closure that came back in a DispatchError
    static PROBE: Cell<bool> = const { Cell::new(false) };
    /// logs `wexit` when the worker thread ends
    static EXIT: RefCell<Option<ExitGuard>> = const { RefCell::new(None) };
}

/// recorder of the run in progress, for the panic hook
static CURRENT: RwLock<Option<Arc<Recorder>>> = RwLock::new(None);

const BODY_PANIC: &str = "c18 body panic";

/// Panic hook: silent, but a panic of a dispatcher worker thread that is not one of our bodies
/// (those are caught by the executor) is logged as `wpanic`: the worker thread itself is dying.
fn install_panic_hook() {
    std::panic::set_hook(Box::new(|info| {
        let w = worker_index();
        if w == 0 {
            return;
        }
        let p = info.payload();
        let msg = p
            .downcast_ref::<&str>()
            .map(|s| s.to_string())
            .or_else(|| p.downcast_ref::<String>().cloned())
            .unwrap_or_default();
        if msg.starts_with(BODY_PANIC) {
            return;
        }
        if let Ok(g) = CURRENT.read() {
            if let Some(rec) = g.as_ref() {
                rec.log(Ev::new("wpanic").w(w).msg(msg));
            }
        }
    }));
}

struct ExitGuard {
    rec: Arc<Recorder>,
    w: u32,
}

impl Drop for ExitGuard {
    fn drop(&mut self) {
        self.rec.log(Ev::new("wexit").w(self.w));
    }
}

fn install_exit_guard(rec: &Arc<Recorder>, w: u32) {
    let _ = EXIT.try_with(|e| {
        let mut e = e.borrow_mut();
        if e.is_none() {
            *e = Some(ExitGuard {
                rec: rec.clone(),
                w,
            });
        }
    });
}

/// 1-based index of the dispatcher worker this thread is (the dispatcher names its threads
/// through `thread_names`), 0 for any other thread.
fn worker_index() -> u32 {
    std::thread::current()
        .name()
        .and_then(|n| n.strip_prefix("c18w"))
        .and_then(|n| n.parse::<u32>().ok())
        .map(|i| i + 1)
        .unwrap_or(0)
}

struct YieldNow(bool);

impl Future for YieldNow {
    type Output = ();

    fn poll(mut self: Pin<&mut Self>, cx: &mut Context<'_>) -> Poll<()> {
        if self.0 {
            Poll::Ready(())
        } else {
            self.0 = true;
            cx.waker().wake_by_ref();
            Poll::Pending
        }
    }
}

type WakeReq = (oneshot::Sender<()>, u64);

/// helper thread that fires oneshots after a delay: a wake-up from a foreign thread
fn waker_service() -> mpsc::Sender<WakeReq> {
    static SVC: OnceLock<Mutex<mpsc::Sender<WakeReq>>> = OnceLock::new();
    SVC.get_or_init(|| {
        let (tx, rx) = mpsc::channel::<WakeReq>();
        std::thread::Builder::new()
            .name("c18-waker".into())
            .spawn(move || {
                while let Ok((tx, us)) = rx.recv() {
                    if us > 0 {
                        std::thread::sleep(Duration::from_micros(us));
                    }
                    let _ = tx.send(());
                }
            })
            .expect("spawn waker service");
        Mutex::new(tx)
    })
    .lock()
    .unwrap()
    .clone()
}

async fn io_roundtrip(mut a: UnixStream, mut b: UnixStream) -> Result<(), String> {
    let BufResult(r, _) = a.write_all(vec![0xC1u8; 8]).await;
    r.map_err(|e| format!("write: {e}"))?;
    let BufResult(r, buf) = b.read_exact(Vec::with_capacity(8)).await;
    r.map_err(|e| format!("read: {e}"))?;
    if buf.as_slice() != [0xC1u8; 8] {
        return Err(format!("read back {buf:?}"));
    }
    Ok(())
}

fn compio_pair() -> Result<(UnixStream, UnixStream), String> {
    let (a, b) = std::os::unix::net::UnixStream::pair().map_err(|e| format!("pair: {e}"))?;
    Ok((
        UnixStream::from_std(a).map_err(|e| format!("from_std: {e}"))?,
        UnixStream::from_std(b).map_err(|e| format!("from_std: {e}"))?,
    ))
}

async fn run_step(
    step: &Step,
    moved: &mut Vec<(UnixStream, UnixStream)>,
    id: u32,
    rec: &Arc<Recorder>,
    sh: &Arc<Shared>,
) -> Result<(), String> {
    match step {
        Step::Gate => sh.gate.park(worker_index()),
        Step::Yield { n } => {
            for _ in 0..*n {
                YieldNow(false).await;
            }
            Ok(())
        }
        Step::Sleep { ms } => {
            compio_runtime::time::sleep(Duration::from_millis(*ms)).await;
            Ok(())
        }
        Step::Io => {
            let (a, b) = compio_pair()?;
            io_roundtrip(a, b).await
        }
        Step::IoMoved => {
            let (a, b) = match moved.pop() {
                Some(p) => p,
                None => compio_pair()?,
            };
            io_roundtrip(a, b).await
        }
        Step::Blocking => match compio_runtime::spawn_blocking(move || 41u32 + 1).await {
            Ok(42) => Ok(()),
            Ok(v) => Err(format!("spawn_blocking returned {v}")),
            Err(e) => Err(format!("spawn_blocking: {e}")),
        },
        Step::Xwake { us } => {
            let (tx, rx) = oneshot::channel::<()>();
            waker_service()
                .send((tx, *us))
                .map_err(|_| "waker service gone".to_string())?;
            rx.await.map_err(|_| "xwake cancelled".to_string())
        }
        Step::Panic => {
            rec.log(Ev::new("panic").id(id));
            panic!("{BODY_PANIC}");
        }
    }
}

fn token(salt: u64, id: u32) -> u64 {
    salt.wrapping_mul(1_000_003).wrapping_add(id as u64 * 7919)
}

// ---------------------------------------------------------------------------------------------
// dispatching threads
// ---------------------------------------------------------------------------------------------

struct Shared {
    rec: Arc<Recorder>,
    salt: u64,
    tasks: Vec<TaskSpec>,
    nw: usize,
    status: Mutex<Vec<String>>, // [0] = joining thread, [s] = dispatching thread s
    gate: Gate,
    /// accepted fire-and-forget dispatch_blocking closures that have not ended yet: nobody awaits
    /// them, the run waits for them before it is declared over
    forgotten_blocking: AtomicUsize,
}

/// The gate the `Gate` steps park their worker threads on.
struct Gate {
    open: Mutex<bool>,
    cv: Condvar,
    parked_tx: Mutex<mpsc::Sender<u32>>,
    parked_rx: Mutex<mpsc::Receiver<u32>>,
}

impl Gate {
    fn new() -> Self {
        let (tx, rx) = mpsc::channel();
        Gate {
            open: Mutex::new(false),
            cv: Condvar::new(),
            parked_tx: Mutex::new(tx),
            parked_rx: Mutex::new(rx),
        }
    }

    /// called by a closure on a worker thread: blocks the thread
    fn park(&self, w: u32) -> Result<(), String> {
        let _ = self.parked_tx.lock().unwrap().send(w);
        let mut open = self.open.lock().unwrap();
        let t0 = std::time::Instant::now();
        while !*open {
            let (g, _) = self
                .cv
                .wait_timeout(open, Duration::from_millis(200))
                .unwrap();
            open = g;
            if t0.elapsed() > Duration::from_secs(20) {
                return Err("gate not opened within 20 s".into());
            }
        }
        Ok(())
    }

    fn release(&self) {
        *self.open.lock().unwrap() = true;
        self.cv.notify_all();
    }
}

/// counts a fire-and-forget dispatch_blocking closure out when it ends (returns, unwinds or is
/// dropped without having been called)
struct ForgottenGuard(Arc<Shared>);

impl Drop for ForgottenGuard {
    fn drop(&mut self) {
        self.0.forgotten_blocking.fetch_sub(1, Ordering::SeqCst);
    }
}

impl Shared {
    fn set_status(&self, who: usize, what: String) {
        self.status.lock().unwrap()[who] = what;
    }
}

/// sends `()` when dropped: the thread has given up the dispatcher (also when it panics)
struct DoneGuard(Option<mpsc::Sender<()>>);

impl Drop for DoneGuard {
    fn drop(&mut self) {
        if let Some(tx) = self.0.take() {
            let _ = tx.send(());
        }
    }
}

fn dispatch_async(
    disp: &Dispatcher,
    sh: &Arc<Shared>,
    spec: &TaskSpec,
    s: u32,
    with_rt: bool,
) -> Option<oneshot::Receiver<u64>> {
    let id = spec.id;
    let body = spec.body.clone();
    let rec = sh.rec.clone();
    let sh2 = sh.clone();
    let tok = token(sh.salt, id);
    // sockets created here, on the dispatching thread's runtime, and moved to the worker
    let mut moved = Vec::new();
    if with_rt {
        for _ in body.iter().filter(|s| **s == Step::IoMoved) {
            if let Ok(p) = compio_pair() {
                moved.push(p);
            }
        }
    }
    sh.rec.log(Ev::new("dcall").id(id).s(s).k("async"));
    let f = move || {
        let probe = PROBE.with(|p| p.get());
        if probe {
            rec.log(Ev::new("intact").id(id));
        } else {
            let w = worker_index();
            if w > 0 {
                install_exit_guard(&rec, w);
            }
            rec.log(Ev::new("start").id(id).w(w));
        }
        async move {
            if probe {
                return 0;
            }
            let mut moved = moved;
            for step in &body {
                if let Err(m) = run_step(step, &mut moved, id, &rec, &sh2).await {
                    rec.log(Ev::new("bodyerr").id(id).msg(m));
                }
            }
            rec.log(Ev::new("finish").id(id));
            tok
        }
    };
    match disp.dispatch(f) {
        Ok(rx) => {
            sh.rec.log(Ev::new("dret").id(id).s(s).r("accepted"));
            Some(rx)
        }
        Err(DispatchError(f)) => {
            sh.rec.log(Ev::new("dret").id(id).s(s).r("rejected"));
            // the closure that came back must be the one that was sent: call it in probe mode
            PROBE.with(|p| p.set(true));
            let fut = f();
            PROBE.with(|p| p.set(false));
            drop(fut);
            None
        }
    }
}

fn dispatch_blocking(
    disp: &Dispatcher,
    sh: &Arc<Shared>,
    spec: &TaskSpec,
    s: u32,
    forget: bool,
) -> Option<oneshot::Receiver<u64>> {
    let id = spec.id;
    let body = spec.body.clone();
    let rec = sh.rec.clone();
    let tok = token(sh.salt, id);
    // whether or not somebody awaits it (the receiver may be dropped later): the run is not over
    // before the closure has ended
    let _ = forget;
    sh.forgotten_blocking.fetch_add(1, Ordering::SeqCst);
    let guard = ForgottenGuard(sh.clone());
    sh.rec.log(Ev::new("dcall").id(id).s(s).k("blocking"));
    let f = move || {
        let _guard = guard;
        if PROBE.with(|p| p.get()) {
            rec.log(Ev::new("intact").id(id));
            return 0;
        }
        rec.log(Ev::new("start").id(id).w(worker_index()));
        for step in &body {
            match step {
                Step::Sleep { ms } => std::thread::sleep(Duration::from_millis(*ms)),
                Step::Panic => {
                    rec.log(Ev::new("panic").id(id));
                    panic!("{BODY_PANIC} (blocking)");
                }
                Step::Gate | Step::Yield { .. } | Step::Io | Step::IoMoved | Step::Blocking
                | Step::Xwake { .. } => {}
            }
        }
        rec.log(Ev::new("finish").id(id));
        tok
    };
    match disp.dispatch_blocking(f) {
        Ok(rx) => {
            sh.rec.log(Ev::new("dret").id(id).s(s).r("accepted"));
            Some(rx)
        }
        Err(DispatchError(f)) => {
            sh.rec.log(Ev::new("dret").id(id).s(s).r("rejected"));
            PROBE.with(|p| p.set(true));
            let _ = f();
            PROBE.with(|p| p.set(false));
            None
        }
    }
}

async fn await_receiver(sh: &Arc<Shared>, s: usize, id: u32, rx: oneshot::Receiver<u64>) {
    sh.set_status(s, format!("awaiting receiver of task {id}"));
    match rx.await {
        Ok(v) => sh
            .rec
            .log(Ev::new("recv").id(id).r("ok").val(v == token(sh.salt, id))),
        Err(oneshot::Canceled) => sh.rec.log(Ev::new("recv").id(id).r("canceled")),
    }
}

async fn sender_main(
    s: usize,
    ops: Vec<Op>,
    sh: Arc<Shared>,
    disp: Arc<Dispatcher>,
    done: DoneGuard,
    with_rt: bool,
) {
    let mut pending: Vec<(u32, oneshot::Receiver<u64>)> = Vec::new();
    for op in &ops {
        match op {
            Op::Pause { us } => std::thread::sleep(Duration::from_micros(*us)),
            Op::Dispatch { id, forget } => {
                sh.set_status(s, format!("dispatching task {id}"));
                let spec = sh.tasks.iter().find(|t| t.id == *id).expect("task").clone();
                let rx = if spec.kind == "blocking" {
                    dispatch_blocking(&disp, &sh, &spec, s as u32, *forget)
                } else {
                    dispatch_async(&disp, &sh, &spec, s as u32, with_rt)
                };
                if let Some(rx) = rx {
                    if *forget {
                        // fire and forget: nobody will ever look at the result
                        drop(rx);
                        sh.rec.log(Ev::new("rdrop").id(*id));
                    } else {
                        pending.push((*id, rx));
                    }
                }
            }
            Op::Drop { id } => {
                if let Some(k) = pending.iter().position(|(i, _)| i == id) {
                    let (id, rx) = pending.remove(k);
                    drop(rx);
                    sh.rec.log(Ev::new("rdrop").id(id));
                }
            }
            Op::Park { ids } => {
                // One gate task at a time. A gate closure parks the worker that calls it; flume may
                // also hand it to the pending recv of a worker that is parked already, then nobody
                // reports and the next gate task is sent. Certainty comes from the reports: one
                // per worker thread of the dispatcher.
                let nw = sh.nw;
                let mut parked = std::collections::BTreeSet::new();
                let rx = sh.gate.parked_rx.lock().unwrap();
                for id in ids {
                    if parked.len() >= nw {
                        break;
                    }
                    sh.set_status(s, format!("parking a worker with gate task {id}"));
                    let spec = sh.tasks.iter().find(|t| t.id == *id).expect("task").clone();
                    if let Some(r) = dispatch_async(&disp, &sh, &spec, s as u32, with_rt) {
                        pending.push((*id, r));
                        if let Ok(w) = rx.recv_timeout(Duration::from_millis(150)) {
                            parked.insert(w);
                        }
                    }
                }
                let t0 = std::time::Instant::now();
                while parked.len() < nw && t0.elapsed() < Duration::from_secs(15) {
                    if let Ok(w) = rx.recv_timeout(Duration::from_millis(100)) {
                        parked.insert(w);
                    }
                }
                if parked.len() < nw {
                    sh.rec.log(
                        Ev::new("bodyerr")
                            .id(0)
                            .msg(format!("only {} of {nw} workers parked on the gate", parked.len())),
                    );
                }
            }
            Op::Open => sh.gate.release(),
            Op::Wait { id } => {
                if let Some(k) = pending.iter().position(|(i, _)| i == id) {
                    let (id, rx) = pending.remove(k);
                    await_receiver(&sh, s, id, rx).await;
                }
            }
        }
    }
    // never leave the workers parked
    sh.gate.release();
    // give up the dispatcher (join takes it by value), then collect what is still outstanding
    drop(disp);
    drop(done);
    for (id, rx) in pending {
        await_receiver(&sh, s, id, rx).await;
    }
    sh.set_status(s, "finished".into());
}

// ---------------------------------------------------------------------------------------------
// one run
// ---------------------------------------------------------------------------------------------

fn execute(p: &Program, sh: Arc<Shared>) -> Result<(), String> {
    let mut pb = ProactorBuilder::new();
    match p.driver.as_str() {
        "iour" => {
            pb.driver_type(DriverType::IoUring);
        }
        _ => {
            pb.driver_type(DriverType::Poll);
        }
    }
    if p.fault != "none" {
        // io_uring: the ring cannot be created (Runtime build fails in every worker);
        // polling: every wait fails with EINVAL (Runtime::poll_with panics inside block_on)
        pb.capacity(u32::MAX);
    }
    if p.pool_limit > 0 {
        pb.thread_pool_limit(p.pool_limit);
    }
    let disp = Dispatcher::builder()
        .worker_threads(NonZeroUsize::new(p.nw).ok_or("nw = 0")?)
        .concurrent(p.concurrent)
        .thread_names(|i| format!("c18w{i}"))
        .proactor_builder(pb)
        .build()
        .map_err(|e| format!("Dispatcher::build: {e}"))?;
    let disp = Arc::new(disp);
    let (done_tx, done_rx) = mpsc::channel::<()>();
    let mut handles = Vec::new();
    for (k, ops) in p.threads.iter().enumerate() {
        let s = k + 1;
        let ops = ops.clone();
        let sh2 = sh.clone();
        let disp2 = disp.clone();
        let done = DoneGuard(Some(done_tx.clone()));
        let with_rt = p.sender_rt;
        let h = std::thread::Builder::new()
            .name(format!("c18s{s}"))
            .spawn(move || {
                let fut = sender_main(s, ops, sh2, disp2, done, with_rt);
                if with_rt {
                    Runtime::new().expect("sender runtime").block_on(fut)
                } else {
                    futures_executor::block_on(fut)
                }
            })
            .map_err(|e| format!("spawn sender: {e}"))?;
        handles.push(h);
    }
    drop(done_tx);
    sh.set_status(0, "waiting for the dispatching threads".into());
    for _ in 0..p.threads.len() {
        done_rx
            .recv()
            .map_err(|_| "a dispatching thread vanished".to_string())?;
    }
    let d = Arc::try_unwrap(disp).map_err(|_| "dispatcher still shared".to_string())?;
    if p.join_delay_us > 0 {
        std::thread::sleep(Duration::from_micros(p.join_delay_us));
    }
    sh.set_status(0, "join".into());
    sh.rec.log(Ev::new("jcall"));
    let jr = catch_unwind(AssertUnwindSafe(|| {
        if p.main_rt {
            Runtime::new().expect("main runtime").block_on(d.join())
        } else {
            futures_executor::block_on(d.join())
        }
    }));
    match jr {
        Ok(Ok(())) => sh.rec.log(Ev::new("jret").r("ok")),
        Ok(Err(e)) => sh.rec.log(Ev::new("jret").r("err").msg(e.to_string())),
        Err(e) => sh.rec.log(Ev::new("jret").r("panic").msg(panic_msg(e))),
    }
    sh.set_status(0, "waiting for the receivers".into());
    let mut sender_panics = Vec::new();
    for (k, h) in handles.into_iter().enumerate() {
        if let Err(e) = h.join() {
            sender_panics.push(format!("dispatching thread {}: {}", k + 1, panic_msg(e)));
        }
    }
    // fire-and-forget dispatch_blocking closures run on pool threads nobody waits for
    let t0 = std::time::Instant::now();
    while sh.forgotten_blocking.load(Ordering::SeqCst) > 0 && t0.elapsed() < Duration::from_secs(20) {
        std::thread::sleep(Duration::from_millis(1));
    }
    sh.set_status(0, "finished".into());
    if !sender_panics.is_empty() {
        return Err(format!("PANIC {}", sender_panics.join("; ")));
    }
    Ok(())
}

enum Outcome {
    Done,
    Hang,
}

fn reset_line(run: u64, p: &Program, late: usize, nevents: usize) -> Value {
    json!({"e": "reset", "run": run, "seq": -1, "nw": p.nw, "concurrent": p.concurrent, "fault": p.fault,
           "driver": p.driver, "pool_limit": p.pool_limit, "ns": p.threads.len(), "ntasks": p.tasks.len(),
           "main_rt": p.main_rt, "sender_rt": p.sender_rt, "uses_pool": p.uses_pool(),
           "late": late, "events": nevents})
}

fn run_one(run: u64, p: &Program, report: &mut Report, out: &mut File, progs: &mut File) -> Outcome {
    let rec = Arc::new(Recorder::new(4096));
    let sh = Arc::new(Shared {
        rec: rec.clone(),
        salt: run.wrapping_mul(31).wrapping_add(p.seed),
        tasks: p.tasks.clone(),
        nw: p.nw,
        status: Mutex::new(vec![String::from("starting"); p.threads.len() + 1]),
        gate: Gate::new(),
        forgotten_blocking: AtomicUsize::new(0),
    });
    *CURRENT.write().unwrap() = Some(rec.clone());
    let (tx, rx) = mpsc::channel::<Result<(), String>>();
    let p2 = p.clone();
    let sh2 = sh.clone();
    std::thread::Builder::new()
        .name("c18-run".into())
        .spawn(move || {
            let r = catch_unwind(AssertUnwindSafe(|| execute(&p2, sh2)))
                .unwrap_or_else(|e| Err(format!("PANIC joining thread: {}", panic_msg(e))));
            let _ = tx.send(r);
        })
        .expect("spawn run thread");
    let case = json!({"run": run, "program": p});
    match rx.recv_timeout(Duration::from_millis(p.watchdog_ms)) {
        Ok(res) => {
            // grace for thread-local destructors of threads that are just ending
            rec.close();
            let events = rec.snapshot();
            report.cases += 1;
            report.steps += events.len() as u64;
            let _ = writeln!(progs, "{case}");
            let _ = writeln!(out, "{}", reset_line(run, p, rec.late(), events.len()));
            for (i, e) in events.iter().enumerate() {
                let _ = writeln!(out, "{}", e.to_json(run, i));
            }
            if rec.overflow() > 0 {
                report.problem(
                    "toolerr",
                    json!({"site": "recorder", "kind": "overflow"}),
                    format!("{} events did not fit the recorder", rec.overflow()),
                    &case,
                    0,
                );
            }
            if let Err(m) = res {
                if let Some(m) = m.strip_prefix("PANIC ") {
                    report.problem(
                        "panic",
                        json!({"site": "caller", "kind": "panic", "fault": p.fault}),
                        format!("a thread calling the dispatcher panicked: {m}"),
                        &case,
                        0,
                    );
                } else {
                    report.problem(
                        "toolerr",
                        json!({"site": "harness", "kind": "setup"}),
                        m,
                        &case,
                        0,
                    );
                }
            }
            Outcome::Done
        }
        Err(RecvTimeoutError::Timeout) | Err(RecvTimeoutError::Disconnected) => {
            let status = sh.status.lock().unwrap().clone();
            let stuck_dispatch = status[1..].iter().find(|s| s.starts_with("dispatching task "));
            let whr = if stuck_dispatch.is_some() {
                "dispatch"
            } else if status[0] == "join" {
                "join"
            } else {
                "receiver"
            };
            let stuck_kind = stuck_dispatch
                .and_then(|s| s.strip_prefix("dispatching task "))
                .and_then(|n| n.parse::<u32>().ok())
                .and_then(|id| p.tasks.iter().find(|t| t.id == id))
                .map(|t| t.kind.clone())
                .unwrap_or_else(|| "none".into());
            let events: Vec<Value> = rec
                .snapshot()
                .iter()
                .enumerate()
                .map(|(i, e)| e.to_json(run, i))
                .collect();
            let case = json!({"run": run, "program": p, "events": events, "threads": status});
            report.problem(
                "hang",
                json!({"site": "dispatcher", "kind": "hang", "where": whr, "stuck_kind": stuck_kind,
                       "pool_limit": p.pool_limit, "uses_pool": p.uses_pool(),
                       "blocking_panics": p.blocking_panics(), "fault": p.fault,
                       "concurrent": p.concurrent}),
                format!(
                    "run did not finish within {} ms; joining thread: {}; dispatching threads: {:?}",
                    p.watchdog_ms,
                    status[0],
                    &status[1..]
                ),
                &case,
                events.len(),
            );
            Outcome::Hang
        }
    }
}

fn iour_available() -> bool {
    let mut pb = ProactorBuilder::new();
    pb.driver_type(DriverType::IoUring);
    pb.build().is_ok()
}

fn mix(seed: u64, run: u64) -> u64 {
    let mut r = hdisp::program::Rng(seed.wrapping_mul(0x2545_F491_4F6C_DD1D) ^ run);
    r.next()
}

fn main() {
    install_panic_hook();
    let args: Vec<String> = std::env::args().collect();
    let get = |k: &str| -> Option<String> {
        args.iter()
            .position(|a| a == k)
            .and_then(|i| args.get(i + 1).cloned())
    };
    let seed: u64 = get("--seed").and_then(|s| s.parse().ok()).unwrap_or(1);
    let runs: u64 = get("--runs").and_then(|s| s.parse().ok()).unwrap_or(10);
    let from: u64 = get("--from").and_then(|s| s.parse().ok()).unwrap_or(0);
    let repeat: u64 = get("--repeat").and_then(|s| s.parse().ok()).unwrap_or(1);
    let out_path = get("--out").expect("--out");
    let progs_path = get("--programs").expect("--programs");
    let mut out = std::fs::OpenOptions::new()
        .create(true)
        .append(true)
        .open(&out_path)
        .expect("open --out");
    let mut progs = std::fs::OpenOptions::new()
        .create(true)
        .append(true)
        .open(&progs_path)
        .expect("open --programs");
    let iour_ok = iour_available();
    let mut report = Report::new();
    report.set("iour", json!(iour_ok));

    let mut plan: Vec<(u64, Program)> = Vec::new();
    if let Some(path) = get("--replay") {
        let v: Value = serde_json::from_str(&std::fs::read_to_string(&path).expect("read replay"))
            .expect("replay json");
        let pv = v.get("program").cloned().unwrap_or(v);
        let p: Program = serde_json::from_value(pv).expect("replay program");
        for k in 0..repeat {
            plan.push((from + k, p.clone()));
        }
    } else if let Some(name) = get("--scenario") {
        match name.as_str() {
            "pool1" => plan.push((from, scenario_pool1(false))),
            "poolrace" => {
                for k in 0..repeat.max(1) {
                    plan.push((from + k, scenario_poolrace()));
                }
            }
            "poolpanic" => {
                for k in 0..repeat.max(1) {
                    plan.push((from + k, scenario_poolpanic()));
                }
            }
            "forget" => {
                // fire and forget on parked workers: 1..3 workers x both modes x with / without a
                // dispatch_blocking closure among them
                let mut k = from;
                for _ in 0..repeat.max(1) {
                    for nw in 1..=3usize {
                        for concurrent in [true, false] {
                            for blocking in [false, true] {
                                plan.push((k, scenario_forget(nw, concurrent, blocking)));
                                k += 1;
                            }
                        }
                    }
                }
            }
            other => panic!("unknown scenario {other}"),
        }
    } else {
        for k in from..runs {
            plan.push((k, generate(mix(seed, k), iour_ok)));
        }
    }

    let mut hang_at: Option<u64> = None;
    for (run, p) in &plan {
        match run_one(*run, p, &mut report, &mut out, &mut progs) {
            Outcome::Done => {}
            Outcome::Hang => {
                // threads of the hung run cannot be removed: stop here, the check restarts us
                hang_at = Some(*run);
                break;
            }
        }
    }
    let _ = out.flush();
    let _ = progs.flush();
    report.set("hang_at", json!(hang_at));
    report.finish();
    // do not wait for (possibly hung) threads
    std::process::exit(0);
}
