//! harness package hdisp
