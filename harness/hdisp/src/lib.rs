//! harness package hdisp - C18 (compio-dispatcher).
//!
//! Shared pieces of `record_dispatcher`: the seeded program generator, the program format
//! (serde, replayable) and the lock-free event recorder.

pub mod program;
pub mod recorder;
