//! Event recorder: one global atomic sequence number taken at the logging point, one slot per
//! event, no lock (a lock would add happens-before edges between the threads under test).
use std::sync::{
    OnceLock,
    atomic::{AtomicBool, AtomicUsize, Ordering},
};

use serde_json::{Value, json};

#[derive(Clone, Debug)]
pub struct Ev {
    pub e: &'static str,
    pub id: u32,
    /// dispatching thread (1-based) for dcall/dret
    pub s: u32,
    /// worker index (1-based), 0 = not a worker thread of this dispatcher
    pub w: u32,
    pub k: &'static str,
    pub r: &'static str,
    /// recv: the value is the task's own token; bodyerr: unused
    pub val: bool,
    pub msg: Option<String>,
}

impl Ev {
    pub fn new(e: &'static str) -> Self {
        Ev {
            e,
            id: 0,
            s: 0,
            w: 0,
            k: "",
            r: "",
            val: true,
            msg: None,
        }
    }

    pub fn id(mut self, id: u32) -> Self {
        self.id = id;
        self
    }

    pub fn s(mut self, s: u32) -> Self {
        self.s = s;
        self
    }

    pub fn w(mut self, w: u32) -> Self {
        self.w = w;
        self
    }

    pub fn k(mut self, k: &'static str) -> Self {
        self.k = k;
        self
    }

    pub fn r(mut self, r: &'static str) -> Self {
        self.r = r;
        self
    }

    pub fn val(mut self, v: bool) -> Self {
        self.val = v;
        self
    }

    pub fn msg(mut self, m: String) -> Self {
        self.msg = Some(m);
        self
    }

    pub fn to_json(&self, run: u64, seq: usize) -> Value {
        let mut v = match self.e {
            "dcall" => json!({"e": "dcall", "id": self.id, "s": self.s, "k": self.k}),
            "dret" => json!({"e": "dret", "id": self.id, "s": self.s, "r": self.r}),
            "intact" => json!({"e": "intact", "id": self.id}),
            "start" => json!({"e": "start", "id": self.id, "w": self.w}),
            "finish" => json!({"e": "finish", "id": self.id}),
            "panic" => json!({"e": "panic", "id": self.id}),
            "recv" => json!({"e": "recv", "id": self.id, "r": self.r, "val": self.val}),
            "jcall" => json!({"e": "jcall"}),
            "jret" => json!({"e": "jret", "r": self.r}),
            "wexit" => json!({"e": "wexit", "w": self.w}),
            "wpanic" => json!({"e": "wpanic", "w": self.w}),
            "rdrop" => json!({"e": "rdrop", "id": self.id}),
            "bodyerr" => json!({"e": "bodyerr", "id": self.id}),
            other => json!({"e": other, "id": self.id}),
        };
        let o = v.as_object_mut().unwrap();
        o.insert("run".into(), json!(run));
        o.insert("seq".into(), json!(seq));
        if let Some(m) = &self.msg {
            o.insert("msg".into(), json!(m));
        }
        v
    }
}

pub struct Recorder {
    next: AtomicUsize,
    slots: Vec<OnceLock<Ev>>,
    closed: AtomicBool,
    late: AtomicUsize,
    overflow: AtomicUsize,
}

impl Recorder {
    pub fn new(cap: usize) -> Self {
        let mut slots = Vec::with_capacity(cap);
        for _ in 0..cap {
            slots.push(OnceLock::new());
        }
        Recorder {
            next: AtomicUsize::new(0),
            slots,
            closed: AtomicBool::new(false),
            late: AtomicUsize::new(0),
            overflow: AtomicUsize::new(0),
        }
    }

    /// The sequence number is taken here, at the logging point.
    pub fn log(&self, ev: Ev) {
        if self.closed.load(Ordering::SeqCst) {
            self.late.fetch_add(1, Ordering::SeqCst);
        }
        let n = self.next.fetch_add(1, Ordering::SeqCst);
        if n < self.slots.len() {
            let _ = self.slots[n].set(ev);
        } else {
            self.overflow.fetch_add(1, Ordering::SeqCst);
        }
    }

    /// Events logged so far, in sequence order (a slot whose writer has taken its number but
    /// not yet stored the event ends the prefix).
    pub fn snapshot(&self) -> Vec<Ev> {
        let n = self.next.load(Ordering::SeqCst).min(self.slots.len());
        let mut out = Vec::with_capacity(n);
        for i in 0..n {
            match self.slots[i].get() {
                Some(e) => out.push(e.clone()),
                None => break,
            }
        }
        out
    }

    /// End of the run: everything logged from now on is counted as late.
    pub fn close(&self) {
        self.closed.store(true, Ordering::SeqCst);
    }

    pub fn late(&self) -> usize {
        self.late.load(Ordering::SeqCst)
    }

    pub fn overflow(&self) -> usize {
        self.overflow.load(Ordering::SeqCst)
    }
}
