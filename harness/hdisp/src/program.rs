//! Program format of the dispatcher recorder and the seeded generator.
use serde::{Deserialize, Serialize};

/// SplitMix64: tiny deterministic generator (independent of the rand crate's version).
pub struct Rng(pub u64);

impl Rng {
    pub fn next(&mut self) -> u64 {
        self.0 = self.0.wrapping_add(0x9E37_79B9_7F4A_7C15);
        let mut z = self.0;
        z = (z ^ (z >> 30)).wrapping_mul(0xBF58_476D_1CE4_E5B9);
        z = (z ^ (z >> 27)).wrapping_mul(0x94D0_49BB_1331_11EB);
        z ^ (z >> 31)
    }

    /// uniform in lo..=hi
    pub fn range(&mut self, lo: u64, hi: u64) -> u64 {
        lo + self.next() % (hi - lo + 1)
    }

    pub fn pct(&mut self, p: u64) -> bool {
        self.next() % 100 < p
    }
}

#[derive(Serialize, Deserialize, Clone, Debug, PartialEq)]
#[serde(tag = "t", rename_all = "lowercase")]
pub enum Step {
    /// return Pending n times, waking itself
    Yield { n: u32 },
    /// compio_runtime::time::sleep (async body) / std::thread::sleep (blocking body)
    Sleep { ms: u64 },
    /// write + read 8 bytes over a socket pair wrapped on the worker
    Io,
    /// the same over a compio socket pair created by the dispatching thread and moved in
    /// (needs compio-driver/sync; only for dispatching threads that run a compio runtime)
    IoMoved,
    /// compio_runtime::spawn_blocking: a job on the blocking pool shared with the dispatcher
    Blocking,
    /// await a oneshot fired by a helper thread after `us` microseconds (cross-thread wake)
    Xwake { us: u64 },
    /// panic
    Panic,
    /// report "parked" to the dispatching thread, then block the worker THREAD until the gate of
    /// the run is opened (Op::Open): nothing else can start on this worker meanwhile
    Gate,
}

#[derive(Serialize, Deserialize, Clone, Debug)]
pub struct TaskSpec {
    pub id: u32,
    /// "async" (dispatch) | "blocking" (dispatch_blocking)
    pub kind: String,
    pub body: Vec<Step>,
}

#[derive(Serialize, Deserialize, Clone, Debug)]
#[serde(tag = "op", rename_all = "lowercase")]
pub enum Op {
    /// `forget`: fire and forget - the receiver is dropped as soon as the call has returned Ok
    Dispatch {
        id: u32,
        #[serde(default)]
        forget: bool,
    },
    /// await the receiver of an earlier dispatch of this thread
    Wait { id: u32 },
    /// drop the receiver of an earlier dispatch of this thread (before, while or after it runs)
    Drop { id: u32 },
    Pause { us: u64 },
    /// dispatch gate tasks from `ids` one at a time until every worker thread has reported that it
    /// is parked on the gate (a gate task that does not park anybody soon is followed by the next)
    Park { ids: Vec<u32> },
    /// open the gate
    Open,
}

#[derive(Serialize, Deserialize, Clone, Debug)]
pub struct Program {
    pub seed: u64,
    pub nw: usize,
    pub concurrent: bool,
    /// "iour" | "poll"
    pub driver: String,
    /// "none" | "boot" (Runtime build fails in every worker) | "poll" (driver poll fails)
    pub fault: String,
    /// 0 = default (256)
    pub pool_limit: usize,
    /// the joining thread runs inside a compio runtime (else futures_executor)
    pub main_rt: bool,
    /// the dispatching threads run inside compio runtimes
    pub sender_rt: bool,
    pub join_delay_us: u64,
    pub watchdog_ms: u64,
    /// ops of each dispatching thread; after them the thread gives up the dispatcher and awaits
    /// its remaining receivers (concurrently with join)
    pub threads: Vec<Vec<Op>>,
    pub tasks: Vec<TaskSpec>,
}

impl Program {
    /// some dispatch_blocking closure panics (kills its pool thread)
    pub fn blocking_panics(&self) -> bool {
        self.tasks
            .iter()
            .any(|t| t.kind == "blocking" && t.body.contains(&Step::Panic))
    }

    pub fn uses_pool(&self) -> bool {
        self.tasks
            .iter()
            .any(|t| t.kind == "async" && t.body.contains(&Step::Blocking))
    }
}

pub const MAX_TASKS: u64 = 6;

/// Gate tasks that may be needed to park `nw` workers. In concurrent mode flume can hand a gate
/// closure to the pending `recv_async` of a worker that is already parked (it then waits there
/// until the gate opens); every parked worker can swallow one, so 2 * nw - 1 always suffice.
pub fn gate_tasks_needed(nw: usize) -> usize {
    2 * nw - 1
}

fn gen_body(
    r: &mut Rng,
    kind: &str,
    allow_blocking: bool,
    allow_moved: bool,
    allow_bpanic: bool,
) -> Vec<Step> {
    let n = r.range(0, 4);
    let mut body = Vec::new();
    for _ in 0..n {
        let x = r.range(0, 99);
        if kind == "blocking" {
            body.push(if x < 70 {
                Step::Sleep {
                    ms: if r.pct(15) {
                        r.range(30, 80)
                    } else {
                        r.range(0, 8)
                    },
                }
            } else if x < 78 && allow_bpanic {
                Step::Panic
            } else {
                Step::Sleep { ms: 0 }
            });
        } else if x < 28 {
            body.push(Step::Yield {
                n: r.range(1, 3) as u32,
            });
        } else if x < 52 {
            body.push(Step::Sleep {
                ms: if r.pct(15) {
                    r.range(40, 120)
                } else {
                    r.range(0, 12)
                },
            });
        } else if x < 66 {
            body.push(if allow_moved && r.pct(50) {
                Step::IoMoved
            } else {
                Step::Io
            });
        } else if x < 76 {
            if allow_blocking {
                body.push(Step::Blocking);
            } else {
                body.push(Step::Yield { n: 1 });
            }
        } else if x < 88 {
            body.push(Step::Xwake {
                us: r.range(0, 3000),
            });
        } else if x < 94 {
            body.push(Step::Panic);
        } else {
            body.push(Step::Sleep { ms: 1 });
        }
        if matches!(body.last(), Some(Step::Panic)) {
            break;
        }
    }
    body
}

/// One seeded random program. `iour_ok`: io_uring can be created in this sandbox.
pub fn generate(seed: u64, iour_ok: bool) -> Program {
    let mut r = Rng(seed ^ 0xC18C_18C1_8C18_C18C);
    let nw = r.range(1, 3) as usize;
    let concurrent = r.pct(50);
    let ns = r.range(1, 3) as usize;
    let ntasks = r.range(1, MAX_TASKS);
    let fx = r.range(0, 99);
    let mut fault = if fx < 8 {
        "boot"
    } else if fx < 18 {
        "poll"
    } else {
        "none"
    };
    if fault == "boot" && !iour_ok {
        fault = "poll";
    }
    let driver = match fault {
        "boot" => "iour",
        "poll" => "poll",
        _ => {
            if iour_ok && r.pct(55) {
                "iour"
            } else {
                "poll"
            }
        }
    };
    let px = r.range(0, 99);
    let pool_limit = if px < 68 {
        0
    } else if px < 84 {
        1
    } else {
        2
    };
    let main_rt = r.pct(50);
    let sender_rt = r.pct(35);
    // Both combinations that the two findings C18-join-holds-pool-slot (repaired, /repo d1f1c64)
    // and C18-dispatch-blocking-starved (repaired, /repo 4304f73) made hang are generated again:
    // bodies use the pool with a one-slot pool, with faulty workers and while join is under way,
    // and dispatch_blocking bodies panic while other threads use the pool.
    let allow_blocking = true;
    let allow_bpanic = true;
    let mut tasks = Vec::new();
    for id in 1..=ntasks {
        let kind = if r.pct(20) { "blocking" } else { "async" };
        tasks.push(TaskSpec {
            id: id as u32,
            kind: kind.to_string(),
            body: gen_body(&mut r, kind, allow_blocking, sender_rt, allow_bpanic),
        });
    }
    // Fire-and-forget programs with the workers parked on a gate: the receivers are dropped while
    // no worker can possibly have reached the closures, so the drop certainly precedes the start.
    if fault == "none" && r.pct(22) {
        let ngates = gate_tasks_needed(nw);
        let npay = r
            .range(1, (MAX_TASKS - ngates as u64).min(3))
            .min(tasks.len() as u64);
        tasks.truncate(npay as usize);
        let mut ops = Vec::new();
        let gate_ids: Vec<u32> = (0..ngates as u32).map(|k| npay as u32 + 1 + k).collect();
        for g in &gate_ids {
            tasks.push(TaskSpec {
                id: *g,
                kind: "async".to_string(),
                body: vec![Step::Gate],
            });
        }
        ops.push(Op::Park {
            ids: gate_ids.clone(),
        });
        let mut kept = Vec::new();
        for t in tasks.iter().take(npay as usize) {
            let forget = r.pct(75);
            ops.push(Op::Dispatch { id: t.id, forget });
            if !forget {
                if r.pct(40) {
                    ops.push(Op::Drop { id: t.id });
                } else {
                    kept.push(t.id);
                }
            }
        }
        if r.pct(50) {
            ops.push(Op::Pause {
                us: r.range(0, 1500),
            });
        }
        ops.push(Op::Open);
        if r.pct(50) {
            for id in kept.iter().chain(gate_ids.iter()) {
                ops.push(Op::Wait { id: *id });
            }
        }
        return Program {
            seed,
            nw,
            concurrent,
            driver: driver.to_string(),
            fault: fault.to_string(),
            pool_limit,
            main_rt,
            sender_rt,
            join_delay_us: if r.pct(60) { 0 } else { r.range(0, 3000) },
            watchdog_ms: 30_000,
            threads: vec![ops],
            tasks,
        };
    }
    // distribute the tasks over the dispatching threads
    let mut threads: Vec<Vec<Op>> = vec![Vec::new(); ns];
    let mut mine: Vec<Vec<u32>> = vec![Vec::new(); ns];
    let late_all = r.pct(35);
    for t in &tasks {
        let s = r.range(0, ns as u64 - 1) as usize;
        if r.pct(40) {
            threads[s].push(Op::Pause {
                us: r.range(0, 1500),
            });
        }
        // fire and forget without a gate: the drop races with the start
        let forget = r.pct(18);
        threads[s].push(Op::Dispatch { id: t.id, forget });
        if forget {
            continue;
        }
        mine[s].push(t.id);
        if r.pct(8) {
            // drop it a little later: before, while or after the closure runs
            let id = mine[s].pop().unwrap();
            if r.pct(50) {
                threads[s].push(Op::Pause {
                    us: r.range(0, 3000),
                });
            }
            threads[s].push(Op::Drop { id });
            continue;
        }
        // with faulty workers a receiver may legitimately stay pending until join is called
        if fault == "none" && r.pct(25) {
            let k = r.range(0, mine[s].len() as u64 - 1) as usize;
            let id = mine[s].remove(k);
            threads[s].push(Op::Wait { id });
        }
    }
    if fault == "none" {
        for s in 0..ns {
            if late_all || r.pct(20) {
                for id in mine[s].drain(..) {
                    threads[s].push(Op::Wait { id });
                }
            }
        }
    }
    Program {
        seed,
        nw,
        concurrent,
        driver: driver.to_string(),
        fault: fault.to_string(),
        pool_limit,
        main_rt,
        sender_rt,
        join_delay_us: if r.pct(50) { 0 } else { r.range(0, 4000) },
        watchdog_ms: 30_000,
        threads,
        tasks,
    }
}

/// Regression scenario of finding C18-dispatch-blocking-starved (AsyncifyPool, repaired): two threads call dispatch_blocking at the
/// same time, one closure panics at once. When the pool thread spawned by the other caller is
/// handed the panicking closure it dies, and that caller's rendezvous send never completes.
pub fn scenario_poolpanic() -> Program {
    Program {
        seed: 0,
        nw: 1,
        concurrent: true,
        driver: "poll".into(),
        fault: "none".into(),
        pool_limit: 0,
        main_rt: false,
        sender_rt: false,
        join_delay_us: 0,
        watchdog_ms: 8_000,
        threads: vec![
            vec![Op::Dispatch {
                id: 1,
                forget: false,
            }, Op::Wait { id: 1 }],
            vec![Op::Dispatch {
                id: 2,
                forget: false,
            }, Op::Wait { id: 2 }],
        ],
        tasks: vec![
            TaskSpec {
                id: 1,
                kind: "blocking".into(),
                body: vec![Step::Panic],
            },
            TaskSpec {
                id: 2,
                kind: "blocking".into(),
                body: vec![],
            },
        ],
    }
}

/// Second regression scenario of finding C18-join-holds-pool-slot (repaired), default pool limit: the task's first step needs the pool
/// while join is being called; when the pool thread spawned for it picks up the joiner instead,
/// the worker blocks for ever in AsyncifyPool::dispatch. A race: repeated until it hangs.
pub fn scenario_poolrace() -> Program {
    Program {
        seed: 0,
        nw: 1,
        concurrent: true,
        driver: "poll".into(),
        fault: "none".into(),
        pool_limit: 0,
        main_rt: false,
        sender_rt: false,
        join_delay_us: 1500,
        watchdog_ms: 8_000,
        threads: vec![vec![Op::Dispatch {
                id: 1,
                forget: false,
            }]],
        tasks: vec![TaskSpec {
            id: 1,
            kind: "async".into(),
            body: vec![Step::Blocking, Step::Sleep { ms: 5 }],
        }],
    }
}

/// The deterministic regression scenario of finding C18-join-holds-pool-slot (repaired): a one-slot pool, join called while the only
/// task sleeps, then the task needs the pool.
pub fn scenario_pool1(concurrent: bool) -> Program {
    Program {
        seed: 0,
        nw: 1,
        concurrent,
        driver: "poll".into(),
        fault: "none".into(),
        pool_limit: 1,
        main_rt: false,
        sender_rt: false,
        join_delay_us: 0,
        watchdog_ms: 8_000,
        threads: vec![vec![Op::Dispatch {
                id: 1,
                forget: false,
            }]],
        tasks: vec![TaskSpec {
            id: 1,
            kind: "async".into(),
            body: vec![Step::Sleep { ms: 150 }, Step::Blocking],
        }],
    }
}

/// Fire-and-forget on parked workers, deterministic: every worker is blocked on the gate while
/// `npay` closures are dispatched and their receivers dropped; then the gate opens and join is
/// called at once. Every one of them has to be started (sequential mode: finished) all the same.
pub fn scenario_forget(nw: usize, concurrent: bool, blocking: bool) -> Program {
    let npay = 3u32;
    let gate_ids: Vec<u32> = (0..gate_tasks_needed(nw) as u32)
        .map(|k| npay + 1 + k)
        .collect();
    let mut tasks = Vec::new();
    let mut ops = vec![Op::Park {
        ids: gate_ids.clone(),
    }];
    for id in 1..=npay {
        let b = blocking && id == npay;
        tasks.push(TaskSpec {
            id,
            kind: if b { "blocking" } else { "async" }.into(),
            body: if b {
                vec![Step::Sleep { ms: 1 }]
            } else {
                vec![Step::Yield { n: 1 }]
            },
        });
        ops.push(Op::Dispatch { id, forget: true });
    }
    for g in &gate_ids {
        tasks.push(TaskSpec {
            id: *g,
            kind: "async".into(),
            body: vec![Step::Gate],
        });
    }
    ops.push(Op::Open);
    Program {
        seed: 0,
        nw,
        concurrent,
        driver: "poll".into(),
        fault: "none".into(),
        pool_limit: 0,
        main_rt: false,
        sender_rt: false,
        join_delay_us: 0,
        watchdog_ms: 30_000,
        threads: vec![ops],
        tasks,
    }
}
