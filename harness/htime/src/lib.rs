//! harness package htime (C09: timers). Shared helpers of the timer binaries.
use std::{
    sync::{
        Arc,
        atomic::{AtomicU64, Ordering},
    },
    task::Wake,
    time::{Duration, Instant},
};

use compio_driver::{DriverType, ProactorBuilder};
use compio_runtime::Runtime;

/// A waker that only counts how often it was invoked.
pub struct CountWaker(pub AtomicU64);

impl CountWaker {
    pub fn new() -> Arc<Self> {
        Arc::new(Self(AtomicU64::new(0)))
    }

    pub fn count(&self) -> u64 {
        self.0.load(Ordering::SeqCst)
    }
}

impl Wake for CountWaker {
    fn wake(self: Arc<Self>) {
        self.0.fetch_add(1, Ordering::SeqCst);
    }

    fn wake_by_ref(self: &Arc<Self>) {
        self.0.fetch_add(1, Ordering::SeqCst);
    }
}

pub fn driver_name(t: DriverType) -> &'static str {
    match t {
        DriverType::Poll => "poll",
        DriverType::IoUring => "iour",
        _ => "other",
    }
}

/// Build a runtime on the requested driver; None if that driver is not available here.
pub fn build_runtime(t: DriverType) -> Option<Runtime> {
    let mut pb = ProactorBuilder::new();
    pb.driver_type(t).capacity(64);
    let rt = Runtime::builder().with_proactor(pb).build().ok()?;
    if rt.driver_type() == t { Some(rt) } else { None }
}

/// Sleep (coarse) and then spin (fine) until `target`; returns the clock reading after it.
pub fn wait_until(target: Instant) -> Instant {
    loop {
        let now = Instant::now();
        if now >= target {
            return now;
        }
        let left = target - now;
        if left > Duration::from_micros(400) {
            std::thread::sleep(left - Duration::from_micros(300));
        } else {
            std::hint::spin_loop();
        }
    }
}

/// Watchdog: if `beat` does not change for `limit`, print a hang problem and a summary and leave.
pub fn spawn_watchdog(beat: Arc<AtomicU64>, limit: Duration, site: &'static str) {
    std::thread::spawn(move || {
        let mut last = beat.load(Ordering::SeqCst);
        let mut since = Instant::now();
        loop {
            std::thread::sleep(Duration::from_millis(200));
            let cur = beat.load(Ordering::SeqCst);
            if cur != last {
                last = cur;
                since = Instant::now();
            } else if since.elapsed() > limit {
                let sig = serde_json::json!({"site": site, "kind": "hang"});
                println!(
                    "{}",
                    serde_json::json!({"type": "hang", "sig": sig, "desc": format!("no progress for {:?} at heartbeat {cur} (a step of the code under test blocked)", limit), "case": null, "step": 0})
                );
                println!(
                    "{}",
                    serde_json::json!({"type": "summary", "cases": 0, "steps": 0, "aborted": true,
                        "problems": [{"type": "hang", "sig": sig, "count": 1}]})
                );
                std::process::exit(0);
            }
        }
    });
}
