//! harness package htime
