//! C09 end-to-end leg: real `block_on` programs on both drivers with several tasks that sleep, time
//! out, tick intervals and drop timers, interleaved with I/O completions (a pipe written from
//! another thread) and cross-thread task wake-ups.
//!
//! Checked on the real observation (all with real clock readings, no model involved):
//!  * a sleep / timeout / tick never completes before its deadline;
//!  * everything completes (watchdog, generous) and an otherwise idle runtime does not sleep
//!    (much) longer than the nearest deadline although a far timer is pending all the time;
//!  * Timeout: Ok only if the inner future finished, Elapsed only after the deadline, an inner
//!    future that finishes first always wins;
//!  * interval ticks are start + k * period, increasing;
//!  * after all timers completed or were dropped current_timeout() is None.
//! Lateness beyond LATE_LIMIT is only reported when it repeats in every attempt (CPU load can delay
//! a thread, it cannot make a timer early).
//!
//! usage: e2e_timer <programs per driver> <seed>   |   e2e_timer one <driver> <program seed>
use std::{
    cell::RefCell,
    future::{Future, poll_fn},
    os::fd::{FromRawFd, OwnedFd},
    pin::{Pin, pin},
    rc::Rc,
    sync::{
        Arc, Mutex,
        atomic::{AtomicBool, Ordering},
        mpsc,
    },
    task::{Context, Poll, Waker},
    time::{Duration, Instant},
};

use compio_driver::{DriverType, op::Read};
use compio_runtime::{
    Runtime,
    time::{interval, interval_at, sleep, sleep_until, timeout, timeout_at},
};
use hcore::out::{Report, panic_msg, silence_panics};
use htime::{build_runtime, driver_name};
use serde_json::{Value, json};

const FAR: Duration = Duration::from_secs(8);
const LATE_LIMIT: Duration = Duration::from_secs(3);
const WATCHDOG: Duration = Duration::from_secs(45);

struct Rng(u64);
impl Rng {
    fn next(&mut self) -> u64 {
        self.0 = self.0.wrapping_add(0x9E37_79B9_7F4A_7C15);
        let mut z = self.0;
        z = (z ^ (z >> 30)).wrapping_mul(0xBF58_476D_1CE4_E5B9);
        z = (z ^ (z >> 27)).wrapping_mul(0x94D0_49BB_1331_11EB);
        z ^ (z >> 31)
    }

    fn below(&mut self, n: u64) -> u64 {
        self.next() % n
    }

    fn ms(&mut self, lo: u64, hi: u64) -> Duration {
        Duration::from_micros(lo * 1000 + self.below((hi - lo) * 1000 + 1))
    }
}

#[derive(Clone)]
struct Ev {
    what: &'static str,
    /// the completion must not be observed before this instant
    not_before: Instant,
    /// the timer was due at this instant at the latest (lateness is measured from here)
    due: Instant,
    done: Instant,
    bad: Option<(&'static str, String)>,
}

type Log = Rc<RefCell<Vec<Ev>>>;

fn ev(log: &Log, what: &'static str, not_before: Instant, due: Instant, done: Instant) {
    log.borrow_mut().push(Ev {
        what,
        not_before,
        due,
        done,
        bad: None,
    });
}

fn bad(log: &Log, what: &'static str, kind: &'static str, desc: String) {
    let now = Instant::now();
    log.borrow_mut().push(Ev {
        what,
        not_before: now,
        due: now,
        done: now,
        bad: Some((kind, desc)),
    });
}

struct Shared {
    done: AtomicBool,
    waker: Mutex<Option<Waker>>,
}

struct FlagFut(Arc<Shared>);

impl Future for FlagFut {
    type Output = ();

    fn poll(self: Pin<&mut Self>, cx: &mut Context<'_>) -> Poll<()> {
        if self.0.done.load(Ordering::SeqCst) {
            return Poll::Ready(());
        }
        *self.0.waker.lock().unwrap() = Some(cx.waker().clone());
        if self.0.done.load(Ordering::SeqCst) { Poll::Ready(()) } else { Poll::Pending }
    }
}

struct Never;
impl Future for Never {
    type Output = ();

    fn poll(self: Pin<&mut Self>, _: &mut Context<'_>) -> Poll<()> {
        Poll::Pending
    }
}

async fn one_sleep(log: &Log, rng: &mut Rng) {
    let dur = if rng.below(6) == 0 { Duration::ZERO } else { rng.ms(0, 18) };
    if rng.below(2) == 0 {
        let t0 = Instant::now();
        let s = sleep(dur);
        let t1 = Instant::now();
        s.await;
        ev(log, "sleep", t0 + dur, t1 + dur, Instant::now());
    } else {
        // sometimes a deadline in the past
        let now = Instant::now();
        let d = if rng.below(5) == 0 { now.checked_sub(rng.ms(0, 5)).unwrap_or(now) } else { now + dur };
        sleep_until(d).await;
        ev(log, "sleep_until", d, d.max(now), Instant::now());
    }
}

async fn task_sleeper(log: Log, mut rng: Rng) {
    for _ in 0..(2 + rng.below(3)) {
        one_sleep(&log, &mut rng).await;
    }
}

async fn task_timeouts(log: Log, mut rng: Rng) {
    // (b) timeout over a future that never finishes: Elapsed, not before the deadline
    let dur = rng.ms(0, 12);
    let t0 = Instant::now();
    let t = timeout(dur, Never);
    let t1 = Instant::now();
    match t.await {
        Err(_) => ev(&log, "timeout_never", t0 + dur, t1 + dur, Instant::now()),
        Ok(()) => bad(&log, "timeout_never", "timeout_phantom_ok", "timeout over a never-ready future yielded Ok".into()),
    }
    // (c) the inner sleep is due first: the inner result must win, whatever the delays
    let dur = rng.ms(1, 10);
    let now = Instant::now();
    let inner_dl = now + dur;
    let outer_dl = inner_dl + Duration::from_millis(6);
    let r = timeout_at(outer_dl, async {
        sleep_until(inner_dl).await;
        Instant::now()
    })
    .await;
    match r {
        Ok(at) => ev(&log, "timeout_inner_first", inner_dl, inner_dl, at),
        Err(_) => bad(
            &log,
            "timeout_inner_first",
            "timeout_lost_inner",
            format!(
                "inner sleep due {:?} before the timeout, yet the timeout yielded Elapsed",
                outer_dl - inner_dl
            ),
        ),
    }
    // (d) the timeout is due first: Elapsed after the deadline, or (when both were late) the inner result
    let dur = rng.ms(1, 10);
    let now = Instant::now();
    let outer_dl = now + dur;
    let inner_dl = outer_dl + Duration::from_millis(6);
    let r = timeout_at(outer_dl, sleep_until(inner_dl)).await;
    let done = Instant::now();
    match r {
        Err(_) => ev(&log, "timeout_outer_first", outer_dl, outer_dl, done),
        Ok(()) => ev(&log, "timeout_outer_first_ok", inner_dl, inner_dl, done),
    }
}

async fn task_reader(log: Log, fd: OwnedFd, written: Arc<AtomicBool>, mut rng: Rng) {
    // an I/O completion from another thread while the runtime waits for timers
    let long = Duration::from_secs(20);
    let t0 = Instant::now();
    let r = timeout(long, compio_runtime::submit(Read::new(fd, Vec::with_capacity(8)))).await;
    match r {
        Ok(compio_buf::BufResult(Ok(n), _)) => {
            if n != 1 || !written.load(Ordering::SeqCst) {
                bad(&log, "pipe_read", "io", format!("read returned {n} bytes, written flag {}", written.load(Ordering::SeqCst)));
            }
        }
        Ok(compio_buf::BufResult(Err(e), _)) => bad(&log, "pipe_read", "io", format!("read failed: {e}")),
        Err(_) => {
            let now = Instant::now();
            if now < t0 + long {
                bad(&log, "pipe_read", "early", "timeout over the pipe read elapsed early".into());
            } else {
                bad(&log, "pipe_read", "io_lost", "the pipe read did not complete within 20 s".into());
            }
        }
    }
    one_sleep(&log, &mut rng).await;
}

async fn task_flag(log: Log, sh: Arc<Shared>, mut rng: Rng) {
    // a wake-up of this task from another thread
    FlagFut(sh).await;
    one_sleep(&log, &mut rng).await;
}

async fn task_interval(log: Log, mut rng: Rng) {
    let period = rng.ms(2, 5);
    let (mut iv, start) = if rng.below(2) == 0 {
        let t0 = Instant::now();
        let iv = interval(period);
        (iv, Err((t0, Instant::now())))
    } else {
        let s = Instant::now() + rng.ms(0, 6);
        (interval_at(s, period), Ok(s))
    };
    let mut first: Option<Instant> = None;
    let mut last: Option<Instant> = None;
    for k in 0..4 {
        if k == 2 && rng.below(2) == 0 {
            // miss some ticks
            sleep(period * 2 + rng.ms(0, 3)).await;
        }
        let t = iv.tick().await;
        let done = Instant::now();
        ev(&log, "interval_tick", t, t, done);
        match first {
            None => {
                let okstart = match start {
                    Ok(s) => t == s,
                    Err((a, b)) => t >= a && t <= b,
                };
                if !okstart {
                    bad(&log, "interval_tick", "interval_first", "the first tick is not the start instant".into());
                }
                first = Some(t);
            }
            Some(f) => {
                if (t - f).as_nanos() % period.as_nanos() != 0 {
                    bad(
                        &log,
                        "interval_tick",
                        "interval_unaligned",
                        format!("tick {k} at start + {:?} is not start + k * {:?}", t - f, period),
                    );
                }
            }
        }
        if let Some(l) = last
            && t <= l
        {
            bad(&log, "interval_tick", "interval_not_increasing", "tick instants do not increase".into());
        }
        last = Some(t);
    }
}

async fn task_dropper(log: Log, mut rng: Rng) {
    // a timer that is polled (waker registered) and then dropped while others are pending
    let d1 = rng.ms(1, 8);
    {
        let mut gone = pin!(sleep(d1 + rng.ms(2, 30)));
        let t0 = Instant::now();
        let mut near = pin!(sleep(d1));
        let t1 = Instant::now();
        poll_fn(|cx| {
            let _ = gone.as_mut().poll(cx);
            near.as_mut().poll(cx)
        })
        .await;
        ev(&log, "sleep_beside_dropped", t0 + d1, t1 + d1, Instant::now());
    }
    one_sleep(&log, &mut rng).await;
}

struct Outcome {
    events: Vec<Ev>,
    leftover: Option<Duration>,
    far_ready: bool,
}

fn program(rt: &Runtime, seed: u64) -> Outcome {
    let log: Log = Rc::new(RefCell::new(vec![]));
    let mut rng = Rng(seed);
    // pipe + helper thread
    let mut fds = [0i32; 2];
    let rc = unsafe { libc::pipe2(fds.as_mut_ptr(), libc::O_CLOEXEC) };
    assert_eq!(rc, 0, "pipe2");
    let rfd = unsafe { OwnedFd::from_raw_fd(fds[0]) };
    let wfd = unsafe { OwnedFd::from_raw_fd(fds[1]) };
    let written = Arc::new(AtomicBool::new(false));
    let sh = Arc::new(Shared {
        done: AtomicBool::new(false),
        waker: Mutex::new(None),
    });
    let write_after = rng.ms(0, 25);
    let flag_after = rng.ms(0, 25);
    let helper = {
        let written = written.clone();
        let sh = sh.clone();
        std::thread::spawn(move || {
            use std::os::fd::AsRawFd;
            let t0 = Instant::now();
            let (first, second) = if write_after <= flag_after { (write_after, flag_after) } else { (flag_after, write_after) };
            let do_write = |written: &AtomicBool| {
                written.store(true, Ordering::SeqCst);
                let b = [7u8];
                let n = unsafe { libc::write(wfd.as_raw_fd(), b.as_ptr() as *const _, 1) };
                assert_eq!(n, 1);
            };
            let do_flag = |sh: &Shared| {
                sh.done.store(true, Ordering::SeqCst);
                if let Some(w) = sh.waker.lock().unwrap().take() {
                    w.wake();
                }
            };
            std::thread::sleep(first.saturating_sub(t0.elapsed()));
            if write_after <= flag_after { do_write(&written) } else { do_flag(&sh) }
            std::thread::sleep(second.saturating_sub(t0.elapsed()));
            if write_after <= flag_after { do_flag(&sh) } else { do_write(&written) }
        })
    };
    let log2 = log.clone();
    let (leftover, far_ready) = rt.block_on(async move {
        let log = log2;
        // a far timer is pending (waker registered) during the whole program
        let mut far = Box::pin(sleep(FAR));
        let far_first = poll_fn(|cx| Poll::Ready(far.as_mut().poll(cx).is_ready())).await;
        let mut hs = vec![];
        let n_sleepers = 1 + rng.below(3);
        for _ in 0..n_sleepers {
            hs.push(compio_runtime::spawn(task_sleeper(log.clone(), Rng(rng.next()))));
        }
        hs.push(compio_runtime::spawn(task_timeouts(log.clone(), Rng(rng.next()))));
        hs.push(compio_runtime::spawn(task_reader(log.clone(), rfd, written, Rng(rng.next()))));
        hs.push(compio_runtime::spawn(task_flag(log.clone(), sh, Rng(rng.next()))));
        hs.push(compio_runtime::spawn(task_interval(log.clone(), Rng(rng.next()))));
        hs.push(compio_runtime::spawn(task_dropper(log.clone(), Rng(rng.next()))));
        one_sleep(&log, &mut rng).await;
        for h in hs {
            if h.await.is_err() {
                bad(&log, "task", "task_failed", "a task panicked or was cancelled".into());
            }
        }
        let far_ready = far_first || poll_fn(|cx| Poll::Ready(far.as_mut().poll(cx).is_ready())).await;
        drop(far);
        (Runtime::with_current(|r| r.current_timeout()), far_ready)
    });
    let _ = helper.join();
    let events = log.borrow().clone();
    Outcome {
        events,
        leftover,
        far_ready,
    }
}

struct Verdict {
    problems: Vec<(&'static str, Value, String)>,
    events: usize,
    max_late: Duration,
}

fn judge(o: &Outcome, started: Instant, drv: &str) -> Verdict {
    let mut problems = vec![];
    let mut max_late = Duration::ZERO;
    for e in &o.events {
        if let Some((kind, desc)) = &e.bad {
            problems.push(("contract", json!({"site": "e2e", "kind": kind, "what": e.what, "driver": drv}), desc.clone()));
            continue;
        }
        if e.done < e.not_before {
            problems.push((
                "contract",
                json!({"site": "e2e", "kind": "early", "what": e.what, "driver": drv}),
                format!("{} completed {:?} before its deadline", e.what, e.not_before - e.done),
            ));
        }
        max_late = max_late.max(e.done.saturating_duration_since(e.due));
    }
    if let Some(x) = o.leftover {
        problems.push((
            "contract",
            json!({"site": "e2e", "kind": "residue", "what": "current_timeout", "driver": drv}),
            format!("after every timer completed or was dropped current_timeout() is Some({x:?})"),
        ));
    }
    if o.far_ready && started.elapsed() < FAR {
        problems.push((
            "contract",
            json!({"site": "e2e", "kind": "early", "what": "far_sleep", "driver": drv}),
            "the far sleep was Ready before its deadline".into(),
        ));
    }
    Verdict {
        problems,
        events: o.events.len(),
        max_late,
    }
}

fn main() {
    if std::env::var("VERIF_SHOW_PANICS").is_err() {
        silence_panics();
    }
    // `e2e_timer one <driver> <program seed>` re-runs a single reported program
    let one: Option<(String, u64)> = if std::env::args().nth(1).as_deref() == Some("one") {
        Some((
            std::env::args().nth(2).expect("driver"),
            std::env::args().nth(3).and_then(|s| s.parse().ok()).expect("program seed"),
        ))
    } else {
        None
    };
    let n: u64 = if one.is_some() { 1 } else { std::env::args().nth(1).and_then(|s| s.parse().ok()).unwrap_or(6) };
    let seed: u64 = std::env::args().nth(2).and_then(|s| s.parse().ok()).unwrap_or(1);
    let mut rep = Report::new();
    let mut worst_late = Duration::ZERO;
    let mut late_retries = 0u64;
    let mut hangs = 0u32;
    let mut per_driver = std::collections::BTreeMap::new();
    'outer: for t in [DriverType::IoUring, DriverType::Poll] {
        if build_runtime(t).is_none() {
            continue;
        }
        let drv = driver_name(t);
        if let Some((d, _)) = &one
            && d != drv
        {
            continue;
        }
        for k in 0..n {
            let pseed = match &one {
                Some((_, p)) => *p,
                None => seed.wrapping_mul(1_000_003).wrapping_add(k * 2 + (t == DriverType::Poll) as u64),
            };
            let case = json!({"program": "e2e", "driver": drv, "seed": pseed});
            let mut attempt = 0;
            loop {
                attempt += 1;
                let (tx, rx) = mpsc::channel();
                std::thread::spawn(move || {
                    let started = Instant::now();
                    let r = std::panic::catch_unwind(|| {
                        let rt = build_runtime(t).expect("runtime");
                        let o = program(&rt, pseed);
                        judge(&o, started, driver_name(t))
                    });
                    let _ = tx.send(r.map_err(panic_msg));
                });
                match rx.recv_timeout(WATCHDOG) {
                    Ok(Ok(v)) => {
                        if v.max_late > LATE_LIMIT && attempt < 3 && v.problems.is_empty() {
                            late_retries += 1;
                            continue; // load can make a thread late; a defect repeats
                        }
                        rep.cases += 1;
                        rep.steps += v.events as u64;
                        *per_driver.entry(drv.to_string()).or_insert(0u64) += 1;
                        worst_late = worst_late.max(v.max_late);
                        for (ty, sig, desc) in v.problems {
                            rep.problem(ty, sig, desc, &case, 0);
                        }
                        if v.max_late > LATE_LIMIT {
                            rep.problem(
                                "contract",
                                json!({"site": "e2e", "kind": "late", "what": "completion", "driver": drv}),
                                format!(
                                    "in {attempt} attempts a timer completed more than {:?} after its deadline (max {:?}) although a nearer deadline than the far timer ({:?}) was pending: the runtime slept past the nearest deadline",
                                    LATE_LIMIT, v.max_late, FAR
                                ),
                                &case,
                                0,
                            );
                        }
                    }
                    Ok(Err(m)) => {
                        rep.cases += 1;
                        rep.problem(
                            "panic",
                            json!({"site": "e2e", "kind": "panic", "driver": drv}),
                            format!("panic in block_on program: {m}"),
                            &case,
                            0,
                        );
                    }
                    Err(_) => {
                        rep.cases += 1;
                        hangs += 1;
                        rep.problem(
                            "hang",
                            json!({"site": "e2e", "kind": "hang", "driver": drv}),
                            format!("block_on program did not finish within {:?}: a timer never fired", WATCHDOG),
                            &case,
                            0,
                        );
                        if hangs >= 2 {
                            break 'outer;
                        }
                    }
                }
                break;
            }
        }
    }
    rep.set("worst_late_ms", json!(worst_late.as_secs_f64() * 1000.0));
    rep.set("late_retries", json!(late_retries));
    rep.set("per_driver", json!(per_driver));
    rep.finish();
    // hung worker threads (if any) are abandoned
    std::process::exit(0);
}
