//! C09: replay Timer behaviours (spec/Gen_Timer.tla) on the real compio-runtime timers, through the
//! public API only: sleep_until / sleep / timeout_at / timeout / interval_at, manual polling with
//! counting wakers, drop, Runtime::poll_with(Some(ZERO)), Runtime::current_timeout().
//!
//! Time mapping: one model tick = TICK of real time.  A behaviour started at global tick g0 has
//! base = origin + g0 * TICK; model deadline d is the Instant base + d * TICK; while the model clock
//! is n every step of the behaviour is executed strictly inside the window
//! (base + n*TICK + margin, base + (n+1)*TICK - margin), so `deadline <= now` in the model is
//! `deadline < Instant::now()` in the implementation and no comparison sits on a boundary.
//! Every clock reading of a step is checked against the window; a behaviour that left its window
//! (oversleep, CPU load) is discarded and retried later (with a longer tick if that happens often),
//! never reported.  Many behaviours are in flight at once (one runtime each) and share the tick grid.
//!
//! Two judgements per step:
//!  * contract oracle (-> "contract"): the property's own predicates on the real observation, stated
//!    with real clock readings and independent of the model's expectations;
//!  * model comparison (-> "mismatch"): result of polls, wakers invoked, current_timeout class.
use std::{
    cell::Cell,
    collections::VecDeque,
    future::Future,
    pin::Pin,
    rc::Rc,
    sync::{
        Arc,
        atomic::{AtomicU64, Ordering},
    },
    task::{Context, Poll, Waker},
    time::{Duration, Instant},
};

use compio_driver::DriverType;
use compio_runtime::{
    Runtime,
    time::{Elapsed, Interval, Sleep, Timeout, interval_at, sleep, sleep_until, timeout, timeout_at},
};
use hcore::out::{Report, cases_from_arg, panic_msg, silence_panics};
use htime::{CountWaker, build_runtime, driver_name, spawn_watchdog, wait_until};
use serde_json::{Value, json};

const NW: usize = 2;
const INNER_VAL: u32 = 77;

struct Inner {
    flag: Rc<Cell<bool>>,
}

impl Future for Inner {
    type Output = u32;

    fn poll(self: Pin<&mut Self>, _cx: &mut Context<'_>) -> Poll<u32> {
        if self.flag.get() { Poll::Ready(INNER_VAL) } else { Poll::Pending }
    }
}

enum Fut {
    Sleep(Pin<Box<Sleep>>),
    Timeout(Pin<Box<Timeout<Inner>>>),
    // field order matters: the tick future borrows the interval and is dropped first
    Interval {
        tick: Option<Pin<Box<dyn Future<Output = Instant>>>>,
        iv: Box<Interval>,
    },
}

#[derive(Clone, Copy, PartialEq, Debug)]
enum Kind {
    Sleep,
    Timeout,
    Interval,
}

impl Kind {
    fn name(self) -> &'static str {
        match self {
            Kind::Sleep => "sleep",
            Kind::Timeout => "timeout",
            Kind::Interval => "interval",
        }
    }
}

/// What the harness knows about the timer an object currently owns: its deadline lies in [lo, hi].
#[derive(Clone, Copy)]
struct Tk {
    lo: Instant,
    hi: Instant,
    created_t0: Instant,
    created_t1: Instant,
    /// a runtime poll began at t >= hi after the creation: the timer must have fired
    rt_after_hi: bool,
    /// a runtime poll ended at t >= lo after the creation: the timer may have fired
    rt_maybe: bool,
}

impl Tk {
    fn expired_at_creation(&self) -> bool {
        self.hi <= self.created_t0
    }

    fn surely_inserted(&self) -> bool {
        self.lo > self.created_t1
    }
}

struct Obj {
    kind: Kind,
    fut: Option<Fut>,
    wakers: Vec<Arc<CountWaker>>,
    seen: Vec<u64>,
    flag: Rc<Cell<bool>>,
    tk: Option<Tk>,
    registered: Option<usize>,
    dropped: bool,
    // interval
    start: Instant,
    period: Duration,
    last_tick: Option<Instant>,
    first_done: bool,
}

#[derive(Debug, PartialEq)]
enum PollRes {
    Pending,
    Ready,
    Ok(u32),
    Elapsed,
    Tick(Instant),
}

impl PollRes {
    fn name(&self) -> &'static str {
        match self {
            PollRes::Pending => "pending",
            PollRes::Ready => "ready",
            PollRes::Ok(_) => "ok",
            PollRes::Elapsed => "elapsed",
            PollRes::Tick(_) => "tick",
        }
    }
}

type Problem = (&'static str, Value, String, usize);

struct Active {
    idx: usize,
    attempt: u32,
    rt: Runtime,
    drv: DriverType,
    api: usize,
    objs: Vec<Obj>,
    base: Instant,
    g0: u64,
    n: u64,
    step: usize,
    problems: Vec<Problem>,
    diverged: bool,
    steps_run: u64,
}

enum Outcome {
    /// executed a "tick" step: continue in the next global tick
    Parked,
    Finished,
    Tainted,
    Panicked,
}

struct Clock {
    tick: Duration,
    margin: Duration,
}

impl Clock {
    fn window(&self, base: Instant, n: u64) -> (Instant, Instant) {
        (
            base + self.tick * n as u32 + self.margin,
            base + self.tick * (n as u32 + 1) - self.margin,
        )
    }
}

fn make_tick(iv: &mut Box<Interval>) -> Pin<Box<dyn Future<Output = Instant>>> {
    let p: *mut Interval = &mut **iv;
    // SAFETY: the tick future is stored next to the boxed interval and always dropped before it.
    Box::pin(unsafe { &mut *p }.tick())
}

fn ticks_of(d: Duration, tick: Duration) -> i64 {
    // ceil(d / tick); 0 only for a zero duration
    let a = d.as_nanos();
    let t = tick.as_nanos();
    a.div_ceil(t) as i64
}

impl Active {
    fn sig(&self, kind: &str, obj: &str) -> Value {
        json!({"site": "timer", "kind": kind, "obj": obj})
    }

    /// Execute steps until the behaviour parks at a model tick, ends, or leaves its window.
    fn run(&mut self, case: &Value, clock: &Clock, beat: &AtomicU64) -> Outcome {
        let steps = case["steps"].as_array().unwrap();
        loop {
            if self.step >= steps.len() {
                return Outcome::Finished;
            }
            let st = &steps[self.step];
            let a = st["a"].as_str().unwrap();
            if a == "tick" {
                self.n += 1;
                self.step += 1;
                self.steps_run += 1;
                // the observation of a tick step (current_timeout) is taken when the behaviour resumes
                return Outcome::Parked;
            }
            beat.fetch_add(1, Ordering::Relaxed);
            let r = std::panic::catch_unwind(std::panic::AssertUnwindSafe(|| self.exec(st, clock)));
            match r {
                Ok(true) => {}
                Ok(false) => return Outcome::Tainted,
                Err(e) => {
                    let s = self.sig("panic", a);
                    self.problems.push(("panic", s, format!("panic in step {a}: {}", panic_msg(e)), self.step));
                    return Outcome::Panicked;
                }
            }
            self.step += 1;
            self.steps_run += 1;
        }
    }

    /// After a model tick: observe current_timeout in the new window (expectation of the tick step).
    fn resume_after_tick(&mut self, case: &Value, clock: &Clock) -> Result<bool, String> {
        let steps = case["steps"].as_array().unwrap();
        let st = &steps[self.step - 1];
        let r = std::panic::catch_unwind(std::panic::AssertUnwindSafe(|| {
            let (lo, hi) = clock.window(self.base, self.n);
            let t0 = Instant::now();
            if t0 < lo || t0 > hi {
                return false;
            }
            self.step -= 1;
            let ok = self.observe(st, clock, t0, &[]);
            self.step += 1;
            ok
        }));
        r.map_err(panic_msg)
    }

    fn exec(&mut self, st: &Value, clock: &Clock) -> bool {
        let (lo, hi) = clock.window(self.base, self.n);
        let a = st["a"].as_str().unwrap();
        let i = st["i"].as_u64().unwrap() as usize;
        let d = st["d"].as_u64().unwrap_or(0) as u32;
        let p = st["p"].as_u64().unwrap_or(0) as u32;
        let w = st["w"].as_u64().unwrap_or(0) as usize;
        let t0 = Instant::now();
        if t0 < lo || t0 > hi {
            return false;
        }
        let rt = self.rt.clone();
        let mut must_fire: Vec<(usize, Option<usize>)> = vec![];
        match a {
            "sleep" | "timeout" | "interval" => {
                assert_eq!(i, self.objs.len() + 1, "harness: objects are created in index order");
                let deadline = self.base + clock.tick * d;
                let flag = Rc::new(Cell::new(false));
                let kind = match a {
                    "sleep" => Kind::Sleep,
                    "timeout" => Kind::Timeout,
                    _ => Kind::Interval,
                };
                let api = self.api;
                let c0 = Instant::now();
                let mut dur = Duration::ZERO;
                let fut = rt.enter(|| match kind {
                    Kind::Sleep => {
                        if api == 0 {
                            Fut::Sleep(Box::pin(sleep_until(deadline)))
                        } else {
                            dur = deadline.saturating_duration_since(Instant::now());
                            Fut::Sleep(Box::pin(sleep(dur)))
                        }
                    }
                    Kind::Timeout => {
                        let inner = Inner { flag: flag.clone() };
                        if api == 0 {
                            Fut::Timeout(Box::pin(timeout_at(deadline, inner)))
                        } else {
                            dur = deadline.saturating_duration_since(Instant::now());
                            Fut::Timeout(Box::pin(timeout(dur, inner)))
                        }
                    }
                    Kind::Interval => Fut::Interval {
                        tick: None,
                        iv: Box::new(interval_at(deadline, clock.tick * p)),
                    },
                });
                let c1 = Instant::now();
                let bounds = match kind {
                    Kind::Interval => None,
                    _ if api == 0 => Some((deadline, deadline)),
                    // sleep(dur) = sleep_until(Instant::now() + dur) with a clock reading in [c0, c1]
                    _ => Some((c0 + dur, c1 + dur)),
                };
                let tk = bounds.map(|(lo, hi)| Tk {
                    lo,
                    hi,
                    created_t0: c0,
                    created_t1: c1,
                    rt_after_hi: false,
                    rt_maybe: false,
                });
                self.objs.push(Obj {
                    kind,
                    fut: Some(fut),
                    wakers: (0..NW).map(|_| CountWaker::new()).collect(),
                    seen: vec![0; NW],
                    flag,
                    tk,
                    registered: None,
                    dropped: false,
                    start: deadline,
                    period: clock.tick * p.max(1),
                    last_tick: None,
                    first_done: false,
                });
            }
            "finish" => {
                self.objs[i - 1].flag.set(true);
            }
            "drop" => {
                let o = &mut self.objs[i - 1];
                let f = o.fut.take();
                rt.enter(|| drop(f));
                o.dropped = true;
                o.tk = None;
                o.registered = None;
            }
            "droptick" => {
                let o = &mut self.objs[i - 1];
                if let Some(Fut::Interval { tick, .. }) = o.fut.as_mut() {
                    let t = tick.take();
                    rt.enter(|| drop(t));
                }
                o.tk = None;
                o.registered = None;
            }
            "rtpoll" => {
                let p0 = Instant::now();
                rt.poll_with(Some(Duration::ZERO));
                let p1 = Instant::now();
                for (j, o) in self.objs.iter_mut().enumerate() {
                    if let Some(tk) = o.tk.as_mut() {
                        if p0 >= tk.hi && !tk.expired_at_creation() {
                            tk.rt_after_hi = true;
                            must_fire.push((j, o.registered));
                        }
                        if p1 >= tk.lo {
                            tk.rt_maybe = true;
                        }
                    }
                }
            }
            "poll" => {
                if !self.poll_step(i, w, st, clock) {
                    return false;
                }
            }
            _ => panic!("harness: unknown action {a}"),
        }
        self.observe(st, clock, t0, &must_fire)
    }

    fn poll_step(&mut self, i: usize, w: usize, st: &Value, clock: &Clock) -> bool {
        let step = self.step;
        let rt = self.rt.clone();
        let base = self.base;
        let o = &mut self.objs[i - 1];
        let kname = o.kind.name();
        let waker = Waker::from(o.wakers[w - 1].clone());
        let mut cx = Context::from_waker(&waker);
        let flag_at_poll = o.flag.get();
        let mut starting = false;
        let t0 = Instant::now();
        let res = rt.enter(|| match o.fut.as_mut().expect("harness: poll of a dropped object") {
            Fut::Sleep(s) => match s.as_mut().poll(&mut cx) {
                Poll::Ready(()) => PollRes::Ready,
                Poll::Pending => PollRes::Pending,
            },
            Fut::Timeout(t) => match t.as_mut().poll(&mut cx) {
                Poll::Ready(Ok(v)) => PollRes::Ok(v),
                Poll::Ready(Err::<_, Elapsed>(_)) => PollRes::Elapsed,
                Poll::Pending => PollRes::Pending,
            },
            Fut::Interval { tick, iv } => {
                if tick.is_none() {
                    starting = true;
                    *tick = Some(make_tick(iv));
                }
                match tick.as_mut().unwrap().as_mut().poll(&mut cx) {
                    Poll::Ready(v) => {
                        *tick = None;
                        PollRes::Tick(v)
                    }
                    Poll::Pending => PollRes::Pending,
                }
            }
        });
        let t1 = Instant::now();
        let mut bad: Vec<(&'static str, String)> = vec![];
        if o.kind == Kind::Interval && starting {
            // first tick waits for `start`; a later tick for an aligned instant after now, at most a period away
            let (lo, hi) = if !o.first_done { (o.start, o.start) } else { (t0, t1 + o.period) };
            o.tk = Some(Tk {
                lo,
                hi,
                created_t0: t0,
                created_t1: t1,
                rt_after_hi: false,
                rt_maybe: false,
            });
        }
        let tk = o.tk;
        let due = tk.map(|k| k.expired_at_creation() || k.rt_after_hi).unwrap_or(false);
        let early = tk.map(|k| t1 < k.lo).unwrap_or(false);
        match (&res, o.kind) {
            (PollRes::Ready, Kind::Sleep) => {
                if early {
                    bad.push(("early", format!("sleep reported Ready {:?} before its deadline", tk.unwrap().lo - t1)));
                }
                o.tk = None;
                o.registered = None;
            }
            (PollRes::Ok(v), Kind::Timeout) => {
                if !flag_at_poll {
                    bad.push(("timeout_phantom_ok", "timeout yielded Ok although the inner future is pending".into()));
                } else if *v != INNER_VAL {
                    bad.push(("timeout_wrong_value", format!("timeout yielded Ok({v}), inner result is {INNER_VAL}")));
                }
                // the Sleep inside lives on until the Timeout is dropped: keep tk / registered
            }
            (PollRes::Elapsed, Kind::Timeout) => {
                if flag_at_poll {
                    bad.push((
                        "timeout_lost_inner",
                        "timeout yielded Elapsed although the inner future was ready at that poll".into(),
                    ));
                }
                if early {
                    bad.push(("early", format!("timeout elapsed {:?} before its deadline", tk.unwrap().lo - t1)));
                }
                o.tk = None;
                o.registered = None;
            }
            (PollRes::Tick(v), Kind::Interval) => {
                let v = *v;
                if t1 < v {
                    bad.push(("early", format!("interval tick returned {:?} before its instant", v - t1)));
                }
                let aligned = v >= o.start && (v - o.start).as_nanos() % o.period.as_nanos() == 0;
                if !aligned {
                    bad.push((
                        "interval_unaligned",
                        format!(
                            "tick at start + {:?} is not start + k * period (period {:?})",
                            v.saturating_duration_since(o.start),
                            o.period
                        ),
                    ));
                }
                if !o.first_done && v != o.start {
                    bad.push(("interval_first", "the first tick is not `start`".into()));
                }
                if let Some(l) = o.last_tick
                    && v <= l
                {
                    bad.push(("interval_not_increasing", "tick instants do not increase".into()));
                }
                o.first_done = true;
                o.last_tick = Some(v);
                o.tk = None;
                o.registered = None;
            }
            (PollRes::Pending, _) => {
                if o.kind == Kind::Timeout && flag_at_poll {
                    bad.push((
                        "timeout_lost_inner",
                        "timeout is Pending although the inner future was ready at that poll".into(),
                    ));
                } else if due {
                    let k = tk.unwrap();
                    bad.push((
                        "stranded",
                        format!(
                            "{kname} is Pending although its deadline passed {:?} ago and {}",
                            t0.saturating_duration_since(k.hi),
                            if k.expired_at_creation() {
                                "was already reached when it was created"
                            } else {
                                "the runtime was polled since"
                            }
                        ),
                    ));
                }
                o.registered = Some(w - 1);
            }
            _ => bad.push(("wrong_result_type", format!("{kname} returned {:?}", res))),
        }
        for (k, dsc) in bad {
            let s = self.sig(k, kname);
            self.problems.push(("contract", s, format!("step {step} poll({i}): {dsc}"), step));
        }
        // model comparison
        if !self.diverged {
            let xr = st["res"].as_str().unwrap();
            let mut same = xr == res.name();
            let mut got = res.name().to_string();
            if let PollRes::Tick(v) = res {
                let xv = st["val"].as_i64().unwrap();
                let want = base + clock.tick * xv.max(0) as u32;
                if xr == "tick" && v != want {
                    same = false;
                }
                got = format!("tick at base{:+}ns", v.duration_since(base).as_nanos() as i128);
            }
            if !same {
                self.diverged = true;
                let s = json!({"site": "timer", "kind": "poll_result", "obj": kname});
                self.problems.push((
                    "mismatch",
                    s,
                    format!("step {step} poll({i}): model {xr} val {} / implementation {got}", st["val"]),
                    step,
                ));
            }
        }
        true
    }

    /// Observations common to every step: wakers invoked by the step, current_timeout after it.
    fn observe(&mut self, st: &Value, clock: &Clock, t0: Instant, must_fire: &[(usize, Option<usize>)]) -> bool {
        let step = self.step;
        let a = st["a"].as_str().unwrap();
        let t1 = Instant::now();
        // ---- wakers ----
        let mut deltas: Vec<Vec<u64>> = vec![];
        let mut bad: Vec<(&'static str, &'static str, String)> = vec![];
        for (j, o) in self.objs.iter_mut().enumerate() {
            let mut dv = vec![];
            for k in 0..NW {
                let c = o.wakers[k].count();
                let dlt = c - o.seen[k];
                o.seen[k] = c;
                dv.push(dlt);
                if dlt > 0 {
                    match o.tk {
                        None => bad.push((
                            "stale_waker",
                            o.kind.name(),
                            format!(
                                "waker {} of object {} was invoked although the object {}",
                                k + 1,
                                j + 1,
                                if o.dropped { "was dropped" } else { "owns no pending timer" }
                            ),
                        )),
                        Some(tk) if t1 < tk.lo => bad.push((
                            "early_wake",
                            o.kind.name(),
                            format!("waker of object {} invoked {:?} before the deadline", j + 1, tk.lo - t1),
                        )),
                        _ => {}
                    }
                    if o.registered == Some(k) {
                        o.registered = None;
                    }
                }
            }
            deltas.push(dv);
        }
        for (j, reg) in must_fire {
            if let Some(k) = reg
                && deltas[*j][*k] == 0
            {
                bad.push((
                    "missed_wake",
                    self.objs[*j].kind.name(),
                    format!(
                        "runtime polled after the deadline of object {} but its registered waker {} was not invoked",
                        j + 1,
                        k + 1
                    ),
                ));
            }
        }
        // ---- current_timeout ----
        let q0 = Instant::now();
        let to = self.rt.current_timeout();
        let q1 = Instant::now();
        let mut surely: Option<Instant> = None; // nearest deadline (upper bound) among the surely pending
        let mut maybe = false;
        for o in &self.objs {
            if let Some(tk) = o.tk {
                if tk.expired_at_creation() || tk.rt_after_hi {
                    continue;
                }
                if tk.surely_inserted() && !tk.rt_maybe {
                    surely = Some(surely.map_or(tk.hi, |s: Instant| s.min(tk.hi)));
                } else {
                    maybe = true;
                }
            }
        }
        match to {
            None => {
                if surely.is_some() {
                    bad.push((
                        "timeout_none_with_pending",
                        "runtime",
                        "current_timeout() is None although a timer is pending (an idle runtime would sleep past the deadline)"
                            .into(),
                    ));
                }
            }
            Some(x) => {
                if surely.is_none() && !maybe {
                    bad.push((
                        "residue",
                        "runtime",
                        format!("current_timeout() is Some({x:?}) although no timer is pending (an entry was left behind)"),
                    ));
                }
                if let Some(dl) = surely {
                    let limit = dl.saturating_duration_since(q0);
                    if x > limit {
                        bad.push((
                            "timeout_too_long",
                            "runtime",
                            format!("current_timeout() = {x:?} but the nearest deadline is only {limit:?} away"),
                        ));
                    }
                }
            }
        }
        for (k, ob, dsc) in bad {
            let s = self.sig(k, ob);
            self.problems.push(("contract", s, format!("step {step} {a}: {dsc}"), step));
        }
        // ---- window ----
        let (lo, hi) = clock.window(self.base, self.n);
        if t0 < lo || q1 > hi {
            return false;
        }
        // ---- model comparison ----
        if !self.diverged {
            let xw: Vec<u64> = st["wk"].as_array().unwrap().iter().map(|v| v.as_u64().unwrap()).collect();
            let mut okw = true;
            for (j, dv) in deltas.iter().enumerate() {
                for (k, dlt) in dv.iter().enumerate() {
                    let want = if xw.get(j).copied().unwrap_or(0) as usize == k + 1 { 1 } else { 0 };
                    if *dlt != want {
                        okw = false;
                    }
                }
            }
            if !okw {
                self.diverged = true;
                let s = json!({"site": "timer", "kind": "wakers", "obj": a});
                self.problems.push((
                    "mismatch",
                    s,
                    format!("step {step} {a}: model wakes {:?} / implementation invoked {:?}", xw, deltas),
                    step,
                ));
            }
            let xt = st["to"].as_i64().unwrap();
            let got = match to {
                None => -1,
                Some(x) => ticks_of(x, clock.tick),
            };
            if xt != got && !self.diverged {
                self.diverged = true;
                let s = json!({"site": "timer", "kind": "current_timeout", "obj": a});
                self.problems.push((
                    "mismatch",
                    s,
                    format!("step {step} {a}: model current_timeout {xt} ticks / implementation {:?} = {got} ticks", to),
                    step,
                ));
            }
        }
        let _ = q0;
        true
    }

    /// Drop everything; returns whether the runtime is clean (no timer left) afterwards.
    fn cleanup(&mut self) -> Result<bool, String> {
        let rt = self.rt.clone();
        let objs = std::mem::take(&mut self.objs);
        std::panic::catch_unwind(std::panic::AssertUnwindSafe(move || {
            rt.enter(|| drop(objs));
            rt.current_timeout().is_none()
        }))
        .map_err(panic_msg)
    }
}

fn main() {
    if std::env::var("VERIF_SHOW_PANICS").is_err() {
        silence_panics();
    }
    let tick_ms: f64 = std::env::var("TIMER_TICK_MS").ok().and_then(|s| s.parse().ok()).unwrap_or(4.0);
    let mut batch: usize = std::env::var("TIMER_BATCH").ok().and_then(|s| s.parse().ok()).unwrap_or(48);
    let cases: Vec<Value> = cases_from_arg().collect();
    let beat = Arc::new(AtomicU64::new(0));
    spawn_watchdog(beat.clone(), Duration::from_secs(30), "timer");
    let drivers: Vec<DriverType> = [DriverType::IoUring, DriverType::Poll]
        .into_iter()
        .filter(|t| build_runtime(*t).is_some())
        .collect();
    assert!(!drivers.is_empty(), "no driver available");
    let mut rep = Report::new();
    let mut pool: Vec<Vec<Runtime>> = drivers.iter().map(|_| vec![]).collect();
    let mut queue: VecDeque<(usize, u32)> = (0..cases.len()).map(|i| (i, 0)).collect();
    let mut tick = Duration::from_secs_f64(tick_ms / 1000.0);
    let tick0 = tick;
    let batch0 = batch;
    let mut lengthened = 0u32;
    let mut lost_ticks = 0u64;
    let mut retried = 0u64;
    let mut gave_up: Vec<usize> = vec![];
    let mut deferred: Vec<usize> = vec![];
    let mut rounds_at_max = 0u32;
    let max_tick = Duration::from_millis(128);
    // runtimes are built outside the timing windows
    for (di, t) in drivers.iter().enumerate() {
        for _ in 0..batch.min(cases.len() / 2 + 1) {
            let rt = build_runtime(*t).expect("runtime");
            // warm-up (first use of the driver, lazy initialisation) outside the timing windows;
            // no timer is created here: the runtimes handed to the behaviours are untouched
            let _ = std::panic::catch_unwind(std::panic::AssertUnwindSafe(|| {
                rt.poll_with(Some(Duration::ZERO));
                let _ = rt.current_timeout();
            }));
            pool[di].push(rt);
        }
    }
    let mut epochs = 0u32;
    let mut per_driver = vec![0u64; drivers.len()];
    let mut discarded_runtimes = 0u64;
    let started = Instant::now();

    while !queue.is_empty() || !deferred.is_empty() {
        if queue.is_empty() {
            // only behaviours that lost their window three times are left: lengthen the tick for them
            if tick >= max_tick {
                rounds_at_max += 1;
                if rounds_at_max > 4 {
                    gave_up.append(&mut deferred);
                    break;
                }
            } else {
                tick = (tick * 2).min(max_tick);
                lengthened += 1;
            }
            queue.extend(deferred.drain(..).map(|i| (i, 0)));
        }
        epochs += 1;
        let clock = Clock { tick, margin: tick / 8 };
        let origin = Instant::now() + Duration::from_millis(1);
        let mut g: u64 = 0;
        let mut active: Vec<(Active, u64)> = vec![]; // (behaviour, global tick at which it continues)
        let mut recent_total = 0u32;
        let mut recent_taint = 0u32;
        let mut draining = false;
        let mut lengthen = false;
        let mut calm = 0u32;
        loop {
            if active.is_empty() && (queue.is_empty() || draining) {
                break;
            }
            beat.fetch_add(1, Ordering::Relaxed);
            let start_at = origin + tick * g as u32 + clock.margin + tick / 16;
            let now = wait_until(start_at);
            let g_now = ((now - origin).as_nanos() / tick.as_nanos()) as u64;
            if g_now != g {
                // overslept a whole tick: everything that waited for tick g lost its window
                g = g_now + 1;
                lost_ticks += 1;
                let lost: Vec<(Active, u64)> = active.drain(..).collect();
                for (mut a, _) in lost {
                    recent_total += 1;
                    recent_taint += 1;
                    retire(&mut a, false, &drivers, &mut pool, &mut discarded_runtimes);
                    requeue(&mut queue, &mut deferred, a.idx, a.attempt, &mut retried);
                }
                continue;
            }
            // admit new behaviours
            while active.len() < batch && !draining {
                let Some((idx, attempt)) = queue.pop_front() else { break };
                let di = (idx / 2) % drivers.len();
                let rt = match pool[di].pop() {
                    Some(r) => r,
                    None => build_runtime(drivers[di]).expect("runtime"),
                };
                active.push((
                    Active {
                        idx,
                        attempt,
                        rt,
                        drv: drivers[di],
                        api: idx % 2,
                        objs: vec![],
                        base: origin + tick * g as u32,
                        g0: g,
                        n: 0,
                        step: 0,
                        problems: vec![],
                        diverged: false,
                        steps_run: 0,
                    },
                    g,
                ));
            }
            let mut keep: Vec<(Active, u64)> = Vec::with_capacity(active.len());
            for (mut a, at) in active.drain(..) {
                debug_assert_eq!(at, g);
                let case = &cases[a.idx];
                let mut outcome = None;
                if a.step > 0 && a.g0 + a.n != g {
                    outcome = Some(Outcome::Tainted);
                } else if a.step > 0 {
                    // resumed after a model tick
                    match a.resume_after_tick(case, &clock) {
                        Ok(true) => {}
                        Ok(false) => outcome = Some(Outcome::Tainted),
                        Err(m) => {
                            let s = a.sig("panic", "current_timeout");
                            a.problems.push(("panic", s, format!("panic in current_timeout: {m}"), a.step));
                            outcome = Some(Outcome::Panicked);
                        }
                    }
                }
                let outcome = outcome.unwrap_or_else(|| a.run(case, &clock, &beat));
                match outcome {
                    Outcome::Parked => {
                        if a.step >= case["steps"].as_array().unwrap().len() {
                            // the last step was a tick: nothing is observed after it
                            finish(&mut a, case, &mut rep, &drivers, &mut pool, &mut per_driver, &mut discarded_runtimes);
                            recent_total += 1;
                        } else {
                            keep.push((a, g + 1));
                        }
                    }
                    Outcome::Finished => {
                        finish(&mut a, case, &mut rep, &drivers, &mut pool, &mut per_driver, &mut discarded_runtimes);
                        recent_total += 1;
                    }
                    Outcome::Tainted => {
                        recent_total += 1;
                        recent_taint += 1;
                        retire(&mut a, false, &drivers, &mut pool, &mut discarded_runtimes);
                        requeue(&mut queue, &mut deferred, a.idx, a.attempt, &mut retried);
                    }
                    Outcome::Panicked => {
                        recent_total += 1;
                        rep.cases += 1;
                        rep.steps += a.steps_run;
                        for (ty, sig, desc, step) in a.problems.drain(..) {
                            rep.problem(ty, sig, desc, case, step);
                        }
                        // objects and runtime of a panicked behaviour are leaked, not dropped
                        let objs = std::mem::take(&mut a.objs);
                        std::mem::forget(objs);
                        std::mem::forget(a.rt.clone());
                        discarded_runtimes += 1;
                    }
                }
            }
            active = keep;
            g += 1;
            if recent_total >= 200 {
                if recent_taint * 3 > recent_total {
                    // too many lost windows: finish what is in flight, then lengthen the tick
                    draining = true;
                    lengthen = true;
                } else if recent_taint * 50 < recent_total && tick > tick0 {
                    calm += 1;
                    if calm >= 3 {
                        draining = true; // the machine is quiet again: go back to a shorter tick
                        lengthen = false;
                    }
                } else {
                    calm = 0;
                }
                recent_total = 0;
                recent_taint = 0;
            }
        }
        if draining {
            if lengthen {
                tick = (tick * 2).min(max_tick);
                batch = (batch * 3 / 4).max(12);
                lengthened += 1;
                // a new tick length: everybody starts afresh
                queue.extend(deferred.drain(..).map(|i| (i, 0)));
                for q in queue.iter_mut() {
                    q.1 = 0;
                }
            } else {
                tick = (tick / 2).max(tick0);
                batch = (batch * 4 / 3).min(batch0);
            }
        }
        if started.elapsed() > Duration::from_secs(1500) {
            break;
        }
    }
    let unrun = queue.len() + gave_up.len();
    rep.set("unrun", json!(unrun));
    rep.set("retried", json!(retried));
    rep.set("epochs", json!(epochs));
    rep.set("tick_lengthened", json!(lengthened));
    rep.set("lost_ticks", json!(lost_ticks));
    rep.set("wall_s", json!(started.elapsed().as_secs_f64()));
    rep.set("final_tick_ms", json!(tick.as_secs_f64() * 1000.0));
    rep.set("discarded_runtimes", json!(discarded_runtimes));
    rep.set(
        "per_driver",
        json!(drivers.iter().zip(per_driver.iter()).map(|(d, n)| (driver_name(*d).to_string(), *n)).collect::<std::collections::BTreeMap<_, _>>()),
    );
    rep.finish();
}

/// A behaviour that lost its window is tried again; after three losses at the current tick length
/// it waits for a longer tick.
fn requeue(queue: &mut VecDeque<(usize, u32)>, deferred: &mut Vec<usize>, idx: usize, attempt: u32, retried: &mut u64) {
    *retried += 1;
    if attempt + 1 >= 3 {
        deferred.push(idx);
    } else {
        queue.push_back((idx, attempt + 1));
    }
}

/// Drop the objects of a behaviour and give the runtime back if nothing is left in it.
fn retire(a: &mut Active, _report: bool, drivers: &[DriverType], pool: &mut [Vec<Runtime>], discarded: &mut u64) -> Option<bool> {
    let di = drivers.iter().position(|d| *d == a.drv).unwrap();
    match a.cleanup() {
        Ok(true) => {
            pool[di].push(a.rt.clone());
            Some(true)
        }
        Ok(false) => {
            *discarded += 1;
            Some(false)
        }
        Err(_) => {
            std::mem::forget(a.rt.clone());
            *discarded += 1;
            None
        }
    }
}

fn finish(
    a: &mut Active,
    case: &Value,
    rep: &mut Report,
    drivers: &[DriverType],
    pool: &mut [Vec<Runtime>],
    per_driver: &mut [u64],
    discarded: &mut u64,
) {
    let di = drivers.iter().position(|d| *d == a.drv).unwrap();
    let nsteps = a.step;
    match retire(a, true, drivers, pool, discarded) {
        Some(true) => {}
        Some(false) => {
            let s = a.sig("residue_after_drop_all", "runtime");
            a.problems.push((
                "contract",
                s,
                "after dropping every timer future current_timeout() is still Some: an entry was left behind".into(),
                nsteps,
            ));
        }
        None => {
            let s = a.sig("panic", "drop_all");
            a.problems.push(("panic", s, "panic while dropping the timer futures".into(), nsteps));
        }
    }
    rep.cases += 1;
    rep.steps += a.steps_run;
    per_driver[di] += 1;
    for (ty, sig, desc, step) in a.problems.drain(..) {
        rep.problem(ty, sig, desc, case, step);
    }
}
