//! C11: scripted in-memory streams that follow a schedule of per-call outcomes
//! (spec/IoHelpers.tla: k > 0 Ok(k), 0 Ok(0), -1 Err(Interrupted), -2 Err(Other)).
//!
//! The streams log what they really did (bytes delivered/accepted, offset and kind of the hard
//! fault, whether an Interrupted was returned) so that the contract oracle of the replay binary
//! can be evaluated on the real run, independently of the model's expectation.
use std::{
    cell::RefCell,
    io::{Error, ErrorKind},
};

use compio_buf::{BufResult, IoBuf, IoBufExt, IoBufMut, IoBufMutExt, IoVectoredBuf, IoVectoredBufMut, SetLenExt};
use compio_io::{AsyncRead, AsyncReadAt, AsyncWrite, AsyncWriteAt};

/// Marker of the panic the streams raise when a helper keeps calling them (endless loop).
pub const STEP_BOUND_MSG: &str = "VERIF_STEP_BOUND";
pub const STEP_BOUND: usize = 200;

#[derive(Debug, Clone, Default)]
pub struct Script {
    items: Vec<i64>,
    /// capacity (reads) / length (writes) the model expects to be offered at each scheduled call
    offered: Vec<usize>,
    next: usize,
    /// number of calls that consumed or wanted a schedule item
    pub calls: usize,
    /// the schedule could not be followed as written (model and implementation took different paths)
    pub drift: Vec<String>,
    /// Interrupted outcomes really returned
    pub interrupted: usize,
    /// (kind, offset) of the hard fault really returned: "err" | "zero"
    pub fault: Option<(&'static str, usize)>,
}

impl Script {
    pub fn new(items: Vec<i64>) -> Self {
        Self {
            items,
            ..Default::default()
        }
    }

    pub fn with_offered(mut self, offered: Vec<usize>) -> Self {
        self.offered = offered;
        self
    }

    fn take(&mut self, offered: usize) -> Option<i64> {
        self.calls += 1;
        if self.calls > STEP_BOUND {
            panic!("{STEP_BOUND_MSG}");
        }
        if let Some(&want) = self.offered.get(self.next) {
            if want != offered {
                self.drift
                    .push(format!("call {}: {offered} bytes of room / data offered, the model expects {want}", self.next));
            }
        }
        let it = self.items.get(self.next).copied();
        self.next += 1;
        it
    }

    pub fn unused(&self) -> usize {
        self.items.len().saturating_sub(self.next)
    }
}

fn other() -> Error {
    Error::new(ErrorKind::Other, "scripted failure")
}
fn interrupted() -> Error {
    Error::new(ErrorKind::Interrupted, "scripted interruption")
}

/// Decide one read call: returns Ok(k) bytes to deliver or the error.
fn read_outcome(s: &mut Script, cap: usize, avail: usize, off: usize, truncate: &mut bool) -> Result<usize, Error> {
    if cap == 0 {
        return Ok(0); // nothing can be transferred; not a scheduled call
    }
    match s.take(cap) {
        None => {
            s.drift.push(format!("read schedule exhausted at offset {off}"));
            Ok(cap.min(avail))
        }
        Some(k) if k > 0 => {
            let k = k as usize;
            let kk = k.min(cap).min(avail);
            if kk != k {
                s.drift.push(format!("read Ok({k}) not possible at offset {off} (capacity {cap}, available {avail})"));
            }
            Ok(kk)
        }
        Some(0) => {
            if avail > 0 {
                s.drift.push(format!("scheduled EOF at offset {off} with {avail} bytes left"));
                *truncate = true;
            }
            Ok(0)
        }
        Some(-1) => {
            s.interrupted += 1;
            Err(interrupted())
        }
        Some(_) => {
            s.fault = Some(("err", off));
            Err(other())
        }
    }
}

/// Sequential scripted reader. `read_vectored` is the trait default.
#[derive(Debug)]
pub struct ScriptReader {
    pub data: Vec<u8>,
    pub pos: usize,
    pub script: Script,
}

impl ScriptReader {
    pub fn new(data: Vec<u8>, sched: Vec<i64>) -> Self {
        Self {
            data,
            pos: 0,
            script: Script::new(sched),
        }
    }

    fn decide(&mut self, cap: usize) -> Result<usize, Error> {
        let avail = self.data.len() - self.pos;
        let mut trunc = false;
        let r = read_outcome(&mut self.script, cap, avail, self.pos, &mut trunc);
        if trunc {
            self.data.truncate(self.pos); // the stream really ended here
        }
        r
    }
}

fn fill_scalar<B: IoBufMut>(buf: &mut B, src: &[u8]) {
    let dst = buf.as_uninit();
    for (d, s) in dst.iter_mut().zip(src.iter()) {
        d.write(*s);
    }
    unsafe { buf.advance_to(src.len()) };
}

/// What a native readv does: fill the members in order, then record with advance_vec_to.
fn fill_vectored<V: IoVectoredBufMut>(buf: &mut V, mut src: &[u8]) {
    let n = src.len();
    for slice in buf.iter_uninit_slice() {
        let k = slice.len().min(src.len());
        for (d, s) in slice.iter_mut().zip(src.iter()).take(k) {
            d.write(*s);
        }
        src = &src[k..];
        if src.is_empty() {
            break;
        }
    }
    unsafe { buf.advance_vec_to(n) };
}

impl AsyncRead for ScriptReader {
    async fn read<B: IoBufMut>(&mut self, mut buf: B) -> BufResult<usize, B> {
        let cap = buf.buf_capacity();
        match self.decide(cap) {
            Ok(k) => {
                fill_scalar(&mut buf, &self.data[self.pos..self.pos + k]);
                self.pos += k;
                BufResult(Ok(k), buf)
            }
            Err(e) => BufResult(Err(e), buf),
        }
    }
}

/// Scripted reader with a native `read_vectored` (like sockets and files: readv + advance_vec_to).
#[derive(Debug)]
pub struct NativeReader(pub ScriptReader);

impl AsyncRead for NativeReader {
    async fn read<B: IoBufMut>(&mut self, buf: B) -> BufResult<usize, B> {
        self.0.read(buf).await
    }

    async fn read_vectored<V: IoVectoredBufMut>(&mut self, mut buf: V) -> BufResult<usize, V> {
        let cap = buf.total_capacity();
        match self.0.decide(cap) {
            Ok(k) => {
                let (pos, r) = (self.0.pos, &self.0.data);
                fill_vectored(&mut buf, &r[pos..pos + k]);
                self.0.pos += k;
                BufResult(Ok(k), buf)
            }
            Err(e) => BufResult(Err(e), buf),
        }
    }
}

/// Positional scripted reader.
#[derive(Debug)]
pub struct ScriptReaderAt {
    pub data: RefCell<Vec<u8>>,
    pub script: RefCell<Script>,
    pub native: bool,
}

impl ScriptReaderAt {
    pub fn new(data: Vec<u8>, sched: Vec<i64>, native: bool) -> Self {
        Self {
            data: RefCell::new(data),
            script: RefCell::new(Script::new(sched)),
            native,
        }
    }

    fn decide(&self, cap: usize, pos: u64) -> Result<(usize, usize), Error> {
        let mut data = self.data.borrow_mut();
        let pos = (pos as usize).min(data.len());
        let avail = data.len() - pos;
        let mut trunc = false;
        let r = read_outcome(&mut self.script.borrow_mut(), cap, avail, pos, &mut trunc);
        if trunc {
            data.truncate(pos);
        }
        r.map(|k| (pos, k))
    }
}

impl AsyncReadAt for ScriptReaderAt {
    async fn read_at<T: IoBufMut>(&self, mut buf: T, pos: u64) -> BufResult<usize, T> {
        let cap = buf.buf_capacity();
        match self.decide(cap, pos) {
            Ok((p, k)) => {
                fill_scalar(&mut buf, &self.data.borrow()[p..p + k]);
                BufResult(Ok(k), buf)
            }
            Err(e) => BufResult(Err(e), buf),
        }
    }

    async fn read_vectored_at<T: IoVectoredBufMut>(&self, mut buf: T, pos: u64) -> BufResult<usize, T> {
        if !self.native {
            // the trait default: first member with room, through the owned iterator
            let mut iter = match buf.owned_iter() {
                Ok(it) => it,
                Err(buf) => return BufResult(Ok(0), buf),
            };
            loop {
                if iter.buf_capacity() > 0 {
                    use compio_buf::IntoInner;
                    return self.read_at(iter, pos).await.into_inner();
                }
                match iter.next() {
                    Ok(n) => iter = n,
                    Err(buf) => return BufResult(Ok(0), buf),
                }
            }
        }
        let cap = buf.total_capacity();
        match self.decide(cap, pos) {
            Ok((p, k)) => {
                fill_vectored(&mut buf, &self.data.borrow()[p..p + k]);
                BufResult(Ok(k), buf)
            }
            Err(e) => BufResult(Err(e), buf),
        }
    }
}

/// Decide one write call offered `n` bytes at offset `off`.
fn write_outcome(s: &mut Script, n: usize, off: usize) -> Result<usize, Error> {
    if n == 0 {
        return Ok(0);
    }
    match s.take(n) {
        None => {
            s.drift.push(format!("write schedule exhausted at offset {off}"));
            Ok(n)
        }
        Some(k) if k > 0 => {
            let k = k as usize;
            if k > n {
                s.drift.push(format!("write Ok({k}) not possible at offset {off} ({n} bytes offered)"));
            }
            Ok(k.min(n))
        }
        Some(0) => {
            s.fault = Some(("zero", off));
            Ok(0)
        }
        Some(-1) => {
            s.interrupted += 1;
            Err(interrupted())
        }
        Some(_) => {
            s.fault = Some(("err", off));
            Err(other())
        }
    }
}

/// Sequential scripted writer. `write_vectored` is the trait default.
#[derive(Debug)]
pub struct ScriptWriter {
    pub sink: Vec<u8>,
    pub script: Script,
    pub flushes: usize,
    pub shutdowns: usize,
}

impl ScriptWriter {
    pub fn new(sched: Vec<i64>) -> Self {
        Self {
            sink: vec![],
            script: Script::new(sched),
            flushes: 0,
            shutdowns: 0,
        }
    }
}

impl AsyncWrite for ScriptWriter {
    async fn write<T: IoBuf>(&mut self, buf: T) -> BufResult<usize, T> {
        let r = write_outcome(&mut self.script, buf.buf_len(), self.sink.len());
        if let Ok(k) = r {
            self.sink.extend_from_slice(&buf.as_init()[..k]);
        }
        BufResult(r, buf)
    }

    async fn flush(&mut self) -> std::io::Result<()> {
        self.flushes += 1;
        Ok(())
    }

    async fn shutdown(&mut self) -> std::io::Result<()> {
        self.shutdowns += 1;
        Ok(())
    }
}

/// Scripted writer with a native `write_vectored` (writev: as many bytes as the call accepts, across members).
#[derive(Debug)]
pub struct NativeWriter(pub ScriptWriter);

impl AsyncWrite for NativeWriter {
    async fn write<T: IoBuf>(&mut self, buf: T) -> BufResult<usize, T> {
        self.0.write(buf).await
    }

    async fn write_vectored<T: IoVectoredBuf>(&mut self, buf: T) -> BufResult<usize, T> {
        let all: Vec<u8> = buf.iter_slice().flat_map(|s| s.iter().copied()).collect();
        let r = write_outcome(&mut self.0.script, all.len(), self.0.sink.len());
        if let Ok(k) = r {
            self.0.sink.extend_from_slice(&all[..k]);
        }
        BufResult(r, buf)
    }

    async fn flush(&mut self) -> std::io::Result<()> {
        self.0.flush().await
    }

    async fn shutdown(&mut self) -> std::io::Result<()> {
        self.0.shutdown().await
    }
}

/// Positional scripted writer over a zero-filled growable store.
#[derive(Debug)]
pub struct ScriptWriterAt {
    pub store: Vec<u8>,
    pub script: Script,
    pub native: bool,
}

impl ScriptWriterAt {
    pub fn new(sched: Vec<i64>, native: bool) -> Self {
        Self {
            store: vec![],
            script: Script::new(sched),
            native,
        }
    }

    fn put(&mut self, pos: usize, bytes: &[u8]) {
        if bytes.is_empty() {
            return;
        }
        if self.store.len() < pos + bytes.len() {
            self.store.resize(pos + bytes.len(), 0);
        }
        self.store[pos..pos + bytes.len()].copy_from_slice(bytes);
    }
}

impl AsyncWriteAt for ScriptWriterAt {
    async fn write_at<T: IoBuf>(&mut self, buf: T, pos: u64) -> BufResult<usize, T> {
        let r = write_outcome(&mut self.script, buf.buf_len(), pos as usize);
        if let Ok(k) = r {
            self.put(pos as usize, &buf.as_init()[..k]);
        }
        BufResult(r, buf)
    }

    async fn write_vectored_at<T: IoVectoredBuf>(&mut self, buf: T, pos: u64) -> BufResult<usize, T> {
        if !self.native {
            // the trait default: first member with data, through the owned iterator
            let mut iter = match buf.owned_iter() {
                Ok(it) => it,
                Err(buf) => return BufResult(Ok(0), buf),
            };
            loop {
                if iter.buf_len() > 0 {
                    use compio_buf::IntoInner;
                    return self.write_at(iter, pos).await.into_inner();
                }
                match iter.next() {
                    Ok(n) => iter = n,
                    Err(buf) => return BufResult(Ok(0), buf),
                }
            }
        }
        let all: Vec<u8> = buf.iter_slice().flat_map(|s| s.iter().copied()).collect();
        let r = write_outcome(&mut self.script, all.len(), pos as usize);
        if let Ok(k) = r {
            self.put(pos as usize, &all[..k]);
        }
        BufResult(r, buf)
    }
}

/// A stream with both directions, to be cut in halves by `compio_io::split`.
#[derive(Debug)]
pub struct Duplex {
    pub r: ScriptReader,
    pub w: ScriptWriter,
}

impl AsyncRead for Duplex {
    async fn read<B: IoBufMut>(&mut self, buf: B) -> BufResult<usize, B> {
        self.r.read(buf).await
    }
}

impl AsyncWrite for Duplex {
    async fn write<T: IoBuf>(&mut self, buf: T) -> BufResult<usize, T> {
        self.w.write(buf).await
    }

    async fn flush(&mut self) -> std::io::Result<()> {
        self.w.flush().await
    }

    async fn shutdown(&mut self) -> std::io::Result<()> {
        self.w.shutdown().await
    }
}
