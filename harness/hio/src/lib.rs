//! harness package hio
