//! harness package hio (shared by C11 and C13)
pub mod iohelpers;
